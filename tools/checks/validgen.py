"""Generators of component `valid` (C02, C07): schema family S1x, valid instances, single-violation mutations, renderers.

S1x = S1 of vlib.treegen (the shared tree base, not edited) plus, in this module only:
  * `unique` statements on lists (leaves of the list itself, of a child container, of a case),
  * mandatory leaves / min-elements inside non-default cases, choices nested directly in cases,
  * mandatory nodes at the top level,
  * the directed families `FAMILIES` (fam_*): hand-shaped templates, one per construct of the full schema language (C02).
The base DSL (`Schema.dsl()`) is unchanged, so `LyModel.Tree.Schema.parse` reads it; what is new travels in a second token,
the *extension DSL* (`XSchema.xdsl()`), one line per statement:

    unique <list-sid> <leaf-sid>,<leaf-sid>,...

(read by lean/LyModel/Valid/SchemaExt.lean).  Python is also the independent XML / RFC 7951 JSON encoder of the instances
(copied from checks/rtcomp.py of the `text` component, extended to duplicate members).
"""
import json
from vlib import treegen as tg

SNode, DN, Ty = tg.SNode, tg.DN, tg.Ty


# ----------------------------------------------------------------------------------------------------------------
# schemas
# ----------------------------------------------------------------------------------------------------------------

def has_when_stmt(n):
    """own when or a when inherited from uses / augment"""
    return getattr(n, "when", None) or getattr(n, "when_inh", None)


class XSchema(tg.Schema):
    """tg.Schema + `uniques` on list nodes: sn.uniques = [[leaf SNode, ...], ...]
    + the XPath-dependent statements (C02 `valx`): sn.musts = [expression text, ...] on any data node, sn.lref = path text on a leaf
    (type leafref, require-instance true; sn.ty stays the base type of the target, so the flat DSL is unchanged), sn.when = expression
    text.  Expressions use unprefixed names and no double quote / backslash.  `when` lines go into the extension DSL only for schemas
    marked `self.xp = True` (the law-only `when` schemas of C07 keep their extension DSL)."""
    xp = False
    xpmask = None

    def xdsl(self):
        L = []
        for n in self.nodes:
            for u in getattr(n, "uniques", []):
                L.append("unique %d %s" % (n.sid, ",".join(str(l.sid) for l in u)))
        for n in self.nodes:
            for m in getattr(n, "musts", []):
                L.append("must %d %s" % (n.sid, tg.hx(m.encode("utf-8"))))
        for n in self.nodes:
            if getattr(n, "lref", None):
                L.append("leafref %d %s" % (n.sid, tg.hx(n.lref.encode("utf-8"))))
        if self.xp:
            N = len(self.nodes)
            for n in self.nodes:
                if getattr(n, "when", None):
                    L.append("when %d %s" % (n.sid, tg.hx(n.when.encode("utf-8"))))
                # a when inherited from `uses` / `augment` (context node: the data parent): same line, key shifted by the table size
                if getattr(n, "when_inh", None):
                    L.append("when %d %s" % (n.sid + N, tg.hx(n.when_inh.encode("utf-8"))))
            if self.xpmask is not None:
                # the deviations of libyang's XPath engine the model has to mirror (XPath.Quirks mask, c08.live_mask); absent = all on
                L.append("xpmask %d" % self.xpmask)
        return "\n".join(L).encode()

    def has_xpath(self):
        return any(getattr(n, "musts", None) or getattr(n, "lref", None) or (self.xp and has_when_stmt(n)) for n in self.nodes)

    @staticmethod
    def rel_path(lst, leaf):
        """descendant schema node identifier of `leaf` relative to the list (through containers, choices, cases)"""
        p, names = leaf, []
        while p is not lst:
            names.append(p.name)
            p = p.parent
        return "/".join(reversed(names))

    def yang(self):
        out = ["module %s {" % self.name, "  yang-version 1.1;", "  namespace \"urn:verif:%s\";" % self.name, "  prefix p;"]

        def q(bs):
            s = bs.decode("utf-8")
            return '"' + s.replace("\\", "\\\\").replace('"', '\\"').replace("\n", "\\n").replace("\t", "\\t") + '"'

        cur, groupings = [out], []

        def emit(n, ind, pconfig, raw=False):
            p = "  " * ind
            if getattr(n, "when_inh", None) and not raw:
                # the node (with its own when) inside a grouping, a `uses` with the inherited when at its place
                saved, buf = cur[0], []
                cur[0] = buf
                emit(n, 2, pconfig, raw=True)
                cur[0] = saved
                groupings.append(["  grouping g%d {" % n.sid] + buf + ["  }"])
                cur[0].append('%suses g%d { when "%s"; }' % (p, n.sid, n.when_inh))
                return
            kw = {"leaflist": "leaf-list"}.get(n.kind, n.kind)
            cur[0].append("%s%s %s {" % (p, kw, n.name))
            q2 = p + "  "
            if n.kind == "list" and n.keys:
                cur[0].append('%skey "%s";' % (q2, " ".join(n.keys)))
            if n.kind == "list":
                for u in getattr(n, "uniques", []):
                    cur[0].append('%sunique "%s";' % (q2, " ".join(self.rel_path(n, l) for l in u)))
            if n.kind == "container" and n.presence:
                cur[0].append('%spresence "p";' % q2)
            if getattr(n, "when", None):
                cur[0].append('%swhen "%s";' % (q2, n.when))      # law-only schemas (the model has no XPath)
            if n.kind in ("leaf", "leaflist"):
                if getattr(n, "lref", None):
                    cur[0].append('%stype leafref { path "%s"; }' % (q2, n.lref))
                else:
                    cur[0].append(q2 + n.ty.yang())
            for m in getattr(n, "musts", []):
                cur[0].append('%smust "%s";' % (q2, m))
            if n.kind not in ("case",) and n.config != pconfig:
                cur[0].append("%sconfig %s;" % (q2, "true" if n.config else "false"))
            if n.kind in ("list", "leaflist"):
                if n.userord and n.config:
                    cur[0].append(q2 + "ordered-by user;")
                if n.min:
                    cur[0].append("%smin-elements %d;" % (q2, n.min))
                if n.max:
                    cur[0].append("%smax-elements %d;" % (q2, n.max))
            if n.kind == "leaflist":
                for d in n.dflts:
                    cur[0].append("%sdefault %s;" % (q2, q(d)))
            if n.kind == "leaf" and n.dflt is not None:
                cur[0].append("%sdefault %s;" % (q2, q(n.dflt)))
            if n.kind == "choice" and n.dflt:
                cur[0].append("%sdefault %s;" % (q2, n.dflt))
            if n.kind in ("leaf", "choice") and n.mandatory:
                cur[0].append(q2 + "mandatory true;")
            for k in n.kids:
                emit(k, ind + 1, n.config if n.kind != "case" else pconfig)
            cur[0].append(p + "}")
        for t in self.top:
            emit(t, 1, True)
        for g_ in groupings:
            out.extend(g_)
        out.append("}")
        return "\n".join(out) + "\n"


def gen_schema_x(rng, idx, max_depth=3, defaults=True, top_mand=0.25, uniques=0.4, prefix="vx", xpath=0.0):
    """A random member of S1x.  Module names have >= 3 characters (LYB hash exhaustion, F27).
    xpath > 0: with that probability the schema is decorated with must statements and leafrefs (decorate_xpath)."""
    nm = tg._Names()
    nomand = [0]          # > 0: directly below a default case (RFC 7950 7.9.3: no mandatory nodes there)

    def leaf(config, key=False, allow_mand=True, allow_dflt=True):
        allow_mand = allow_mand and not nomand[0]
        ty = tg.rand_type(rng, key=key)
        n = SNode("leaf", nm.new("k" if key else "f"), ty=ty, config=config, iskey=key)
        if not key:
            r = rng.random()
            if r < 0.3 and defaults and allow_dflt and ty.name != "empty":
                n.dflt = rng.choice(ty.pool())
            elif r < 0.45 and allow_mand:
                n.mandatory = True
        return n

    def leaflist(config):
        ty = tg.rand_type(rng, allow_empty=False)
        n = SNode("leaflist", nm.new("ll"), ty=ty, config=config)
        n.userord = (not config) or rng.random() < 0.4
        r = rng.random()
        if r < 0.3 and defaults and config:
            # "" cannot be a yang:value anchor in a user-ordered leaf-list (finding F52 of component diff)
            pool = [v for v in ty.pool() if v != b"" or not n.userord]
            n.dflts = rng.sample(pool, rng.randrange(1, min(3, len(pool)) + 1))
        elif r < 0.45 and not nomand[0]:
            n.min = rng.choice([1, 1, 2])
        if rng.random() < 0.2:
            n.max = rng.choice([2, 3, 4])
            if n.min > n.max:
                n.min = n.max
            n.dflts = n.dflts[:n.max]       # libyang does not check the number of defaults against max-elements
        return n

    def inner_kids(depth, config, in_case=False):
        k = rng.randrange(1 if in_case else 2, 4 if in_case else 6)
        out = [any_node(depth, config, in_case) for _ in range(k)]
        if in_case and not any(x.kind == "leaf" and not x.mandatory for x in out):
            out.insert(0, leaf(config, allow_mand=False))
        return out

    def choice(depth, cfg, nested):
        ncases = rng.randrange(2, 4)
        r2 = rng.random()
        dflt_i = rng.randrange(ncases) if r2 < 0.35 else None
        cases = []
        for i in range(ncases):
            saved = nomand[0]
            nomand[0] = nomand[0] + 1 if i == dflt_i else 0
            cases.append(SNode("case", nm.new("ca"), config=cfg, kids=inner_kids(depth + 1, cfg, in_case=True)))
            nomand[0] = saved
        n = SNode("choice", nm.new("ch"), config=cfg, kids=cases)
        if dflt_i is not None:
            n.dflt = cases[dflt_i].name
        elif r2 < 0.55 and not nomand[0]:
            n.mandatory = True
        return n

    def any_node(depth, config, in_case=False):
        r = rng.random()
        cfg = config and not (rng.random() < 0.12)
        if depth >= max_depth:
            r = r * 0.45
        if r < 0.30:
            return leaf(cfg)
        if r < 0.45:
            return leaflist(cfg)
        if r < 0.60:
            pres = rng.random() < 0.4
            saved = nomand[0]
            if pres:
                nomand[0] = 0               # a presence container is not a mandatory node whatever it contains
            n = SNode("container", nm.new("c"), presence=pres, config=cfg, kids=inner_kids(depth + 1, cfg))
            nomand[0] = saved
            return n
        if r < 0.85:
            keyless = (not cfg) and rng.random() < 0.5
            nkeys = 0 if keyless else rng.choice([1, 1, 1, 2])
            keys = [leaf(cfg, key=True) for _ in range(nkeys)]
            n = SNode("list", nm.new("l"), config=cfg, keys=[k.name for k in keys])
            n.userord = (not cfg) or rng.random() < 0.4
            mand_here = nomand[0]
            saved = nomand[0]
            nomand[0] = 0
            n.kids = keys + inner_kids(depth + 1, cfg)
            nomand[0] = saved
            if rng.random() < 0.2 and not mand_here:
                n.min = rng.choice([1, 1, 2])
            if rng.random() < 0.2:
                n.max = rng.choice([2, 3, 4])
            add_uniques(n)
            return n
        if depth < max_depth + 1 and (not in_case or rng.random() < 0.5):
            return choice(depth, cfg, nested=in_case)
        return leaf(cfg)

    def uniq_candidates(lst):
        out = []

        def walk(n, top):
            for k in n.kids:
                if k.kind == "leaf" and not k.iskey and k.ty.name != "empty":
                    out.append(k)
                elif k.kind == "container" or k.kind in ("choice", "case"):
                    walk(k, False)
        walk(lst, True)
        return out

    def add_uniques(lst):
        lst.uniques = []
        if rng.random() >= uniques:
            return
        cand = uniq_candidates(lst)
        for _ in range(rng.choice([1, 1, 2])):
            if not cand:
                break
            # leaves with a default below a case / presence container are where "default in use" matters (F175)
            pref = [c for c in cand if c.dflt is not None and c.parent is not lst]
            first = rng.choice(pref) if pref and rng.random() < 0.5 else rng.choice(cand)
            same = [c for c in cand if c.config == first.config and c is not first]
            u = [first] + (rng.sample(same, 1) if same and rng.random() < 0.5 else [])
            if not any(set(map(id, u)) == set(map(id, v)) for v in lst.uniques):
                lst.uniques.append(u)

    top = []
    for _ in range(rng.randrange(2, 5)):
        t = any_node(1, True)
        if rng.random() >= top_mand:
            if t.kind in ("leaf", "choice"):
                t.mandatory = False
            if t.kind in ("list", "leaflist"):
                t.min = 0
        top.append(t)
    s = XSchema("%s%d" % (prefix, idx), top)
    if xpath and rng.random() < xpath:
        decorate_xpath(rng, s, nmust=rng.randrange(1, 4), nlref=rng.randrange(0, 3))
    return s


def gen_schema_nested(rng, idx, prefix="vn"):
    """Directed family: a case that holds a NESTED choice next to constrained siblings (mandatory leaf, min/max-elements,
    mandatory choice, list with unique), the nested choice mostly first in schema order, so that the first instantiated node of the
    outer choice often belongs to the inner case while a constraint of the outer case is what a mutation violates."""
    nm = tg._Names()
    S = SNode

    def plain(mand=False, dflt=False):
        ty = tg.rand_type(rng)
        n = S("leaf", nm.new("f"), ty=ty)
        if mand:
            n.mandatory = True
        elif dflt and ty.name != "empty":
            n.dflt = rng.choice(ty.pool())
        return n

    def inner_choice(depth):
        cases = []
        for _ in range(rng.randrange(2, 4)):
            kids = [plain(dflt=rng.random() < 0.2)]
            if rng.random() < 0.3:
                kids.append(S("leaflist", nm.new("ll"), ty=tg.rand_type(rng, allow_empty=False)))
            if depth < 2 and rng.random() < 0.25:
                kids.insert(rng.randrange(len(kids) + 1), inner_choice(depth + 1))
            cases.append(S("case", nm.new("ca"), kids=kids))
        return S("choice", nm.new("ch"), kids=cases)

    def constrained():
        r = rng.random()
        if r < 0.3:
            return plain(mand=True)
        if r < 0.5:
            n = S("leaflist", nm.new("ll"), ty=tg.rand_type(rng, allow_empty=False))
            n.min = rng.choice([1, 2]); n.max = rng.choice([0, 3])
            return n
        if r < 0.7:
            k = S("leaf", nm.new("k"), ty=tg.rand_type(rng, key=True), iskey=True)
            a, b = plain(), plain(dflt=True)
            n = S("list", nm.new("l"), keys=[k.name], kids=[k, a, b])
            n.min = rng.choice([0, 1, 2]); n.max = rng.choice([0, 3])
            n.uniques = [[a]] if a.ty.name != "empty" and rng.random() < 0.6 else []
            return n
        if r < 0.85:
            c = S("choice", nm.new("ch"), kids=[S("case", nm.new("ca"), kids=[plain()]), S("case", nm.new("ca"), kids=[plain()])])
            c.mandatory = True
            return c
        return S("container", nm.new("c"), presence=rng.random() < 0.5, kids=[plain(mand=True), plain()])

    def outer_case():
        kids = [constrained() for _ in range(rng.randrange(1, 4))]
        pos = 0 if rng.random() < 0.7 else rng.randrange(len(kids) + 1)
        kids.insert(pos, inner_choice(1))
        return S("case", nm.new("ca"), kids=kids)

    def outer_choice():
        cases = [outer_case()] + [S("case", nm.new("ca"), kids=[plain()]) for _ in range(rng.randrange(1, 3))]
        rng.shuffle(cases)
        c = S("choice", nm.new("ch"), kids=cases)
        c.mandatory = rng.random() < 0.3
        return c

    top = []
    if rng.random() < 0.5:
        top.append(outer_choice())
    k = S("leaf", nm.new("k"), ty=tg.rand_type(rng, key=True), iskey=True)
    top.append(S("container", nm.new("c"), presence=True, kids=[plain(), outer_choice()]))
    if rng.random() < 0.6:
        lst = S("list", nm.new("l"), keys=[k.name], kids=[k, outer_choice(), plain()])
        lst.uniques = []
        top.append(lst)
    for n in top:
        if n.kind == "choice":
            n.mandatory = False
    s = XSchema("%s%d" % (prefix, idx), top)
    for n in s.nodes:
        if n.kind == "list" and not hasattr(n, "uniques"):
            n.uniques = []
    return s


# ----------------------------------------------------------------------------------------------------------------
# directed families: one small hand-shaped template per construct of the full schema language, with random names / types /
# bounds / positions (C02: theorems validate_ok_iff_valid / validate_error_tag over choice/case, defaults, non-presence
# containers, unique).  What libyang's compiler rejects is avoided by construction: no node with LYS_MAND_TRUE (mandatory leaf /
# choice, min-elements >= 1, non-presence container with such a descendant) directly in a default case, no default on a
# mandatory leaf or on a leaf-list with min-elements >= 1, no default case in a mandatory choice.
# ----------------------------------------------------------------------------------------------------------------

class _Fam:
    """schema node builders of the directed families"""

    def __init__(self, rng):
        self.rng, self.nm = rng, tg._Names()

    def ty(self, key=False, allow_empty=True, room=0):
        """a random type whose value pool has more than `room` values"""
        while True:
            t = tg.rand_type(self.rng, key=key, allow_empty=allow_empty)
            if len(t.pool(key)) > room:
                return t

    def leaf(self, mand=False, dflt=False, noempty=False, room=0):
        ty = self.ty(allow_empty=not (dflt or noempty), room=room)
        n = SNode("leaf", self.nm.new("f"), ty=ty)
        if mand:
            n.mandatory = True
        elif dflt:
            n.dflt = self.rng.choice(ty.pool())
        return n

    def ll(self, lo=0, hi=0, ndflt=0):
        ty = self.ty(allow_empty=False, room=max(lo, hi) + 1)
        n = SNode("leaflist", self.nm.new("ll"), ty=ty)
        n.userord = self.rng.random() < 0.3
        n.min, n.max = lo, hi
        if ndflt and not lo:
            pool = [v for v in ty.pool() if v != b"" or not n.userord]       # F52: "" is no yang:value anchor
            n.dflts = self.rng.sample(pool, min(ndflt, len(pool), hi or 99))
        return n

    def np(self, kids):
        return SNode("container", self.nm.new("c"), presence=False, kids=kids)

    def pc(self, kids):
        return SNode("container", self.nm.new("c"), presence=True, kids=kids)

    def lst(self, kids, lo=0, hi=0, uniques=None):
        k = SNode("leaf", self.nm.new("k"), ty=self.ty(key=True, room=7), iskey=True)
        n = SNode("list", self.nm.new("l"), keys=[k.name], kids=[k] + kids)
        n.userord = self.rng.random() < 0.3
        n.min, n.max = lo, hi
        n.uniques = uniques or []
        return n

    def case(self, kids):
        return SNode("case", self.nm.new("ca"), kids=kids)

    def choice(self, cases, dflt=None, mand=False):
        """dflt: the default case (a node of `cases`) or None"""
        n = SNode("choice", self.nm.new("ch"), kids=cases)
        if dflt is not None:
            n.dflt = dflt.name
        n.mandatory = bool(mand) and dflt is None
        return n

    def mixed(self, nodes):
        nodes = list(nodes)
        self.rng.shuffle(nodes)
        return nodes

    def holders(self, make, top_ok=True):
        """the template `make()` at the top level, in a presence container, in a non-presence container and in a list entry:
        a random non-empty subset of the four places"""
        r = self.rng
        top = []
        if top_ok and r.random() < 0.4:
            top.append(make())
        if r.random() < 0.5:
            top.append(self.pc(self.mixed([self.leaf(), make()])))
        if r.random() < 0.4:
            top.append(self.np(self.mixed([self.leaf(dflt=r.random() < 0.5), make()])))
        if r.random() < 0.6 or not top:
            top.append(self.lst(self.mixed([make(), self.leaf()])))
        return top

    def finish(self, family, idx, top):
        s = XSchema("v%s%d" % (FAMILY_PREFIX[family], idx), top)
        for n in s.nodes:
            if n.kind == "list" and not hasattr(n, "uniques"):
                n.uniques = []
        s.family = family
        return s


def fam_np_nested_default(rng, idx):
    """list entry > NON-presence container > choice > case > NESTED choice with a default case (leaf default, sometimes a leaf-list
    default); the non-default case of the nested choice has a mandatory leaf"""
    b = _Fam(rng)

    def body():
        cd = b.case([b.leaf(dflt=True)] + ([b.ll(ndflt=rng.randrange(1, 3))] if rng.random() < 0.4 else []))
        cm = b.case(b.mixed([b.leaf(mand=True), b.leaf()]))
        inner = b.choice(b.mixed([cd, cm]), dflt=cd)
        ca = b.case(b.mixed([b.leaf(), inner]))
        cb = b.case([b.leaf(dflt=rng.random() < 0.5)])
        outer = b.choice(b.mixed([ca, cb]), dflt=rng.choice([None, ca, cb]))
        return b.np(b.mixed([outer] + ([b.leaf(dflt=True)] if rng.random() < 0.5 else [])))
    top = [b.lst(b.mixed([body(), b.leaf()]))]
    if rng.random() < 0.4:
        top.append(b.pc(b.mixed([b.leaf(), body()])))
    if rng.random() < 0.3:
        top.insert(0, body())
    return b.finish("np-nested-default", idx, top)


def fam_mand_choice_in_case(rng, idx):
    """a MANDATORY choice nested in a case of an outer choice (sometimes one level deeper), the outer case selected by a sibling
    leaf (often itself mandatory, so that dropping the choice's data leaves the case selected) or not selected at all"""
    b = _Fam(rng)

    def outer():
        m = b.choice([b.case([b.leaf()]), b.case([b.leaf()] + ([b.ll()] if rng.random() < 0.3 else []))], mand=True)
        if rng.random() < 0.3:
            m = b.choice(b.mixed([b.case(b.mixed([b.leaf(mand=rng.random() < 0.5), m])), b.case([b.leaf()])]))
        ca = b.case(b.mixed([b.leaf(mand=rng.random() < 0.6), m]))
        cb = b.case([b.leaf()])
        cases = [ca, cb] + ([b.case([b.leaf(dflt=True)])] if rng.random() < 0.3 else [])
        r = rng.random()
        return b.choice(b.mixed(cases), dflt=cb if r < 0.3 else None, mand=0.3 <= r < 0.5)
    return b.finish("mand-choice-in-case", idx, b.holders(outer))


def fam_default_case_nested(rng, idx):
    """a default case that holds a nested choice whose own default case has a leaf default and leaf-list defaults (sometimes a
    third level): validation creates the implicit nodes level by level; other cases switch single levels off"""
    b = _Fam(rng)

    def inner(depth):
        dk = [b.leaf(dflt=True), b.ll(ndflt=rng.randrange(1, 4))]
        if depth < 2 and rng.random() < 0.35:
            dk.append(inner(depth + 1))
        cd = b.case(b.mixed(dk))
        cx = b.case([b.leaf()] + ([b.leaf(mand=True)] if rng.random() < 0.3 else []))
        cases = [cd, cx] + ([b.case([b.leaf(dflt=True)])] if rng.random() < 0.3 else [])
        return b.choice(b.mixed(cases), dflt=cd)

    def outer():
        cd = b.case(b.mixed([b.leaf(dflt=rng.random() < 0.7), inner(1)]))
        cy = b.case([b.leaf()] + ([b.ll(ndflt=1)] if rng.random() < 0.3 else []))
        return b.choice(b.mixed([cd, cy]), dflt=cd)
    return b.finish("default-case-nested", idx, b.holders(outer))


def fam_np_chain(rng, idx):
    """non-presence container inside non-presence container (2-3 levels) with a mandatory leaf / min-elements list / min-elements
    leaf-list / mandatory choice at the bottom, below a presence container, below a list entry and in a case: the mandatory
    descendant is demanded through the containers exactly when the presence container / entry / case data exists"""
    b = _Fam(rng)

    def bottom(mand=True):
        k = rng.choice(["leaf", "leaf", "list", "leaflist", "choice"]) if mand else "none"
        if k == "leaf":
            return b.mixed([b.leaf(mand=True), b.leaf()])
        if k == "list":
            return b.mixed([b.lst([b.leaf()], lo=rng.choice([1, 2]), hi=rng.choice([0, 3])), b.leaf(dflt=rng.random() < 0.5)])
        if k == "leaflist":
            return b.mixed([b.ll(lo=rng.choice([1, 2]), hi=rng.choice([0, 3])), b.leaf()])
        if k == "choice":
            return [b.choice([b.case([b.leaf()]), b.case([b.leaf()])], mand=True)] + ([b.leaf()] if rng.random() < 0.5 else [])
        return [b.leaf(dflt=True), b.leaf()]

    def chain(mand=True):
        n = b.np(bottom(mand))
        for _ in range(rng.choice([1, 1, 2])):
            n = b.np(b.mixed([n] + ([b.leaf(dflt=rng.random() < 0.6)] if rng.random() < 0.5 else [])))
        return n
    top = [b.pc(b.mixed([b.leaf(), chain()])), b.lst(b.mixed([chain(), b.leaf()]))]
    if rng.random() < 0.6:
        # in a (non-default) case: the chain is demanded once the case is selected by its other leaf
        ch = b.choice(b.mixed([b.case(b.mixed([b.leaf(), chain()])), b.case([b.leaf()])]))
        top.append(b.pc([ch]) if rng.random() < 0.5 else ch)
    if rng.random() < 0.5:
        top.append(chain(mand=rng.random() < 0.4))
    return b.finish("np-chain-mandatory", idx, b.mixed(top))


def fam_minmax_in_case(rng, idx):
    """list with min-elements and max-elements and leaf-list with min / max inside a case (the other case holds a max-only list /
    leaf-list, sometimes with defaults and as the default case)"""
    b = _Fam(rng)

    def body():
        lo = rng.choice([1, 2, 2])
        la = b.lst([b.leaf()], lo=lo, hi=rng.choice([lo, lo + 1, 4]))
        lo2 = rng.choice([0, 1, 2])
        lla = b.ll(lo=lo2, hi=rng.choice([max(lo2, 1), 3]))
        ca = b.case(b.mixed([b.leaf(), la, lla]))
        llb = b.ll(hi=rng.choice([1, 2]), ndflt=rng.choice([0, 1, 2]))
        cb = b.case(b.mixed([b.leaf(dflt=rng.random() < 0.4), llb] + ([b.lst([b.leaf()], hi=rng.choice([1, 2]))] if rng.random() < 0.5 else [])))
        return b.choice(b.mixed([ca, cb]), dflt=cb if rng.random() < 0.4 else None)
    return b.finish("minmax-in-case", idx, b.holders(body))


def fam_unique_paths(rng, idx):
    """`unique` with targets inside a non-presence container, inside a presence container, in two different cases of a choice and
    directly in the entry, several of them with a default.  The list is at the top level or in a presence container; instances come
    from the random generator and from directed_unique()."""
    b = _Fam(rng)

    def tl(dflt=False):
        return b.leaf(dflt=dflt, noempty=True, room=5)
    a, a2 = tl(rng.random() < 0.4), tl()
    pb = tl(rng.random() < 0.6)
    x, y = tl(rng.random() < 0.5), tl(rng.random() < 0.3)
    d = tl(True)
    e = tl()
    ch = b.choice([b.case([x]), b.case([y, b.leaf()])], dflt=None)
    if rng.random() < 0.5:
        ch.dflt = ch.kids[0].name
    kids = [b.np([a, a2]), b.pc([pb, b.leaf()]), ch, d, e]
    # every schema of the family: one unique with a target in a container, one with a target in a case, sometimes a third one
    in_cont = [[a], [pb], [a, a2], [a, d], [pb, e], [y, a]]
    in_case = [[x], [y], [x, y], [e, x]]
    uniques = [rng.choice(in_cont), rng.choice(in_case)] + ([rng.choice([[d], [e], [a2, d]])] if rng.random() < 0.4 else [])
    lst = b.lst(b.mixed(kids), uniques=[list(u) for u in b.mixed(uniques)])
    top = [lst if rng.random() < 0.6 else b.pc([b.leaf(), lst]), b.leaf()]
    return b.finish("unique-paths", idx, top)


def fam_plain(rng, idx):
    """the schema language of the first theorem: presence containers, lists, leaf-lists, leaves; mandatory, min/max-elements; no
    default, no non-presence container, no choice, no unique"""
    b = _Fam(rng)

    def kids(depth):
        out = []
        for _ in range(rng.randrange(2, 5)):
            r = rng.random()
            if r < 0.4 or depth >= 3:
                out.append(b.leaf(mand=rng.random() < 0.3))
            elif r < 0.6:
                lo = rng.choice([0, 0, 1, 2])
                out.append(b.ll(lo=lo, hi=rng.choice([0, 0, max(lo, 1), 3])))
            elif r < 0.8:
                out.append(b.pc(kids(depth + 1)))
            else:
                lo = rng.choice([0, 0, 1, 2])
                out.append(b.lst(kids(depth + 1), lo=lo, hi=rng.choice([0, 0, max(lo, 1), 3])))
        return out
    top = kids(1)
    for t in top:
        if rng.random() < 0.7:
            t.mandatory = False
            if t.kind in ("list", "leaflist"):
                t.min = 0
    return b.finish("plain", idx, top)


def witness_f322():
    """Witness of finding F322: `leaf f20 { type int32; } container c14 { presence; when "../f20 != '2147483646'"; must "/c14/f11 != 'B'";
    leaf f11 { type string; default "10"; } }` with the instance [`c14`] (no `f20`: the when is false).  Under LYD_VALIDATE_OPERATIONAL the
    false when is only a warning and the node stays, without LYD_WHEN_TRUE; libyang without fixes/F322.diff then aborts the must with
    "depends on a node with a when condition, which has not been evaluated".  Returns (schema, forest)."""
    f20 = SNode("leaf", "f20", ty=Ty("int32"))
    f11 = SNode("leaf", "f11", ty=Ty("string"), dflt=b"10")
    c14 = SNode("container", "c14", presence=True, kids=[f11])
    c14.when = "../f20 != '2147483646'"
    c14.musts = ["/c14/f11 != 'B'"]
    s = XSchema("vf322", [f20, c14])
    s.xp = True
    s.family = "f322-witness"
    return s, [DN(c14)]


def witness_f321():
    """Witness of finding F321: `choice ch { case a { container n { leaf x; } } case b { leaf y; } }` with the instance [empty `n`
    (created by the client: lyd_new_inner, `<n/>`), `y`].  A non-presence container without children has no meaning of its own
    (RFC 7950 sec. 7.5.1): the instance is valid; libyang without fixes/F321.diff takes the empty container for data of case `a`
    ("Data for both cases").  Returns (schema, forest)."""
    import random
    b = _Fam(random.Random(321))
    x, y = b.leaf(), b.leaf()
    x.ty = y.ty = Ty("string")
    x.dflt = y.dflt = None
    x.mandatory = y.mandatory = False
    n = b.np([x])
    ch = b.choice([b.case([n]), b.case([y])])
    s = XSchema("vf321", [ch])
    s.family = "f321-witness"
    return s, [DN(n), DN(y, val=b"1")]


class RawSchema:
    """a module given as YANG text, for requests only the harness sees (schema registration): `dsl()` is just the key the harness files
    the schema under, no model reads it"""

    def __init__(self, name, yang_text):
        assert len(name) >= 3
        self.name, self._yang, self.nodes, self.top = name, yang_text, [], []

    def dsl(self):
        return ("module %s" % self.name).encode()

    def xdsl(self):
        return b""

    def yang(self):
        return self._yang


def _cg(name, body):
    return RawSchema(name, 'module %s {\n  yang-version 1.1;\n  namespace "urn:verif:%s";\n  prefix p;\n  %s\n}\n' % (name, name, body))


_CG_B = 'case b { leaf y { type string; } }'


def compiler_guarantee_schemas():
    """The schema hypotheses `FullSane` of the C02 theorems, point by point, as tiny modules lys_compile must REFUSE, and positive controls
    it must accept: [(what, RawSchema, must_compile)]"""
    refused = [
        ("mandatory leaf with a default", "cgr01", 'leaf x { type string; mandatory true; default "a"; }'),
        ("mandatory choice with a default case", "cgr02", 'choice ch { mandatory true; default a; case a { leaf x { type string; } } %s }' % _CG_B),
        ("mandatory leaf directly in the default case", "cgr03", 'choice ch { default a; case a { leaf x { type string; mandatory true; } } %s }' % _CG_B),
        ("list with min-elements 1 directly in the default case", "cgr04",
         'choice ch { default a; case a { list l { key k; min-elements 1; leaf k { type string; } } } %s }' % _CG_B),
        ("leaf-list with min-elements 1 directly in the default case", "cgr05",
         'choice ch { default a; case a { leaf-list ll { type string; min-elements 1; } } %s }' % _CG_B),
        ("mandatory choice directly in the default case", "cgr06",
         'choice ch { default a; case a { choice in { mandatory true; leaf p { type string; } leaf q { type string; } } } %s }' % _CG_B),
        ("non-presence container with a mandatory leaf in the default case", "cgr07",
         'choice ch { default a; case a { container c { leaf x { type string; mandatory true; } } } %s }' % _CG_B),
        ("non-presence container holding a mandatory choice in the default case", "cgr08",
         'choice ch { default a; case a { container c { choice in { mandatory true; leaf p { type string; } leaf q { type string; } } } } %s }' % _CG_B),
        ("non-presence container holding a list with min-elements 1 in the default case", "cgr09",
         'choice ch { default a; case a { container c { list l { key k; min-elements 1; leaf k { type string; } } } } %s }' % _CG_B),
        ("leaf-list with a default and min-elements 1", "cgr10", 'leaf-list ll { type string; min-elements 1; default "a"; }'),
        ("config true node under a config false container", "cgr11", 'container c { config false; leaf x { type string; config true; } }'),
        ("min-elements 3 with max-elements 2", "cgr12", 'leaf-list ll { type string; min-elements 3; max-elements 2; }'),
        ("two cases with the same name in one choice", "cgr13", 'choice ch { case a { leaf x { type string; } } case a { leaf y { type string; } } }'),
        ("two sibling data nodes with the same name, one of them inside a case", "cgr14",
         'leaf x { type string; } choice ch { case a { leaf x { type string; } } %s }' % _CG_B),
    ]
    controls = [
        ("non-presence container holding a PRESENCE container with a mandatory leaf in the default case", "cgc01",
         'choice ch { default a; case a { container c { container q { presence "p"; leaf x { type string; mandatory true; } } } } %s }' % _CG_B),
        ("leaf-list with 2 defaults and max-elements 2", "cgc02", 'leaf-list ll { type string; max-elements 2; default "a"; default "b"; }'),
    ]
    return [(w, _cg(n, b), False) for w, n, b in refused] + [(w, _cg(n, b), True) for w, n, b in controls]


def witness_f320():
    """Witness of finding F320: `container c { presence; leaf-list ll { type string; max-elements 1; default "a"; default "b"; } }`
    and the instance with just the empty container.  More default values than max-elements: libyang (without fixes/F320.diff)
    compiles the module, creates both implicit instances and rejects every `c` without explicit entries (NoMax).
    Returns (schema, forest)."""
    import random
    b = _Fam(random.Random(320))
    ll = b.ll()
    ll.ty, ll.userord, ll.min, ll.max, ll.dflts = Ty("string"), False, 0, 1, [b"a", b"b"]
    c = b.pc([ll])
    s = XSchema("vf320", [c])
    s.family = "f320-witness"
    return s, [DN(c)]


FAMILY_PREFIX = {"np-nested-default": "fa", "mand-choice-in-case": "fb", "default-case-nested": "fc", "np-chain-mandatory": "fd",
                 "minmax-in-case": "fe", "unique-paths": "fu", "plain": "fp"}
FAMILIES = [("np-nested-default", fam_np_nested_default), ("mand-choice-in-case", fam_mand_choice_in_case),
            ("default-case-nested", fam_default_case_nested), ("np-chain-mandatory", fam_np_chain),
            ("minmax-in-case", fam_minmax_in_case), ("unique-paths", fam_unique_paths), ("plain", fam_plain)]
# sub-families switched off because they expose an open disagreement (none at present)
DISABLED_FAMILIES = set()


def schema_constructs(s):
    """the constructs of the full schema language a schema contains (names as printed in the distribution of C02)"""
    f = set()

    def mand_through_np(n):
        """does the non-presence container n carry LYS_MAND_TRUE: a mandatory leaf / choice, min-elements or such a container below"""
        for k in n.kids:
            if (k.kind in ("leaf", "choice") and k.mandatory) or (k.kind in ("list", "leaflist") and k.min) or (k.np_cont() and mand_through_np(k)):
                return True
        return False
    for n in s.nodes:
        pk = n.parent.kind if n.parent is not None else None
        if not n.config:
            f.add("state")
        if n.kind == "choice":
            f.add("choice")
            if pk == "case":
                f.add("nested-choice")
            if n.mandatory:
                f.add("mandatory-choice")
                if pk == "case":
                    f.add("mandatory-choice-in-case")
            if n.dflt:
                f.add("default-case")
                dc = [c for c in n.kids if c.name == n.dflt][0]
                if any(k.kind == "choice" for k in dc.kids):
                    f.add("default-case-with-nested-choice")
        elif n.kind == "leaf" and n.dflt is not None:
            f.add("leaf-default")
        elif n.kind == "leaflist":
            if n.dflts:
                f.add("leaflist-default")
            if pk == "case" and (n.min or n.max):
                f.add("leaflist-minmax-in-case")
        elif n.np_cont():
            f.add("np-container")
            if pk == "case":
                f.add("np-container-in-case")
            if pk == "container" and not n.parent.presence:
                f.add("np-in-np")
            if mand_through_np(n):
                f.add("np-container-mandatory-below")
        elif n.kind == "list":
            if pk == "case" and (n.min or n.max):
                f.add("list-minmax-in-case")
            for u in getattr(n, "uniques", []):
                f.add("unique")
                for leaf in u:
                    if leaf.dflt is not None:
                        f.add("unique-target-default")
                    p = leaf.parent
                    while p is not n:
                        f.add("unique-target-in-container" if p.kind == "container" else "unique-target-in-choice")
                        p = p.parent
    return f


CONSTRUCTS = ["choice", "nested-choice", "mandatory-choice", "mandatory-choice-in-case", "default-case", "default-case-with-nested-choice",
              "leaf-default", "leaflist-default", "np-container", "np-container-in-case", "np-in-np", "np-container-mandatory-below",
              "list-minmax-in-case", "leaflist-minmax-in-case", "unique", "unique-target-in-container", "unique-target-in-choice",
              "unique-target-default", "state"]


def theorem_class(s):
    """the smallest schema class of the C02 theorems (validate_ok_iff_valid, validate_error_tag) the schema belongs to:
    plain (presence containers, lists, leaf-lists, leaves only) < full-without-unique < full"""
    f = schema_constructs(s)
    if "unique" in f:
        return "full"
    if f & {"np-container", "choice", "default-case", "leaf-default", "leaflist-default"}:
        return "full-without-unique"
    return "plain"


def prune_np(forest):
    """the same instance without its EMPTY non-presence containers (recursively); None when there is none.  After a mutation that
    removed the last child of such a container, this is the form where only validation's implicit containers lead to the violated
    constraint."""
    changed = [False]

    def go(nodes):
        out = []
        for n in nodes:
            m = DN(n.sn, n.val, go(n.kids), n.flags, list(n.meta))
            if m.sn.np_cont() and not m.kids:
                changed[0] = True
                continue
            out.append(m)
        return out
    f = go(forest)
    return f if changed[0] else None


def remove_leaf(inst, lst, leaf):
    """remove the instance of `leaf` below the list instance (the containers on the way stay); True when there was one"""
    chain, p = [], leaf
    while p is not lst:
        if p.is_data():
            chain.append(p)
        p = p.parent
    node = inst
    for sn in reversed(chain):
        nxt = [k for k in node.kids if k.sn is sn]
        if not nxt:
            return False
        if sn is leaf:
            node.kids.remove(nxt[0])
            return True
        node = nxt[0]
    return False


def directed_unique(rng, s, g, ns=(2, 2, 3, 3, 5)):
    """hand-shaped instances for every list with `unique` that sits at the top level or in a top-level container, with the entry counts
    `ns`: exactly 2 entries
    (the direct comparison of lyd_validate_unique), 3 entries and more (its hash tables); one pair of entries at random positions
    (first/second, first/third, second/third, ...) made equal in one unique statement, left as generated (different), or made
    equal and then one target without a default in use removed from the later entry (incomplete tuple).
    -> [(forest, {"shape": ..., "n": ...})]; whether an instance is valid is decided by the specification, not here."""
    out = []
    lists = [n for n in s.nodes if n.kind == "list" and getattr(n, "uniques", None)
             and (n.parent is None or (n.parent.kind == "container" and n.parent.parent is None))]
    for lst in lists:
        root = lst if lst.parent is None else lst.parent
        for n in ns:
            for shape in ("equal", "different", "incomplete"):
                seen, ents = set(), []
                for _ in range(n):
                    e = g.list_instance(lst, seen)
                    if e is not None:
                        ents.append(e)
                forest = g.gen_level([t for t in s.top if t is not root])
                if lst.parent is None:
                    forest += ents
                else:
                    forest.append(DN(root, None, g.gen_level([k for k in root.kids if k is not lst]) + ents))
                tg.canon(forest)
                g.fix_uniques(None, forest)
                level = forest if lst.parent is None else [x for x in forest if x.sn is root][0].kids
                insts = [x for x in level if x.sn is lst]
                if len(insts) < 2:
                    continue
                info = {"shape": shape, "n": len(insts), "sid": lst.sid}
                if shape != "different":
                    u = rng.choice(lst.uniques)
                    i, j = sorted(rng.sample(range(len(insts)), 2))
                    a, bb = insts[i], insts[j]
                    for leaf in u:
                        if find_leaf(a, lst, leaf) is None and (leaf.dflt is None or not default_in_use(a, lst, leaf)):
                            g.force_leaf(a, lst, leaf)
                    ta = uniq_tuple(a, lst, u, rfc=True)
                    if ta is None:
                        continue
                    for leaf, v in zip(u, ta):
                        dn = find_leaf(bb, lst, leaf)
                        if dn is None:
                            g.force_leaf(bb, lst, leaf)
                            dn = find_leaf(bb, lst, leaf)
                        if dn is not None:
                            dn.val = v
                    info["pair"] = [i, j]
                    if shape == "incomplete":
                        leaf = rng.choice(u)
                        remove_leaf(bb, lst, leaf)
                        info["dropped"] = leaf.sid
                out.append((forest, info))
    return out


# ----------------------------------------------------------------------------------------------------------------
# XPath-dependent constraints: must, leafref (require-instance), when  (C02 op `valx`)
#
# Expressions are ASTs of checks/xpcomp.py (the C08 component) rendered with its `render`; the generator below is the type-directed
# generator of C08 cut down to what a must over an S1x schema needs: paths with parent / child / self steps that follow the schema
# from the context node to a nearby target, simple predicates on list steps, comparisons with literals of the target's type, count,
# not, boolean, string-length / starts-with / contains, and / or.  Names are unprefixed (one module); literals have no quote, no
# backslash, no control character, so the text can stand inside a double-quoted YANG string as it is.
# ----------------------------------------------------------------------------------------------------------------

def data_chain(n):
    """the data ancestors of a schema node from the top down, the node last (choices and cases have no data path step)"""
    out, p = [], n
    while p is not None:
        if p.is_data():
            out.append(p)
        p = p.parent
    return out[::-1]


def rel_route(ctx, tgt):
    """(number of parent steps, [schema nodes to descend through]) from the data node `ctx` to `tgt`"""
    a, b = data_chain(ctx), data_chain(tgt)
    i = 0
    while i < len(a) and i < len(b) and a[i] is b[i]:
        i += 1
    return len(a) - i, b[i:]


def safe_literals(sn, key=False):
    """values of the node's type that can stand in a single-quoted XPath literal inside a double-quoted YANG string"""
    out = []
    for v in sn.ty.pool(key):
        try:
            s = v.decode("ascii")
        except UnicodeDecodeError:
            continue
        if s and all(c not in "'\"\\" and " " <= c <= "~" for c in s) and s == s.strip():
            out.append(s)
    return out


# string-length() counts UTF-8 characters in libyang since F41 was repaired; the Lean engine counts bytes while bit 3 of its quirk
# mask is on (must "string-length(../a) = 1", a = 'é').  The check sends the live mask of C08 with the schema (`xpmask` line of the
# extension DSL), so the function is generated.
XP_STRING_LENGTH = True


class XpGen:
    """boolean expressions for `must` / `when` on a context schema node.  gen(ctx) -> (text, deps); deps = [(target schema node,
    literal | None)]: what the expression looks at (used by the mutation break-must)."""

    def __init__(self, rng, schema):
        from checks import xpcomp
        self.rng, self.s, self.X = rng, schema, xpcomp

    # ---- targets near the context node
    def targets(self, ctx, no_self=False):
        """data schema nodes the context may look at: own children, siblings, children of sibling containers / lists, uncles, and any
        top-level subtree (absolute path); a configuration context only looks at configuration nodes"""
        near, far = [], []
        par = ctx.data_parent()
        sibs = self.s.data_kids(par)
        for k in sibs:
            if k is not ctx:
                near.append(k)
                if k.is_inner():
                    near += k.data_kids()
        if ctx.is_inner():
            near += ctx.data_kids()
        if par is not None:
            far += [k for k in self.s.data_kids(par.data_parent()) if k is not par]
        for n in self.s.nodes:
            if n.is_data() and n.depth <= 2 and n is not ctx:
                far.append(n)
        ok = lambda n: (n.config or not ctx.config) and not has_when_stmt(n)
        near, far = [n for n in near if ok(n)], [n for n in far if ok(n)]
        return near, far

    def pick(self, ctx, kinds=None):
        near, far = self.targets(ctx)
        if kinds:
            near, far = [n for n in near if n.kind in kinds], [n for n in far if n.kind in kinds]
        pool = near if near and (self.rng.random() < 0.8 or not far) else far
        return self.rng.choice(pool) if pool else None

    # ---- paths
    def path(self, ctx, tgt, preds=True, deps=None):
        X, r = self.X, self.rng
        ups, downs = rel_route(ctx, tgt)
        steps = []
        absolute = r.random() < 0.15 and not any(a.kind == "list" for a in data_chain(ctx)[:-1] if a in data_chain(tgt))
        if absolute:
            downs = data_chain(tgt)
        else:
            steps = [X.st(X.NODE, axis="parent") for _ in range(ups)]
        for sn in downs:
            pr = []
            if preds and sn.kind == "list" and r.random() < 0.35:
                leaves = [k for k in sn.data_kids() if k.kind == "leaf" and k.ty.name != "empty" and safe_literals(k, k.iskey)
                          and (k.config or not ctx.config)]
                if leaves:
                    k = r.choice(leaves)
                    v = r.choice(safe_literals(k, k.iskey))
                    pr = [X.bop("eq", X.relp(X.st(("n", None, k.name))), self.lit(k, v))]
                    if deps is not None:
                        deps.append((k, v))
            steps.append(X.st(("n", None, sn.name), preds=pr))
        return ("path", "R" if absolute else "C", steps)

    def lit(self, sn, v):
        X = self.X
        if sn.ty.name in tg.INT_POOL and self.rng.random() < 0.7:
            i = int(v)
            return X.num(i) if i >= 0 else ("neg", X.num(-i))
        return X.lit(v)

    # ---- atoms
    def atom(self, ctx, deps):
        X, r = self.X, self.rng
        tgt = self.pick(ctx)
        if tgt is None:
            return X.fn("true")
        P = self.path(ctx, tgt, deps=deps)
        x = r.random()
        if tgt.kind == "leaf":
            lits = safe_literals(tgt, tgt.iskey)
            if x < 0.55 and lits and tgt.ty.name != "empty":
                v = r.choice(lits)
                deps.append((tgt, v))
                ops = ["eq", "ne"] + (["lt", "le", "gt", "ge"] if tgt.ty.name in tg.INT_POOL else [])
                e = X.bop(r.choice(ops), P, self.lit(tgt, v))
                return X.fn("not", e) if r.random() < 0.25 else e
            if x < 0.72 and tgt.ty.name == "string":
                deps.append((tgt, None))
                y = r.random()
                if y < 0.5 and XP_STRING_LENGTH:
                    return X.bop(r.choice(["lt", "le", "gt", "ge", "eq"]), X.fn("string-length", P), X.num(r.choice([0, 1, 2, 3])))
                return X.fn(r.choice(["starts-with", "contains"]), P, X.lit(r.choice(["a", "b", "1", "x", "0"])))
            if x < 0.8:
                # leaf against another leaf of the same base type
                other = [n for n in self.targets(ctx)[0] if n.kind == "leaf" and n is not tgt and n.ty.name == tgt.ty.name and n.ty.name != "empty"]
                if other:
                    o = r.choice(other)
                    deps += [(tgt, None), (o, None)]
                    return X.bop(r.choice(["eq", "ne"]), P, self.path(ctx, o, deps=deps))
            deps.append((tgt, None))
            return P if r.random() < 0.5 else X.fn(r.choice(["not", "not", "boolean"]), P)
        if tgt.kind in ("leaflist", "list"):
            deps.append((tgt, None))
            if x < 0.6:
                return X.bop(r.choice(["lt", "le", "gt", "ge", "eq", "ne"]), X.fn("count", P), X.num(r.choice([0, 1, 1, 2, 3, 4])))
            if x < 0.8 and tgt.kind == "leaflist" and safe_literals(tgt):
                v = r.choice(safe_literals(tgt))
                deps.append((tgt, v))
                e = X.bop("eq", P, self.lit(tgt, v))
                return X.fn("not", e) if r.random() < 0.5 else e
            if x < 0.9 and tgt.kind == "list":
                leaves = [k for k in tgt.data_kids() if k.kind == "leaf" and k.ty.name != "empty" and safe_literals(k, k.iskey)
                          and (k.config or not ctx.config)]
                if leaves:
                    k = r.choice(leaves)
                    v = r.choice(safe_literals(k, k.iskey))
                    deps.append((k, v))
                    P2 = ("path", P[1], P[2] + [X.st(("n", None, k.name))])
                    return X.bop(r.choice(["eq", "ne"]), P2, self.lit(k, v))
            return X.fn("not", P) if r.random() < 0.6 else X.fn("boolean", P)
        # container
        deps.append((tgt, None))
        return P if r.random() < 0.5 else X.fn("not", P)

    def expr(self, ctx, depth, deps):
        X, r = self.X, self.rng
        if depth <= 0 or r.random() < 0.55:
            return self.atom(ctx, deps)
        a, b = self.expr(ctx, depth - 1, deps), self.expr(ctx, depth - 1, deps)
        e = X.bop(r.choice(["and", "or", "or"]), a, b)
        return X.fn("not", e) if r.random() < 0.1 else e

    def gen(self, ctx, depth=2):
        deps = []
        e = self.expr(ctx, depth, deps)
        if e[0] == "path" or e[0] in ("lit", "num"):
            pass
        text = self.X.render(e)
        assert '"' not in text and "\\" not in text, text
        return text, deps


def leafref_route(rng, leaf, tgt, kref=None):
    """path text of a leafref from `leaf` to the leaf `tgt`: relative (../..) or absolute; with `kref` (a sibling leaf of `leaf`) a key
    predicate `[k = current()/../kref]` on the last list step.  -> (text, route); route = (ups | None, downs, (list, key, kref) | None)"""
    ups, downs = rel_route(leaf, tgt)
    in_list = any(a.kind == "list" for a in data_chain(leaf)[:-1] if a in data_chain(tgt))
    absolute = not in_list and rng.random() < 0.35
    if absolute:
        ups, downs = None, data_chain(tgt)
    pred = None
    if kref is not None:
        lists = [sn for sn in downs[:-1] if sn.kind == "list" and len(sn.keys) == 1]
        if lists:
            lst = lists[-1]
            pred = (lst, lst.kids[0], kref)
    names = []
    for sn in downs:
        names.append(sn.name + ("[%s = current()/../%s]" % (pred[1].name, kref.name) if pred and sn is pred[0] else ""))
    text = ("/" if ups is None else "../" * ups) + "/".join(names)
    return text, (ups, downs, pred)


def make_leafref(leaf, tgt, text, route):
    import copy
    leaf.ty = copy.deepcopy(tgt.ty)
    leaf.dflt = None
    leaf.dflts = []
    leaf.lref, leaf.lref_target, leaf.lref_route = text, tgt, route


# sub-families of the XPath family (switch off here when one exposes an open disagreement)
XP_LEAFLIST_LREF = True      # leaf-list of type leafref
XP_LREF_CHAIN = True         # leafref whose target is itself a leafref
XP_WHEN_CHOICE = True        # when on a choice / case (context node: the data parent)


def has_implicit(n):
    """does validation create the node by itself: leaf with a default, leaf-list with defaults, non-presence container with such below"""
    if n.kind == "leaf":
        return n.dflt is not None
    if n.kind == "leaflist":
        return bool(n.dflts)
    if n.np_cont():
        return any(has_implicit(k) or (k.kind in ("choice", "case") and any(has_implicit(x) for x in k.data_kids())) for k in n.kids)
    if n.kind == "choice":
        return bool(n.dflt) and any(has_implicit(x) for c in n.kids if c.name == n.dflt for x in c.data_kids())
    if n.kind == "case":
        return n.parent.dflt == n.name and any(has_implicit(x) for x in n.data_kids())
    return False


def ancestors(n):
    out, p = [], n.parent
    while p is not None:
        out.append(p)
        p = p.parent
    return out


def descendants(n):
    out = []
    for k in n.kids:
        out.append(k)
        out += descendants(k)
    return out


XP_WHEN_INH = True          # whens inherited from `uses` (context node: the data parent) next to / instead of the node's own when


def xp_inh_counts(s):
    """(nodes with a when inherited via uses / augment, nodes with own + inherited when)"""
    return (sum(1 for n in s.nodes if getattr(n, "when_inh", None)),
            sum(1 for n in s.nodes if getattr(n, "when_inh", None) and getattr(n, "when", None)))


def decorate_xpath(rng, s, nmust=2, nlref=1, nwhen=0, force_inh=False):
    """put `nlref` leafrefs, `nmust` must statements (and `nwhen` when statements) on nodes of the finished schema `s`.
    Leafrefs: an existing plain leaf (no key, no default, no unique target) becomes a leafref to a configuration-compatible leaf or key
    outside its own subtree; sometimes a second leaf next to it becomes the key reference of a predicate."""
    s.xp = True
    uniq = {id(l) for n in s.nodes for u in getattr(n, "uniques", []) for l in u}
    used = set()          # targets and key references: they stay what they are
    # (not a mandatory leaf: without any target instance the repair step of the instance generator could only leave it dangling)
    plain = lambda n: (n.kind == "leaf" and not n.iskey and not n.mandatory and id(n) not in uniq and id(n) not in used
                       and not getattr(n, "lref", None) and not has_when_stmt(n))
    plain_ll = lambda n: (XP_LEAFLIST_LREF and n.kind == "leaflist" and not n.dflts and not n.min and id(n) not in used
                          and not getattr(n, "lref", None) and not has_when_stmt(n))
    for _ in range(nlref):
        srcs = [n for n in s.nodes if plain(n)]
        rng.shuffle(srcs)
        lls = [n for n in s.nodes if plain_ll(n)]
        if lls and rng.random() < 0.35:
            srcs.insert(0, rng.choice(lls))
        chain = XP_LREF_CHAIN and rng.random() < 0.35
        for src in srcs:
            tgts = [n for n in s.nodes if n.kind == "leaf" and n is not src and n.ty.name != "empty"
                    and (not getattr(n, "lref", None) or (chain and n.lref_route[2] is None))
                    and (n.config or not src.config) and not has_when_stmt(n) and rel_route(src, n)[0] >= 1
                    and not any(has_when_stmt(a) for a in data_chain(n))]
            # prefer keys and leaves of lists (the classic use), then any leaf
            pref = [n for n in tgts if n.iskey or (n.data_parent() is not None and n.data_parent().kind == "list")]
            if not tgts:
                continue
            tgt = rng.choice(pref) if pref and rng.random() < 0.8 else rng.choice(tgts)
            chained = [n for n in tgts if getattr(n, "lref", None)]
            if chained and chain:
                tgt = rng.choice(chained)
            used.add(id(tgt))
            kref = None
            par = tgt.data_parent()
            if (src.kind == "leaf" and not getattr(tgt, "lref", None) and not tgt.iskey and par is not None and par.kind == "list"
                    and len(par.keys) == 1 and par not in data_chain(src) and rng.random() < 0.75):
                # a sibling of src becomes a leafref to the key, src selects the entry through it
                cand = [n for n in s.data_kids(src.data_parent()) if n is not src and plain(n) and n.config == src.config and n is not tgt]
                if cand:
                    kref = rng.choice(cand)
                    key = par.kids[0]
                    used.add(id(key))
                    make_leafref(kref, key, *leafref_route(rng, kref, key))
            make_leafref(src, tgt, *leafref_route(rng, src, tgt, kref))
            break
    g = XpGen(rng, s)
    ctxs = [n for n in s.nodes if n.is_data() and not has_when_stmt(n)]
    for _ in range(nmust):
        ctx = rng.choice(ctxs)
        text, deps = g.gen(ctx, depth=rng.choice([0, 1, 1, 2]))
        ctx.musts = getattr(ctx, "musts", []) + [text]
        ctx.must_deps = getattr(ctx, "must_deps", []) + [deps]
    # one node of every schema carries 2-3 musts (statement order = order of the `must` lines): the FIRST holds whenever the node exists, the
    # LAST is a comparison with a sibling leaf the generator controls (break-must / last-must-false set that leaf to the literal), so that
    # "a later must fails while the first holds" is frequent
    def controlled(n):
        return [k for k in s.data_kids(n.data_parent()) if k is not n and k.kind == "leaf" and not k.iskey and k.ty.name != "empty"
                and safe_literals(k) and (k.config or not n.config) and not has_when_stmt(k) and not getattr(k, "lref", None)]
    multi = [n for n in ctxs if controlled(n)]
    if multi and nmust:
        have = [n for n in multi if getattr(n, "musts", None)]
        ctx = rng.choice(have) if have and rng.random() < 0.6 else rng.choice(multi)
        k = rng.choice(controlled(ctx))
        v = rng.choice(safe_literals(k))
        X = g.X
        P = g.path(ctx, k, preds=False)
        last = X.bop("ne", P, g.lit(k, v))
        if rng.random() < 0.3:
            last = X.fn("not", X.bop("eq", P, g.lit(k, v)))
        first = rng.choice(["boolean(.)", "count(..) = 1", "count(.) = 1", "not(false())", "true()"] + ([". = ."] if ctx.is_term() else []))
        mid = list(zip(getattr(ctx, "musts", []), getattr(ctx, "must_deps", [])))[:1]
        ctx.musts = [first] + [m for m, _ in mid] + [X.render(last)]
        ctx.must_deps = [[]] + [d for _, d in mid] + [[(k, v)]]
        ctx.must_last = (k, v)
    for _ in range(nwhen):
        cand = [n for n in s.nodes if n.is_data() and not n.iskey and not has_when_stmt(n) and not getattr(n, "mandatory", False)
                and not (n.kind in ("list", "leaflist") and n.min) and id(n) not in uniq and not getattr(n, "lref", None)
                and id(n) not in used]
        # carriers that validation creates by itself: leaf with a default, leaf-list with defaults, non-presence container with default
        # descendants -> created with LYD_WHEN_TRUE while the condition holds, created and auto-deleted while it does not
        under_when = lambda n: any(has_when_stmt(a) for a in ancestors(n))
        cand = [n for n in cand if not under_when(n)]
        dfl = [n for n in cand if has_implicit(n)]
        if dfl and rng.random() < 0.6:
            cand = dfl
        # on a choice / a case: the condition is inherited by the data nodes of the case(s), context node = the data parent
        cc = [n for n in s.nodes if n.kind in ("choice", "case") and not has_when_stmt(n) and not under_when(n)
              and not (n.kind == "choice" and n.mandatory)
              and not any(has_when_stmt(d) or getattr(d, "lref", None) or id(d) in used or id(d) in uniq or d.iskey
                          for d in descendants(n))]
        if XP_WHEN_CHOICE and cc and rng.random() < 0.4:
            ctx = rng.choice(cc)
            sib = [k for k in s.data_kids(ctx.data_parent()) if not tg.TreeGen.under(k, ctx if ctx.kind == "choice" else ctx.parent)
                   and k.kind == "leaf" and k.ty.name != "empty" and safe_literals(k) and (k.config or not ctx.config)
                   and not has_when_stmt(k)]
            if sib:
                k = rng.choice(sib)
                v = rng.choice(safe_literals(k))
                ctx.when = "%s %s '%s'" % (k.name, rng.choice(["=", "!="]), v)
                ctx.when_deps = [(k, v)]
                continue
        if cand:
            ctx = rng.choice(cand)
            # the context node of a when is the node itself (may not exist): look at siblings / ancestors only
            sib = [k for k in s.data_kids(ctx.data_parent()) if k is not ctx and k.kind == "leaf" and k.ty.name != "empty"
                   and safe_literals(k) and (k.config or not ctx.config) and not has_when_stmt(k)]
            if sib:
                k = rng.choice(sib)
                v = rng.choice(safe_literals(k))
                ctx.when_op = rng.choice(["=", "!="])
                ctx.when = "../%s %s '%s'" % (k.name, ctx.when_op, v)
                ctx.when_deps = [(k, v)]
    if XP_WHEN_INH and nwhen:
        def inh(n):
            """an inherited when on n over a plain sibling leaf L, written from the data parent's point of view"""
            own = [d[0] for d in getattr(n, "when_deps", [])]
            Ls = [k for k in s.data_kids(n.data_parent()) if k is not n and k not in own and k.kind == "leaf" and not k.iskey
                  and k.ty.name != "empty" and safe_literals(k) and (k.config or not n.config) and not getattr(k, "lref", None)
                  and not has_when_stmt(k) and not any(has_when_stmt(a) for a in ancestors(k)) and id(k) not in used
                  and (k.parent is n.parent or k.parent is None or k.parent.kind != "case")]      # (creating L must not select a second case)
            if not Ls:
                return False
            L = rng.choice(Ls)
            v = rng.choice(safe_literals(L))
            form = rng.choice(["eq", "ne", "noteq", "noteq", "cur", "dot", "count"])
            n.when_inh = {"eq": "%s = '%s'", "ne": "%s != '%s'", "noteq": "not(%s = '%s')", "cur": "current()/%s = '%s'",
                          "dot": "./%s = '%s'", "count": "count(%s) = 1"}[form] % ((L.name, v) if form != "count" else (L.name,))
            n.when_inh_via, n.when_inh_form, n.when_inh_deps = "uses", form, [(L, v)]
            return True
        okc = lambda n: n.kind in ("leaf", "leaflist", "container") and n.is_data() and not n.iskey
        both = 0
        for n in s.nodes:
            if okc(n) and getattr(n, "when", None) and getattr(n, "when_op", None) and (rng.random() < 0.5 or (force_inh and not both)):
                both += inh(n)
        if force_inh and not both:
            # no data-node carrier with an own when so far: make one
            cand = [n for n in s.nodes if okc(n) and not has_when_stmt(n) and not n.mandatory and not (n.kind == "leaflist" and n.min)
                    and id(n) not in uniq and id(n) not in used and not getattr(n, "lref", None)
                    and not any(has_when_stmt(a) for a in ancestors(n)) and not any(has_when_stmt(d) for d in descendants(n))]
            rng.shuffle(cand)
            for n in cand:
                sib = [k for k in s.data_kids(n.data_parent()) if k is not n and k.kind == "leaf" and not k.iskey and k.ty.name != "empty"
                       and safe_literals(k) and (k.config or not n.config) and not has_when_stmt(k) and not getattr(k, "lref", None)]
                if len(sib) >= 2:
                    k = rng.choice(sib)
                    v = rng.choice(safe_literals(k))
                    n.when_op = rng.choice(["=", "!="])
                    n.when = "../%s %s '%s'" % (k.name, n.when_op, v)
                    n.when_deps = [(k, v)]
                    if inh(n):
                        break
                    n.when = None
                    n.when_deps = []
        elif rng.random() < 0.2:
            # an inherited when alone
            cand = [n for n in s.nodes if okc(n) and not has_when_stmt(n) and not n.mandatory and not (n.kind == "leaflist" and n.min)
                    and id(n) not in uniq and id(n) not in used and not getattr(n, "lref", None)
                    and not any(has_when_stmt(a) for a in ancestors(n)) and not any(has_when_stmt(d) for d in descendants(n))]
            if cand:
                inh(rng.choice(cand))
    return s


def fam_xpath(rng, idx, nwhen=0, force_inh=False):
    """small schemas for the XPath-dependent constraints: a container with typed leaves, a leaf-list and a keyed list, an inner
    container, and a top-level list; 1-3 musts, 1-2 leafrefs (relative to a sibling list's key, absolute into the container's list,
    with a key predicate through a second leafref), `nwhen` whens"""
    b = _Fam(rng)
    sl = lambda: b.leaf(noempty=True, room=5)
    lv, lw = sl(), b.leaf(dflt=rng.random() < 0.4, noempty=True)
    l1 = b.lst(b.mixed([lv, lw]), hi=rng.choice([0, 0, 4]))
    inner = b.np(b.mixed([sl(), b.leaf(dflt=rng.random() < 0.5, noempty=True), sl()]))
    ca = b.case(b.mixed([sl(), b.leaf(dflt=rng.random() < 0.6, noempty=True)]))
    cb = b.case([sl()] + ([b.ll(ndflt=1)] if rng.random() < 0.4 else []))
    ch = b.choice(b.mixed([ca, cb]), dflt=rng.choice([None, ca, ca, cb]))
    ckids = [sl(), sl(), b.leaf(dflt=True), b.ll(ndflt=rng.choice([0, 0, 1, 2])), b.ll(), l1, inner, sl(), ch] + ([b.leaf(mand=True)] if rng.random() < 0.3 else [])
    c = (b.pc if rng.random() < 0.6 else b.np)(b.mixed(ckids))
    top = [c, b.lst(b.mixed([sl(), sl(), sl()])), sl()]
    s = b.finish("xpath", idx, b.mixed(top))
    return decorate_xpath(rng, s, nmust=rng.randrange(1, 4), nlref=rng.randrange(1, 3), nwhen=nwhen, force_inh=force_inh)


FAMILY_PREFIX["xpath"] = "xq"
# the last two are directed instances rather than mutations: the sibling leaf the last must of the multi-must node compares is set to
# the literal (the first must holds, the last fails); the explicit instances of a when-carrier with defaults are removed (validation creates
# the carrier itself: with LYD_WHEN_TRUE, or creates and auto-deletes it)
XP_MUTATIONS = ["break-must", "break-leafref", "flip-when", "last-must-false", "when-implicit", "when-both-true", "when-inh-false"]


def xp_counts(s):
    """(musts, leafrefs, leafrefs with a key predicate, whens) of a schema"""
    return (sum(len(getattr(n, "musts", [])) for n in s.nodes), sum(1 for n in s.nodes if getattr(n, "lref", None)),
            sum(1 for n in s.nodes if getattr(n, "lref", None) and n.lref_route[2]), sum(1 for n in s.nodes if s.xp and has_when_stmt(n)))


# ----------------------------------------------------------------------------------------------------------------
# valid instances
# ----------------------------------------------------------------------------------------------------------------

def find_leaf(inst, lst, leaf):
    """data instance of unique leaf `leaf` below the list instance `inst` (lyd_val_uniq_find_leaf)"""
    chain, p = [], leaf
    while p is not lst:
        if p.is_data():
            chain.append(p)
        p = p.parent
    node = inst
    for sn in reversed(chain):
        nxt = [k for k in node.kids if k.sn is sn]
        if not nxt:
            return None
        node = nxt[0]
    return node


def uniq_tuple(inst, lst, u, rfc=False):
    """the tuple libyang compares: the instance's value, else the schema default whatever the ancestors (rfc=True: the
    default only when it is in use: every container on the way exists or is a non-presence container, cases selected or default)"""
    vals = []
    for leaf in u:
        d = find_leaf(inst, lst, leaf)
        if d is not None:
            vals.append(d.val)
        elif leaf.dflt is not None and (not rfc or default_in_use(inst, lst, leaf)):
            vals.append(leaf.dflt)
        else:
            return None
    return tuple(vals)


def default_in_use(inst, lst, leaf):
    chain, p = [], leaf.parent
    while p is not lst:
        chain.append(p)
        p = p.parent
    node = inst
    for sn in reversed(chain):
        if sn.kind == "container":
            nxt = [k for k in node.kids if k.sn is sn]
            if nxt:
                node = nxt[0]
            elif sn.presence:
                return False
            else:
                node = DN(sn, None, [])
        elif sn.kind == "case":
            ch = sn.parent
            others = [k for k in node.kids if tg.TreeGen.under(k.sn, ch)]
            mine = [k for k in others if tg.TreeGen.under(k.sn, sn)]
            if others and not mine:
                return False
            if not others and ch.dflt != sn.name:
                return False
    return True


class XTreeGen(tg.TreeGen):
    """valid-by-construction instances over S1x: treegen's generator + repair of `unique` collisions"""

    def tree(self):
        f = tg.canon(self.gen_level(self.s.top))
        self.fix_uniques(None, f)
        if getattr(self.s, "xp", False):
            self.fix_leafrefs(f)
            f = prune_np(f) or f        # a dropped leafref may have been the only child of a non-presence container
        return f

    def edit(self, forest, rate=0.35):
        f = tg.TreeGen.edit(self, forest, rate)
        self.fix_uniques(None, f)
        return f

    # ---- leafrefs: give every leafref instance the value of an existing target (no XPath evaluation: the paths are the three
    # shapes leafref_route() writes, resolved over the explicit tree; whether the result is valid is for libyang and the model to say)
    @staticmethod
    def parents_of(forest):
        par = {}

        def walk(n, p):
            par[id(n)] = p
            for k in n.kids:
                walk(k, n)
        for n in forest:
            walk(n, None)
        return par

    @staticmethod
    def lref_resolve(forest, par, x, use_pred=True):
        """the target instances of the leafref instance x; with use_pred=False the key predicate is ignored"""
        ups, downs, pred = x.sn.lref_route
        p = x
        if ups is None:
            p = None
        else:
            for _ in range(ups):
                p = par[id(p)]
        cur = [p]
        for sn in downs:
            nxt = []
            for c in cur:
                nxt += [k for k in (forest if c is None else c.kids) if k.sn is sn]
            if pred and use_pred and sn is pred[0]:
                xp_ = par[id(x)]
                kr = [k for k in (forest if xp_ is None else xp_.kids) if k.sn is pred[2]]
                nxt = [e for e in nxt if kr and e.kids and e.kids[0].val == kr[0].val]
            cur = nxt
        return cur

    def fix_leafrefs(self, forest):
        par = self.parents_of(forest)
        refs = []

        def walk(n):
            if getattr(n.sn, "lref", None):
                refs.append(n)
            for k in n.kids:
                walk(k)
        for n in forest:
            walk(n)
        def depth(sn):
            return 1 + (depth(sn.lref_target) if getattr(sn.lref_target, "lref", None) else 0)
        # plain ones first (the key references of the predicates among them; the targets of chains before their sources), then the ones
        # with a predicate
        gone = set()
        for x in sorted(refs, key=lambda x: (x.sn.lref_route[2] is not None, depth(x.sn))):
            if id(x) in gone:
                continue
            pred = x.sn.lref_route[2]
            sibs = forest if par[id(x)] is None else par[id(x)].kids
            if x.sn.kind == "leaflist":
                # all instances of the leaf-list at once: distinct values of existing targets, the surplus goes
                mine = [y for y in sibs if y.sn is x.sn]
                vals = []
                for t_ in self.lref_resolve(forest, par, x):
                    if t_.val not in vals and id(t_) not in gone:
                        vals.append(t_.val)
                self.rng.shuffle(vals)
                for y, v in zip(mine, vals):
                    y.val = v
                for y in mine[len(vals):]:
                    sibs.remove(y)
                gone.update(id(y) for y in mine)
                p_ = par[id(x)]
                if p_ is not None and p_.sn.kind == "list":
                    nk = len(p_.sn.keys)
                    p_.kids[:] = p_.kids[:nk] + tg.canon(p_.kids[nk:])
                else:
                    tg.canon(sibs)
                continue
            if pred is None:
                tg_ = [t_ for t_ in self.lref_resolve(forest, par, x) if id(t_) not in gone]
                if tg_:
                    x.val = self.rng.choice(tg_).val
                elif not x.sn.mandatory:
                    sibs.remove(x)
                    gone.add(id(x))
                continue
            ents = {}
            for t_ in self.lref_resolve(forest, par, x, use_pred=False):
                e = par[id(t_)]
                while e is not None and e.sn is not pred[0]:
                    e = par[id(e)]
                if e is not None:
                    ents.setdefault(id(e), (e, []))[1].append(t_)
            kr = [k for k in sibs if k.sn is pred[2]]
            if not ents or not kr:
                if not x.sn.mandatory:
                    sibs.remove(x)
                continue
            e, ts = self.rng.choice(list(ents.values()))
            kr[0].val = e.kids[0].val
            x.val = self.rng.choice(ts).val

    def fix_uniques(self, parent, sibs):
        """drop (or, at the minimum, re-key the values of) list instances whose unique tuple collides with an earlier one"""
        for n in list(sibs):
            if n.sn.is_inner():
                self.fix_uniques(n, n.kids)
        by = {}
        for n in sibs:
            if n.sn.kind == "list" and getattr(n.sn, "uniques", None):
                by.setdefault(n.sn.sid, []).append(n)
        for sid, insts in by.items():
            lst = insts[0].sn
            for u in lst.uniques:
                seen = set()
                for n in list(insts):
                    for _ in range(40):
                        t = uniq_tuple(n, lst, u, rfc=True)
                        if t is None or t not in seen:
                            break
                        # collision: drop the instance if allowed, else change / remove one of its unique leaves
                        if len(insts) > lst.min:
                            insts.remove(n)
                            sibs.remove(n)
                            t = None
                            break
                        leaf = self.rng.choice(u)
                        d = find_leaf(n, lst, leaf)
                        if d is not None:
                            d.val = self.rng.choice(leaf.ty.pool())
                        elif leaf.dflt is not None:
                            self.force_leaf(n, lst, leaf)
                    if t is not None:
                        seen.add(t)

    def force_leaf(self, inst, lst, leaf):
        """create `leaf` (with a random value) below the list instance, with the containers on the way"""
        chain, p = [], leaf
        while p is not lst:
            if p.is_data():
                chain.append(p)
            p = p.parent
        node = inst
        for sn in reversed(chain):
            nxt = [k for k in node.kids if k.sn is sn]
            if nxt:
                node = nxt[0]
                continue
            new = DN(sn, self.rng.choice(sn.ty.pool()) if sn.kind == "leaf" else None, [])
            if sn.kind == "container":
                new.kids = self.gen_level(sn.kids)
            nk = len(node.sn.keys) if node.sn.kind == "list" else 0
            node.kids.append(new)
            node.kids = node.kids[:nk] + tg.canon(node.kids[nk:])
            node = new


# ----------------------------------------------------------------------------------------------------------------
# single-violation mutations
# ----------------------------------------------------------------------------------------------------------------

def levels(schema, forest):
    """every sibling level of the instance: (parent DN | None, raw schema kids of the parent, the sibling list)"""
    out = [(None, schema.top, forest)]

    def walk(n):
        if n.sn.is_inner():
            out.append((n, n.sn.kids, n.kids))
            for k in n.kids:
                walk(k)
    for n in forest:
        walk(n)
    return out


def flat_schema_kids(skids):
    """(schema node, enclosing chain of (choice, case)) for every instantiable child, choices flattened"""
    out = []

    def go(kids, chain):
        for k in kids:
            if k.kind == "choice":
                for c in k.kids:
                    go(c.kids, chain + [(k, c)])
            else:
                out.append((k, chain))
    go(skids, [])
    return out


def case_selected(sibs, chain):
    """is every case on the chain the selected one (some data of it exists at this level)?"""
    for ch, ca in chain:
        if not any(tg.TreeGen.under(x.sn, ca) for x in sibs):
            return False
    return True


BAD_VALUES = {"int8": [b"128", b"-129", b"x"], "uint8": [b"256", b"-1", b"1x"], "int32": [b"2147483648", b"-2147483649", b"--1"],
              "boolean": [b"TRUE", b"1", b"yes"], "empty": [b"x"]}

MUTATIONS = ["drop-mandatory", "drop-choice", "below-min", "above-max", "dup-key", "dup-leaflist", "dup-leaf", "dup-container",
             "second-case", "unique", "bad-value", "missing-key", "state-node"]

# what libyang must report for each mutation: (error kind, RFC 7950 section 15 error-app-tag | None)
EXPECT = {"drop-mandatory": ("NoMand", None), "drop-choice": ("NoMandChoice", "missing-choice"), "below-min": ("NoMin", "too-few-elements"),
          "above-max": ("NoMax", "too-many-elements"), "dup-key": ("Dup", None), "dup-leaflist": ("Dup", None), "dup-leaf": ("Dup", None),
          "dup-container": ("Dup", None), "second-case": ("DupCase", None), "unique": ("NoUniq", "data-not-unique"),
          "bad-value": ("BadValue", None), "missing-key": ("NoKey", None), "state-node": ("UnexpState", None)}


class Mutator:
    """valid instance -> instance that violates exactly one named constraint (None when the instance offers no place for it)"""

    def __init__(self, rng, schema, gen):
        self.rng, self.s, self.g = rng, schema, gen

    def mutate(self, forest, kind):
        f = [n.clone() for n in forest]
        r = getattr(self, "m_" + kind.replace("-", "_"))(f)
        if r is None:
            return None
        return f, r

    def _recanon(self, parent, sibs):
        if parent is not None and parent.sn.kind == "list":
            nk = len(parent.sn.keys)
            parent.kids[:] = parent.kids[:nk] + tg.canon(parent.kids[nk:])
        else:
            tg.canon(sibs)

    def m_drop_mandatory(self, f):
        cand = []
        for parent, skids, sibs in levels(self.s, f):
            for sn, chain in flat_schema_kids(skids):
                if sn.kind == "leaf" and sn.mandatory:
                    inst = [x for x in sibs if x.sn is sn]
                    if inst:
                        # the enclosing cases must stay selected by other data
                        rest = [x for x in sibs if x is not inst[0]]
                        if case_selected(rest, chain):
                            cand.append((sibs, inst[0]))
        if not cand:
            return None
        sibs, n = self.rng.choice(cand)
        sibs.remove(n)
        return {"sid": n.sn.sid}

    def m_drop_choice(self, f):
        cand = []
        for parent, skids, sibs in levels(self.s, f):
            def go(kids, chain):
                for k in kids:
                    if k.kind == "choice":
                        if k.mandatory:
                            mine = [x for x in sibs if tg.TreeGen.under(x.sn, k)]
                            rest = [x for x in sibs if not tg.TreeGen.under(x.sn, k)]
                            if mine and case_selected(rest, chain):
                                cand.append((sibs, mine, k))
                        for c in k.kids:
                            go(c.kids, chain + [(k, c)])
            go(skids, [])
        if not cand:
            return None
        sibs, mine, ch = self.rng.choice(cand)
        for x in mine:
            sibs.remove(x)
        return {"sid": ch.sid}

    def m_below_min(self, f):
        cand = []
        for parent, skids, sibs in levels(self.s, f):
            for sn, chain in flat_schema_kids(skids):
                if sn.kind in ("list", "leaflist") and sn.min:
                    inst = [x for x in sibs if x.sn is sn]
                    rest = [x for x in sibs if x.sn is not sn]
                    if len(inst) >= sn.min and case_selected(rest, chain):
                        cand.append((sibs, inst, sn))
        if not cand:
            return None
        sibs, inst, sn = self.rng.choice(cand)
        drop = self.rng.sample(inst, len(inst) - (sn.min - 1))
        for x in drop:
            sibs.remove(x)
        return {"sid": sn.sid}

    def m_above_max(self, f):
        cand = []
        for parent, skids, sibs in levels(self.s, f):
            for sn, chain in flat_schema_kids(skids):
                if sn.kind in ("list", "leaflist") and sn.max and case_selected(sibs, chain):
                    cand.append((parent, sibs, sn))
        self.rng.shuffle(cand)
        for parent, sibs, sn in cand:
            inst = [x for x in sibs if x.sn is sn]
            ok = True
            while len(inst) <= sn.max:
                new = self.g.new_instance(sn, inst)
                if new is None:
                    ok = False
                    break
                inst.append(new)
                sibs.append(new)
            if ok:
                self._recanon(parent, sibs)
                self.g.fix_uniques(parent, sibs)
                if len([x for x in sibs if x.sn is sn]) > sn.max:
                    return {"sid": sn.sid}
            return None
        return None

    def m_dup_key(self, f):
        cand = [(p, sibs, x) for p, sk, sibs in levels(self.s, f) for x in sibs if x.sn.kind == "list" and x.sn.keys]
        cand = [(p, sibs, x) for p, sibs, x in cand if not x.sn.max or len([y for y in sibs if y.sn is x.sn]) < x.sn.max]
        if not cand:
            return None
        p, sibs, x = self.rng.choice(cand)
        nk = len(x.sn.keys)
        new = DN(x.sn, None, [k.clone() for k in x.kids[:nk]] + (self.g.gen_level(x.sn.kids[nk:]) if self.rng.random() < 0.5 else [k.clone() for k in x.kids[nk:]]))
        for u in getattr(x.sn, "uniques", []):
            t = uniq_tuple(new, x.sn, u)
            if t is not None and any(uniq_tuple(o, x.sn, u) == t for o in sibs if o.sn is x.sn):
                return None
        sibs.insert(sibs.index(x) + 1, new)
        return {"sid": x.sn.sid}

    def m_dup_leaflist(self, f):
        cand = [(p, sibs, x) for p, sk, sibs in levels(self.s, f) for x in sibs if x.sn.kind == "leaflist" and x.sn.config]
        cand = [(p, sibs, x) for p, sibs, x in cand if not x.sn.max or len([y for y in sibs if y.sn is x.sn]) < x.sn.max]
        if not cand:
            return None
        p, sibs, x = self.rng.choice(cand)
        sibs.insert(sibs.index(x) + 1, x.clone())
        return {"sid": x.sn.sid}

    def m_dup_leaf(self, f):
        cand = [(p, sibs, x) for p, sk, sibs in levels(self.s, f) for x in sibs if x.sn.kind == "leaf" and not x.sn.iskey]
        if not cand:
            return None
        p, sibs, x = self.rng.choice(cand)
        new = DN(x.sn, self.rng.choice(x.sn.ty.pool()))
        sibs.insert(sibs.index(x) + 1, new)
        return {"sid": x.sn.sid}

    def m_dup_container(self, f):
        cand = [(p, sibs, x) for p, sk, sibs in levels(self.s, f) for x in sibs if x.sn.kind == "container"]
        if not cand:
            return None
        p, sibs, x = self.rng.choice(cand)
        sibs.insert(sibs.index(x) + 1, x.clone())
        return {"sid": x.sn.sid}

    def m_second_case(self, f):
        cand = []
        for parent, skids, sibs in levels(self.s, f):
            def go(kids, chain):
                for k in kids:
                    if k.kind == "choice":
                        mine = [x for x in sibs if tg.TreeGen.under(x.sn, k)]
                        if mine and case_selected(sibs, chain):
                            cur = [c for c in k.kids if tg.TreeGen.under(mine[0].sn, c)][0]
                            cand.append((parent, sibs, k, cur))
                        for c in k.kids:
                            go(c.kids, chain + [(k, c)])
            go(skids, [])
        if not cand:
            return None
        parent, sibs, ch, cur = self.rng.choice(cand)
        other = self.rng.choice([c for c in ch.kids if c is not cur])
        # the smallest valid content of the other case, so that the only violation is the second case
        saved = self.g.density
        self.g.density = 0.0
        new = self.g.gen_case(other)
        self.g.density = saved
        if not new:
            return None
        sibs.extend(new)
        self._recanon(parent, sibs)
        return {"sid": ch.sid}

    def m_unique(self, f):
        cand = []
        for parent, skids, sibs in levels(self.s, f):
            by = {}
            for x in sibs:
                if x.sn.kind == "list" and getattr(x.sn, "uniques", None):
                    by.setdefault(x.sn.sid, []).append(x)
            for insts in by.values():
                if len(insts) >= 2:
                    cand.append(insts)
        self.rng.shuffle(cand)
        for insts in cand:
            lst = insts[0].sn
            u = self.rng.choice(lst.uniques)
            a, b = self.rng.sample(insts, 2)
            # make b's tuple equal to a's (a's must be complete)
            for leaf in u:
                if find_leaf(a, lst, leaf) is None and leaf.dflt is None:
                    self.g.force_leaf(a, lst, leaf)
            ta = uniq_tuple(a, lst, u)
            if ta is None:
                continue
            for leaf, v in zip(u, ta):
                d = find_leaf(b, lst, leaf)
                if d is None:
                    self.g.force_leaf(b, lst, leaf)
                    d = find_leaf(b, lst, leaf)
                if d is None:
                    break
                d.val = v
            if uniq_tuple(b, lst, u) != ta:
                continue
            # the forced leaves may have selected a second case or collided in another unique: re-check with the oracle outside
            return {"sid": lst.sid, "forced": True}
        return None

    def m_bad_value(self, f):
        cand = [(p, sibs, x) for p, sk, sibs in levels(self.s, f) for x in sibs
                if x.sn.is_term() and not x.sn.iskey and (x.sn.ty.name in BAD_VALUES or x.sn.ty.name == "enumeration")]
        if not cand:
            return None
        p, sibs, x = self.rng.choice(cand)
        x.val = b"nosuchenum" if x.sn.ty.name == "enumeration" else self.rng.choice(BAD_VALUES[x.sn.ty.name])
        return {"sid": x.sn.sid}

    def m_missing_key(self, f):
        cand = [x for p, sk, sibs in levels(self.s, f) for x in sibs if x.sn.kind == "list" and x.sn.keys]
        if not cand:
            return None
        x = self.rng.choice(cand)
        del x.kids[self.rng.randrange(len(x.sn.keys))]
        return {"sid": x.sn.sid}

    # ---- XPath-dependent constraints.  No expression is evaluated here: the mutations disturb what a must / leafref looks at; whether
    # the instance became invalid is decided by libyang and by the model.
    def _instances(self, f, sn):
        return [(p, sibs, x) for p, sk, sibs in levels(self.s, f) for x in sibs if x.sn is sn]

    def m_break_must(self, f):
        """change a leaf a must compares with (to the literal of the comparison, or away from it), delete it, or add / delete an
        entry of a counted (leaf-)list"""
        deps = [(n, d) for n in self.s.nodes for ds in getattr(n, "must_deps", []) for d in ds]
        self.rng.shuffle(deps)
        if self.rng.random() < 0.6:
            # the LAST must of the node with several musts first
            r = self.m_last_must_false(f)
            if r is not None:
                return r
        for ctx, (tgt, lit) in deps:
            inst = self._instances(f, tgt)
            if tgt.kind == "leaf":
                if not inst:
                    continue
                p, sibs, x = self.rng.choice(inst)
                if getattr(tgt, "lref", None):
                    continue
                r = self.rng.random()
                if r < 0.25 and not tgt.iskey and not tgt.mandatory:
                    sibs.remove(x)
                    return {"sid": tgt.sid, "how": "delete", "must_on": ctx.sid}
                if tgt.iskey:
                    continue
                if lit is not None and x.val != lit.encode() and r < 0.7:
                    x.val = lit.encode()
                else:
                    other = [v for v in tgt.ty.pool() if v != x.val]
                    if not other:
                        continue
                    x.val = self.rng.choice(other)
                return {"sid": tgt.sid, "how": "value", "must_on": ctx.sid}
            if tgt.kind in ("leaflist", "list"):
                if inst and (self.rng.random() < 0.5 or tgt.kind == "list" and not tgt.keys) and len(inst) > tgt.min:
                    p, sibs, x = self.rng.choice(inst)
                    sibs.remove(x)
                    return {"sid": tgt.sid, "how": "delete-entry", "must_on": ctx.sid}
                # add one next to the existing ones (or at every place the parent exists)
                places = [(p, sk, sibs) for p, sk, sibs in levels(self.s, f) if any(sn is tgt for sn, ch in flat_schema_kids(sk))]
                if not places:
                    continue
                p, sk, sibs = self.rng.choice(places)
                have = [x for x in sibs if x.sn is tgt]
                if tgt.max and len(have) >= tgt.max:
                    continue
                new = self.g.new_instance(tgt, have)
                if new is None:
                    continue
                if lit is not None and tgt.kind == "leaflist" and all(h.val != lit.encode() for h in have):
                    new.val = lit.encode()
                sibs.append(new)
                self._recanon(p, sibs)
                return {"sid": tgt.sid, "how": "add-entry", "must_on": ctx.sid}
            if tgt.kind == "container" and inst and self.rng.random() < 0.5:
                p, sibs, x = self.rng.choice(inst)
                sibs.remove(x)
                return {"sid": tgt.sid, "how": "delete", "must_on": ctx.sid}
        return None

    def m_last_must_false(self, f):
        """where the node with several musts exists, the sibling leaf its last must compares gets the literal (created if absent)"""
        lasts = [n for n in self.s.nodes if getattr(n, "must_last", None)]
        self.rng.shuffle(lasts)
        for ctx in lasts:
            k, v = ctx.must_last
            places = [(p, sibs) for p, sk, sibs in levels(self.s, f) if any(x.sn is ctx for x in sibs)]
            if not places:
                continue
            p, sibs = self.rng.choice(places)
            have = [x for x in sibs if x.sn is k]
            if have and all(x.val == v.encode() for x in have):
                continue
            if have:
                have[0].val = v.encode()
            else:
                sibs.append(DN(k, v.encode()))
                self._recanon(p, sibs)
            return {"sid": k.sid, "how": "last-must", "must_on": ctx.sid}
        return None

    def m_when_implicit(self, f):
        """remove every explicit instance of a when-carrier that validation creates by itself"""
        car = [n for n in self.s.nodes if has_when_stmt(n) and has_implicit(n)]
        done = []
        for n in car:
            if n.kind in ("choice", "case"):
                for p, sk, sibs in levels(self.s, f):
                    for x in [x for x in sibs if tg.TreeGen.under(x.sn, n)]:
                        sibs.remove(x)
                        done.append(n.sid)
                continue
            for p, sibs, x in self._instances(f, n):
                if x in sibs:
                    sibs.remove(x)
                    done.append(n.sid)
        return {"sids": sorted(set(done)), "how": "carrier-removed"} if done else None

    def _set_whens(self, f, inh_true):
        """where a node with own + inherited when exists: the own when made true, the inherited one true / false, by setting the two
        compared sibling leaves (created if absent)"""
        nodes = [n for n in self.s.nodes if getattr(n, "when_inh", None) and getattr(n, "when", None) and getattr(n, "when_op", None)]
        self.rng.shuffle(nodes)
        for n in nodes:
            places = [(p, sibs) for p, sk, sibs in levels(self.s, f) if any(x.sn is n for x in sibs)]
            if not places:
                continue
            p, sibs = self.rng.choice(places)

            def put(leaf, want_equal, v, must_exist=True):
                have = [x for x in sibs if x.sn is leaf]
                if want_equal:
                    val = v.encode()
                else:
                    other = [w for w in leaf.ty.pool() if w != v.encode()]
                    if not other:
                        return False
                    val = have[0].val if have and have[0].val != v.encode() else self.rng.choice(other)
                if have:
                    have[0].val = val
                else:
                    sibs.append(DN(leaf, val))
                return True
            (k, kv), (L, lv) = n.when_deps[0], n.when_inh_deps[0]
            if not put(k, n.when_op == "=", kv):
                continue
            form = n.when_inh_form
            if form == "count":
                have = [x for x in sibs if x.sn is L]
                if inh_true and not have:
                    sibs.append(DN(L, lv.encode()))
                if not inh_true:
                    for x in have:
                        sibs.remove(x)
            else:
                # eq / cur / dot: true iff L = lit; ne: true iff L exists and differs; noteq: true iff not (L = lit)
                want_equal = inh_true if form in ("eq", "cur", "dot") else not inh_true
                if not put(L, want_equal, lv):
                    continue
            self._recanon(p, sibs)
            return {"sid": n.sid, "form": form, "inherited": "true" if inh_true else "false"}
        return None

    def m_when_both_true(self, f):
        return self._set_whens(f, True)

    def m_when_inh_false(self, f):
        return self._set_whens(f, False)

    def m_flip_when(self, f):
        """the leaf a when condition compares: set to the literal of the comparison, to another value, or removed"""
        deps = [(n, d) for n in self.s.nodes for d in list(getattr(n, "when_deps", None) or []) + list(getattr(n, "when_inh_deps", None) or [])]
        self.rng.shuffle(deps)
        for ctx, (tgt, lit) in deps:
            inst = self._instances(f, tgt)
            if not inst:
                continue
            p, sibs, x = self.rng.choice(inst)
            r = self.rng.random()
            if r < 0.2 and not tgt.mandatory and not tgt.iskey:
                sibs.remove(x)
                return {"sid": tgt.sid, "how": "delete", "when_on": ctx.sid}
            if tgt.iskey or getattr(tgt, "lref", None):
                continue
            if x.val != lit.encode() and r < 0.7:
                x.val = lit.encode()
            else:
                other = [v for v in tgt.ty.pool() if v != x.val]
                if not other:
                    continue
                x.val = self.rng.choice(other)
            return {"sid": tgt.sid, "how": "value", "when_on": ctx.sid}
        return None

    def m_break_leafref(self, f):
        """a leafref value no instance of the target carries, or the target instance(s) with that value deleted"""
        refs = [(p, sibs, x) for p, sk, sibs in levels(self.s, f) for x in sibs if getattr(x.sn, "lref", None)]
        self.rng.shuffle(refs)
        for p, sibs, x in refs:
            tgt = x.sn.lref_target
            tinst = self._instances(f, tgt)
            have = {t.val for _, _, t in tinst}
            free = [v for v in tgt.ty.pool(tgt.iskey) if v not in have]
            if free and self.rng.random() < 0.6:
                x.val = self.rng.choice(free)
                if x.sn.kind == "leaflist":
                    self._recanon(p, sibs)
                return {"sid": x.sn.sid, "how": "dangling-value"}
            same = [(tp, ts, t) for tp, ts, t in tinst if t.val == x.val]
            if not same:
                continue
            if tgt.iskey:
                # the entries with that key go
                for tp, ts, t in same:
                    for gp, gs, e in self._instances(f, tp.sn):
                        if e is tp and e in gs:
                            gs.remove(e)
                return {"sid": x.sn.sid, "how": "delete-target-entry"}
            if tgt.mandatory:
                continue
            for tp, ts, t in same:
                ts.remove(t)
            return {"sid": x.sn.sid, "how": "delete-target"}
        return None

    def m_state_node(self, f):
        """not a mutation of the instance: the instance has a state node and is validated with LYD_VALIDATE_NO_STATE"""
        for p, sk, sibs in levels(self.s, f):
            for x in sibs:
                if not x.sn.config:
                    return {"sid": x.sn.sid, "opts": 1}
        return None


# ----------------------------------------------------------------------------------------------------------------
# independent encoders (XML, RFC 7951 JSON); duplicate members are written as they are
# ----------------------------------------------------------------------------------------------------------------

def xml_escape(b):
    return b.replace(b"&", b"&amp;").replace(b"<", b"&lt;").replace(b">", b"&gt;").replace(b"\r", b"&#13;")


def render_xml(schema, forest):
    ns = ("urn:verif:%s" % schema.name).encode()
    out = []

    def w(n, top):
        tag = n.sn.name.encode()
        open_ = b"<" + tag + (b' xmlns="' + ns + b'"' if top else b"")
        if n.sn.is_term():
            if n.val == b"":
                out.append(open_ + b"/>")
            else:
                out.append(open_ + b">" + xml_escape(n.val) + b"</" + tag + b">")
        else:
            out.append(open_ + b">")
            for k in n.kids:
                w(k, False)
            out.append(b"</" + tag + b">")
    for n in forest:
        w(n, True)
    return b"".join(out)


def json_scalar(sn, val):
    t = sn.ty.name
    s = val.decode("utf-8")
    if t in ("int8", "uint8", "int32"):
        try:
            return json.dumps(int(s)) if str(int(s)) == s else json.dumps(s)
        except ValueError:
            return json.dumps(s)
    if t == "boolean":
        return s if s in ("true", "false") else json.dumps(s)
    if t == "empty":
        return "[null]" if s == "" else json.dumps(s)
    return json.dumps(s, ensure_ascii=False)


def render_json(schema, forest):
    """members in sibling order; all instances of a (leaf-)list go into one array at the place of the first one; a second
    instance of a leaf / container becomes a second member with the same name"""
    def level(nodes, top):
        parts, done = [], set()
        for i, n in enumerate(nodes):
            name = json.dumps((schema.name + ":" if top else "") + n.sn.name)
            if n.sn.kind == "leaf":
                parts.append(name + ":" + json_scalar(n.sn, n.val))
            elif n.sn.kind == "container":
                parts.append(name + ":" + level(n.kids, False))
            elif n.sn.sid not in done:
                done.add(n.sn.sid)
                insts = [m for m in nodes[i:] if m.sn is n.sn]
                if n.sn.kind == "leaflist":
                    parts.append(name + ":[" + ",".join(json_scalar(m.sn, m.val) for m in insts) + "]")
                else:
                    parts.append(name + ":[" + ",".join(level(m.kids, False) for m in insts) + "]")
        return "{" + ",".join(parts) + "}"
    return level(forest, True).encode("utf-8")


# ----------------------------------------------------------------------------------------------------------------
# the same data definitions as rpc input / rpc output / notification content (C02: input/output placement, RFC 7950 sec. 7.7:
# only CONFIGURATION leaf-lists must be duplicate free)
# ----------------------------------------------------------------------------------------------------------------

def state_variant(s):
    """the schema with every node config false: what the constraints of its data definitions amount to inside an operation
    or a notification, where the config statement is ignored (RFC 7950 sec. 7.21.1)"""
    import copy
    s2 = copy.deepcopy(s)
    for n in s2.nodes:
        n.config = False
    return s2


def op_module(s):
    """module text: the data definitions of `s` kept, and repeated below rpc zzop input, rpc zzoq output and notification zzev;
    input and output each get a leaf of their own (placement)"""
    lines = s.yang().rstrip("\n").split("\n")
    head, body = lines[:4], ["    " + l for l in lines[4:-1]]
    out = head + lines[4:-1]
    out += ["  rpc zzop {", "    input {"] + body + ["      leaf zzin { type string; }", "    }", "    output { leaf zzo { type string; } }", "  }"]
    out += ["  rpc zzoq {", "    input { leaf zzi { type string; } }", "    output {"] + body + ["      leaf zzout { type string; }", "    }", "  }"]
    out += ["  notification zzev {"] + body + ["  }", "}"]
    return "\n".join(out) + "\n"


def op_docs(s, forest, extra=None):
    """[in.xml, in.json, out.xml, out.json, notif.xml, notif.json]; extra = name of one more (misplaced or proper) leaf"""
    ns = ("urn:verif:%s" % s.name).encode()
    xb, jb = render_xml(s, forest), render_json(s, forest).decode("utf-8")
    docs = []
    for wrap in ("zzop", "zzoq", "zzev"):
        xe = ("<%s>v</%s>" % (extra, extra)).encode() if extra and wrap != "zzev" else b""
        je = ('"%s":"v"' % extra) if extra and wrap != "zzev" else ""
        docs.append(b"<" + wrap.encode() + b' xmlns="' + ns + b'">' + xb + xe + b"</" + wrap.encode() + b">")
        j = jb[:-1] + ("," if len(jb) > 2 and je else "") + je + "}"
        docs.append(('{"%s:%s":%s}' % (s.name, wrap, j)).encode("utf-8"))
    return docs


def shuffle_doc(rng, forest):
    """document order for the parsers: any permutation of the siblings that keeps list keys first and the relative order of
    the instances of user-ordered / duplicate-instance nodes (tg.scramble)"""
    return tg.scramble(rng, forest)


# ----------------------------------------------------------------------------------------------------------------
# histories edit -> validate -> edit -> validate (C07)
# ----------------------------------------------------------------------------------------------------------------

def full_eq(a, b):
    if a.sn is not b.sn or a.val != b.val or len(a.kids) != len(b.kids):
        return False
    return all(full_eq(x, y) for x, y in zip(a.kids, b.kids))


def has_keyless_with_implicit(n):
    """a key-less list instance in the subtree below which validation will create implicit nodes"""
    def implicit_below(sn):
        return any((k.kind == "leaf" and k.dflt is not None) or (k.kind == "leaflist" and k.dflts) or k.np_cont() or
                   (k.kind in ("choice", "case") and implicit_below(k)) for k in sn.kids)
    if n.sn.kind == "list" and not n.sn.keys and implicit_below(n.sn):
        return True
    return any(has_keyless_with_implicit(k) for k in n.kids)


def addr_step(n):
    sn = n.sn
    if sn.kind == "list" and sn.keys:
        return "%d[%s]" % (sn.sid, ",".join(tg.hx(k.val) for k in n.kids[:len(sn.keys)]))
    if sn.kind == "leaflist":
        return "%d=%s" % (sn.sid, tg.hx(n.val))
    return "%d" % sn.sid


def join_addr(p, step):
    return step if p == "-" else p + "/" + step


class HistGen:
    """A history is a list of protocol step tokens: C:<addr>:<dump>  D:<addr>  V.  The python side only tracks the explicit
    content (what a client configured); every edit is the structural difference between the current explicit tree and a random
    valid edit of it (treegen), expressed with the two primitives so that untouched nodes keep their flags.

    Variations that matter for the flag logic: the data of a case that is being replaced is sometimes left for validation to
    auto-delete; content for a non-presence container that exists only as a default node is either added below it or given as a
    second, explicit instance of the container (validation removes the default one)."""

    def __init__(self, rng, schema, gen, max_tokens=52):
        self.rng, self.s, self.g, self.max_tokens = rng, schema, gen, max_tokens

    def history(self, nvalid, mutate_last=None):
        """-> (steps, explicit trees after every validation)"""
        E = []
        steps, trees = [], []
        self.feats = []          # per validation: features of the edit in front of it (for the finding predicates)
        for i in range(nvalid):
            self.cur = set()
            B = self.g.tree() if i == 0 else self.g.edit(E, rate=self.rng.choice([0.15, 0.3, 0.5]))
            ops = []
            self.ops_level("-", self.s.top, E, B, ops, validated=(i > 0))
            if len(steps) + len(ops) + 1 > self.max_tokens:
                break
            steps += ops + ["V"]
            self.feats.append(sorted(self.cur))
            E = B
            trees.append([n.clone() for n in B])
        return steps, trees

    # -- the primitives that take A to B at one sibling level ---------------------------------------------------------
    def C(self, paddr, n, out, validated):
        """create subtree n below paddr; a non-presence container whose default instance exists may be filled in place"""
        if n.sn.np_cont() and validated and n.sn.parent is not None and n.sn.parent.kind == "case":
            validated = False       # a container of a case exists only once the case has data: always give the whole subtree
        if n.sn.np_cont() and validated and self.rng.random() < 0.5:
            a = join_addr(paddr, addr_step(n))
            for k in n.kids:
                self.C(a, k, out, validated)
            return
        if n.sn.np_cont() and paddr != "-" or (n.sn.np_cont() and self.was_validated):
            self.cur.add("np-container-given-as-new-instance")
        if has_keyless_with_implicit(n):
            self.cur.add("implicit-below-keyless-list")
        out.append("C:%s:%s" % (paddr, tg.tok([n])))

    def old_case_sids(self, skids, A, B):
        """schema ids of the data of cases that A has and B replaces by another case of the same choice"""
        res = set()

        def go(kids):
            for k in kids:
                if k.kind == "choice":
                    ca = [c for c in k.kids if any(tg.TreeGen.under(x.sn, c) for x in A)]
                    cb = [c for c in k.kids if any(tg.TreeGen.under(x.sn, c) for x in B)]
                    if ca and cb and ca[0] is not cb[0] and self.rng.random() < 0.5:
                        res.update(x.sn.sid for x in A if tg.TreeGen.under(x.sn, ca[0]))
                    for c in k.kids:
                        go(c.kids)
        go(skids)
        return res

    def ops_level(self, paddr, skids, A, B, out, validated):
        self.was_validated = validated
        keep_for_autodel = self.old_case_sids(skids, A, B)
        sids = []
        for n in A + B:
            if n.sn.sid not in sids:
                sids.append(n.sn.sid)
        dels, adds = [], []
        for sid in sorted(sids):
            a = [n for n in A if n.sn.sid == sid]
            b = [n for n in B if n.sn.sid == sid]
            sn = (a or b)[0].sn
            if sn.dup_inst():
                if len(a) != len(b) or not all(full_eq(x, y) for x, y in zip(a, b)):
                    dels += ["D:" + join_addr(paddr, "%d#1" % sid)] * len(a)
                    for n in b:
                        self.C(paddr, n, adds, validated)
                continue
            if sn.kind == "leaf":
                if a and b and a[0].val == b[0].val:
                    continue
                if a and sid not in keep_for_autodel:
                    dels.append("D:" + join_addr(paddr, addr_step(a[0])))
                if b:
                    self.C(paddr, b[0], adds, validated)
                continue
            if sn.kind == "container":
                if a and b:
                    sub = []
                    self.ops_level(join_addr(paddr, addr_step(a[0])), sn.kids, a[0].kids, b[0].kids, sub, validated)
                    adds += sub
                elif a:
                    if sid not in keep_for_autodel:
                        dels.append("D:" + join_addr(paddr, addr_step(a[0])))
                else:
                    self.C(paddr, b[0], adds, validated)
                continue
            # keyed list / configuration leaf-list
            bk = {n.key(): n for n in b}
            ak = {n.key(): n for n in a}
            kept = [n for n in a if n.key() in bk]
            new = [n for n in b if n.key() not in ak]
            if sn.is_userord() and [n.key() for n in kept] + [n.key() for n in new] != [n.key() for n in b]:
                # the order of B cannot be reached by deleting and appending: re-create the whole list
                for n in a:
                    dels.append("D:" + join_addr(paddr, addr_step(n)))
                for n in b:
                    self.C(paddr, n, adds, validated)
                continue
            for n in a:
                if n.key() not in bk and sid not in keep_for_autodel:
                    dels.append("D:" + join_addr(paddr, addr_step(n)))
            if sn.kind == "list":
                nk = len(sn.keys)
                for n in kept:
                    sub = []
                    self.ops_level(join_addr(paddr, addr_step(n)), sn.kids[nk:], n.kids[nk:], bk[n.key()].kids[nk:], sub, validated)
                    adds += sub
            for n in new:
                self.C(paddr, n, adds, validated)
        # an empty non-presence container given explicitly (lyd_new_inner leaves it LYD_NEW | LYD_DEFAULT) next to, or in place of,
        # the default instance: content-wise nothing
        for sn in skids:
            if sn.kind == "container" and not sn.presence and not any(n.sn is sn for n in A + B) and self.rng.random() < 0.08:
                adds.append("C:%s:%s" % (paddr, tg.tok([DN(sn, None, [])])))
                self.cur.add("np-container-given-as-new-instance")
        out += dels + adds
