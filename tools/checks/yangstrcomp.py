"""Correspondence + laws for component `yangstr` (string side of the YANG schema printer and lexer): used by C10.

Requests go to harness/wb_yang.c (real `ypr_encode`, `ypr_text`, `yprp_stmt`, `read_qstring`, `get_argument`,
`get_keyword`, `parse_ext_substmt`) and to the Lean model (LyModel/YangStr); replies must be equal token for token.
The laws of C10 are then evaluated on the implementation's own replies."""
import itertools, os, re, sys
from vlib import gen, paths
from vlib.proto import hexs, unhex

HARNESS = "wb_yang"
COMP = "yangstr"

SINGLELINE, SINGLEQUOTED = 1, 2
LYS_SINGLEQUOTED, LYS_DOUBLEQUOTED = 0x100, 0x200


# ------------------------------------------------------------------------------------------ texts
# pieces that arguments of real modules are made of, dense in the lexer's and printer's case splits
TEXT_PIECES = [b"a", b"b c", b"word", b" ", b"  ", b"    ", b"\n", b"\n\n", b"\t", b"\"", b"'", b"''", b"\\", b"\\n", b"\\\\", b"//", b"/*", b"*/",
               b"+", b" + ", b";", b"{", b"}", b"\r", b"\r\n", b"\xc3\xa9", b"\xe2\x82\xac", b"\xf0\x90\x80\x80", b"\xf1\x80\x80\x80",
               b"x" * 72, b" \n", b"\n ", b"\n  ", b"\t\n", b"\n\t", b"'\n", b"\n'", b"it's", b"say \"hi\"", b"$", b"-", b"0"]
SMALL_ALPHA = [b"a", b" ", b"\n", b"\t", b"\"", b"'", b"\\", b"\r", b"+"]
NAMES = [b"description", b"default", b"units", b"e:d", b"error-message", b"md:annotation", b"e:x", b"reference", b"pattern"]
# ypr_text prints single-line statements only for YANG keywords (ypr_substmt, must, when, restrictions, if-feature); for those the
# lexer's column counter after the keyword is exact.  After an extension keyword it over-counts (lysp_match_kw backs out without
# undoing `*indent`), which matters for the indentation stripping of a multi-line string that starts on the keyword's line.
KEYWORD_NAMES = [n for n in NAMES if b":" not in n]


def gen_texts(cx):
    rng = cx.sub_rng("yangstr-texts")
    out = [b""]
    for n in (1, 2, 3):
        out += [b"".join(t) for t in itertools.product(SMALL_ALPHA, repeat=n)]
    out += [b"".join(t) for t in itertools.product([b"a", b" ", b"\n", b"'", b"\""], repeat=4)]
    if cx.tier == "thorough":
        out += [b"".join(t) for t in itertools.product(SMALL_ALPHA, repeat=4)]
        out += [b"".join(t) for t in itertools.product([b"a", b" ", b"\n", b"'", b"\t"], repeat=6)]
    for _ in range(cx.n(2500, 60000)):
        k = rng.randrange(1, 9)
        out.append(b"".join(rng.choice(TEXT_PIECES) for _ in range(k)))
    for _ in range(cx.n(300, 6000)):
        out.append(gen.valid_text(rng) if rng.random() < 0.8 else gen.any_text(rng))
    out = [t.replace(b"\x00", b"") for t in out]
    return list(dict.fromkeys(out))


# ------------------------------------------------------------------------------- lexer-directed inputs
QTOK = [b"\"", b"'", b"a", b"bc", b" ", b"  ", b"      ", b"\t", b"\n", b"\r\n", b"\r", b"\\n", b"\\t", b"\\\"", b"\\\\", b"\\x", b"\\", b"+",
        b" + ", b"//c\n", b"/*c*/", b"/*", b"/", b";", b"{", b"}", b"\xc3\xa9", b"\xff", b"\xf1\x80\x80\x80", b"\x01", b"\r\\n", b"\"\n +\n \"",
        b"' + '", b"\" + '", b"' + \""]
QSMALL = [b"\"", b"'", b"a", b" ", b"\t", b"\n", b"\r", b"\\", b"n", b"+", b"/", b"*", b";"]
INDENTS = [0, 1, 2, 3, 7, 8, 9, 16]


def gen_qstrings(cx):
    rng = cx.sub_rng("yangstr-q")
    out = []
    for q in (b"\"", b"'"):
        for n in (0, 1, 2, 3):
            for t in itertools.product(QSMALL, repeat=n):
                out.append((rng.choice(INDENTS) if n == 3 else 2, q + b"".join(t)))
    if cx.tier == "thorough":
        for t in itertools.product(QSMALL, repeat=4):
            out.append((rng.choice(INDENTS), b"\"" + b"".join(t)))
    for _ in range(cx.n(4000, 80000)):
        k = rng.randrange(0, 11)
        s = rng.choice([b"\"", b"\"", b"'"]) + b"".join(rng.choice(QTOK) for _ in range(k))
        if rng.random() < 0.7:
            s += rng.choice([b"\";", b"';", b"\" ;", b"\"\n{"])
        out.append((rng.choice(INDENTS), s))
    return out


ARGTOK = [b"a", b"a/b", b"a//b", b"a/*", b"/", b"//c\n", b"/*c*/", b"/*c", b" ", b"\t", b"\n", b"\r\n", b"\r", b";", b"{", b"}", b"\"x\"", b"'y'",
          b"\"", b"'", b"\xc3\xa9", b"\xff", b"\x01", b"+", b"\"a\" + \"b\"", b"\"a\"+'b'", b"x:y", b"1.5", b"*", b"\\"]


def gen_args(cx):
    rng = cx.sub_rng("yangstr-arg")
    out = []
    small = [b"a", b" ", b"\t", b"\n", b"\r", b"/", b"*", b";", b"{", b"}", b"\"", b"'"]
    for n in (0, 1, 2, 3):
        for t in itertools.product(small, repeat=n):
            out.append((n & 1, 0, b"".join(t)))
            if n == 2:
                out.append((1 - (n & 1), 3, b"".join(t)))
    for _ in range(cx.n(3000, 60000)):
        k = rng.randrange(0, 8)
        s = b"".join(rng.choice(ARGTOK) for _ in range(k))
        if rng.random() < 0.6:
            s += rng.choice([b";", b" ;", b"{", b"\n{", b" "])
        out.append((rng.randrange(2), rng.choice(INDENTS), s))
    return out


def keyword_list():
    sys.path.insert(0, os.path.join(paths.VERIF, "tools"))
    sys.path.insert(0, os.path.join(paths.VERIF, "tools", "extractors"))
    import minic, yangstr as ex_ys
    src = minic.strip_comments(open(os.path.join(paths.REPO, "src", "tree_schema_common.c")).read())
    res = []

    def walk(prefix, nodes):
        for n in nodes:
            if n[0] == "kw":
                res.append(prefix + n[1])
            else:
                walk(prefix + n[1], n[2])
    for c, nodes in ex_ys.keywords(src):
        walk(bytes([c]), nodes)
    return res


def gen_keywords(cx):
    rng = cx.sub_rng("yangstr-kw")
    kws = keyword_list()
    out = []
    seps = [b" ", b"\t", b"\n", b"\r\n", b"\r", b"{", b";", b"", b"\"", b":", b"x", b"-x", b":x ", b":x:y ", b":1 ", b"2:x ", b"}"]
    for k in kws:
        for s in seps:
            out.append((0, 0, k + s + b"arg;"))
        out.append((2, 0, k[:-1] + b" "))
        out.append((2, 0, k[:-1] + b":x "))
        out.append((0, 0, k[:max(1, len(k) // 2)] + b":y\n"))
    words = [b"a:b", b"if:foo", b"md:annotation", b"a:b:c", b"1a:b", b"a:1b", b"a", b":", b"a:", b":a", b";", b"{", b"}", b"/", b"//c\n", b"/*c*/", b"/*",
             b"_a:_b", b"a.b:c-d", b"\xc3\xa9:a", b"a:\xc3\xa9", b"\xff", b"A:B", b"type-x:y", b"input", b"output", b"inputs", b"input:x", b"",
             b"\x01"]
    pre = [b"", b" ", b"  ", b"\t", b"\n ", b"\r\n", b"\r", b"// c\n", b"/* c */ ", b" /*\n*/\t", b"/*"]
    post = [b" x;", b"\t", b"\n", b";", b"{", b"", b"\r\n", b"\"a\""]
    for w in words:
        for p in pre:
            out.append((rng.choice(INDENTS), 0, p + w + rng.choice(post)))
        for q in post:
            out.append((0, 0, w + q))
    for d in (0, 1, 499, 500, 501):
        out += [(0, d, b"{ a"), (0, d, b"} a"), (3, d, b" ; a")]
    for _ in range(cx.n(1500, 30000)):
        w = rng.choice(kws + words + words)
        if rng.random() < 0.3:
            w = w[:rng.randrange(0, len(w) + 1)] + rng.choice([b"", b"x", b"-", b":", b"1"]) + w[rng.randrange(0, len(w) + 1):]
        out.append((rng.choice(INDENTS), rng.choice([0, 0, 0, 3, 500]), rng.choice(pre) + w + rng.choice(post)))
    return out


# statement trees: (kw, arg | None, children); rendered with random layout and quoting
STMT_KWS = [b"description", b"type", b"leaf", b"container", b"input", b"md:annotation", b"a:b", b"if:x", b"e:ext", b"default", b"units", b"x:y.z-1"]
STMT_ARGS = [b"a", b"a b", b"", b"x:y", b"1..10 | 20", b"it's", b"say \"hi\"", b"back\\slash", b"tab\there", b"a\nb", b"a\n\nb", b"a\n  indented", b" lead",
             b"trail ", b"trail \nnext", b"a;b", b"a{b}c", b"// not comment", b"/* c */", b"x+y", b"both ' and \"", b"\xc3\xbc\xe2\x82\xac", b"a\\nb",
             b"long " * 20, b"a\n\tb", b"end\n", b"\nstart", b"'q'", b"a\rb", b"a\r\nb", b"[a-z]*", b"\\d+", b"../x = 'y z'", b"''", b"'"]


def dq_source(rng, s, col):
    """a double-quoted source form of s; literal newlines are re-indented to the column after the quote"""
    out = b""
    for ch in s:
        b = bytes([ch])
        if b == b"\n" and rng.random() < 0.6:
            out += b"\n" + b" " * (col + 1)
        elif b == b"\n":
            out += b"\\n"
        elif b == b"\t":
            out += b"\\t" if rng.random() < 0.7 else b"\t"
        elif b == b"\"":
            out += b"\\\""
        elif b == b"\\":
            out += b"\\\\"
        else:
            out += b
    return b"\"" + out + b"\""


def unquoted_ok(s):
    return s and not re.search(rb"[\s;{}\"']|//|/\*|\*/", s) and gen.is_yang_text(s)


def source_arg(rng, s, col):
    """one of the source spellings of argument s: unquoted, single-quoted, double-quoted, `+` concatenation"""
    r = rng.random()
    if unquoted_ok(s) and r < 0.35:
        return s
    if b"'" not in s and r < 0.55:
        return b"'" + s + b"'"
    if len(s) >= 2 and r < 0.7:
        k = rng.randrange(1, len(s))
        # never split inside a UTF-8 character
        while k < len(s) and (s[k] & 0xC0) == 0x80:
            k += 1
        a, b = s[:k], s[k:]
        qa = (b"'" + a + b"'") if b"'" not in a and rng.random() < 0.5 else dq_source(rng, a, col)
        qb = (b"'" + b + b"'") if b"'" not in b and rng.random() < 0.5 else dq_source(rng, b, col + 4)
        return qa + rng.choice([b" + ", b"+", b"\n    + ", b" +\n  ", b" + // c\n ", b" + /* c */ "]) + qb
    return dq_source(rng, s, col)


def gen_stmt_tree(rng, depth=0):
    kw = rng.choice(STMT_KWS)
    arg = None if rng.random() < 0.2 else rng.choice(STMT_ARGS)
    kids = []
    if depth < 3 and rng.random() < 0.45:
        kids = [gen_stmt_tree(rng, depth + 1) for _ in range(rng.randrange(1, 4))]
    return (kw, arg, kids)


def render_stmt(rng, t, level):
    kw, arg, kids = t
    ind = b"  " * level if rng.random() < 0.8 else rng.choice([b"", b"\t", b" "])
    out = ind + kw
    if arg is not None:
        if rng.random() < 0.25:
            out += b"\n" + ind + b"  "
            col = len(ind) + 2
        else:
            out += b" "
            col = len(ind) + len(kw) + 1
        out += source_arg(rng, arg, col)
    if kids:
        out += rng.choice([b" {\n", b"{", b"\n{\n", b" { // c\n"])
        for k in kids:
            out += render_stmt(rng, k, level + 1)
        out += ind + rng.choice([b"}\n", b"} ", b"}"])
    else:
        out += rng.choice([b";\n", b" ;\n", b"; ", b";"])
    return out


def gen_stmts(cx):
    rng = cx.sub_rng("yangstr-stmts")
    out = []
    for _ in range(cx.n(1500, 30000)):
        n = rng.randrange(1, 3)
        src = b"".join(render_stmt(rng, gen_stmt_tree(rng), 0) for _ in range(n))
        r = rng.random()
        if r < 0.12 and src:      # the malformed stream: drop or duplicate one structural byte
            k = rng.randrange(len(src))
            src = src[:k] + rng.choice([b"", b"}", b"{", b";", b"\"", b"'", b"/*", b"\xff"]) + src[k + 1:]
        out.append(src)
    out += [b"", b";", b"a", b"a:b", b"a:b;", b"a:b { }", b"a:b { ; }", b"a:b { ; ; }", b"a:b {{ ; }}", b"a:b x y;", b"a:b \"x\" \"y\";",
            b"a:b } ", b"input { a:b; }", b"input; output{}", b"description\r\n \"x\";", b"a:b \"x\"\n+\n\"y\" { c:d 'z'; }",
            # extension prefixes that start with (or are) a statement keyword, and keyword-like words without a colon (F105)
            b"type-x:y \"a\";", b"type-x:y;", b"leaf-listing:z { type-x:y 'q'; }", b"container1:e { }", b"input2:e;", b"must.x:e \"1\";",
            b"type_:e;", b"type-x y;", b"type-x;", b"typex { }", b"type:e;", b"leaf:e { leaf:e; }", b"type-:e;", b"type-x: e;", b"type-x:;",
            b"{" * 501, b"a:b " + b"{ a:b " * 499 + b";" + b"}" * 499, b"a:b " + b"{ a:b " * 500 + b";" + b"}" * 500]
    return [s.replace(b"\x00", b"") for s in out]


# ------------------------------------------------------------------------------- classification help
PLANE4 = re.compile(rb"\xf1[\x80-\x8f][\x80-\xbf][\x80-\xbf]")


def text_findings(s, singlequoted, singleline):
    """the listed defects a text argument `s` printed by ypr_text in this mode is an instance of
    (the exact conditions are the hypotheses of `yang_text_roundtrip_partial` negated)"""
    out = []
    if singlequoted:
        if b"\n" in s:
            out.append("F83")
    else:
        if b"\r" in s:
            out.append("F82")
        if b" \n" in s:
            out.append("F5")
        if singleline and b"\n " in s:
            out.append("F35")
    if PLANE4.search(s):
        out.append("F85")
    return out


def parse_ser(tok):
    """reply token of `stmts` -> list of (kw, arg|None, flags, children)"""
    pos = 0

    def stmts():
        nonlocal pos
        res = []
        while pos < len(tok) and tok[pos] == "S":
            pos += 1
            j = tok.index(":", pos); kw = unhex(tok[pos:j]); pos = j + 1
            j = tok.index(":", pos); a = tok[pos:j]; arg = None if a == "N" else unhex(a); pos = j + 1
            j = tok.index("{", pos); fl = int(tok[pos:j]); pos = j + 1
            kids = stmts()
            assert tok[pos] == "}"
            pos += 1
            res.append((kw, arg, fl, kids))
        return res
    if tok == "-":
        return []
    return stmts()


def tree_diff(a, b, path=()):
    """first difference of two statement lists: (path, what, original, got) or None"""
    if len(a) != len(b):
        return (path, "count", len(a), len(b))
    for i, (x, y) in enumerate(zip(a, b)):
        p = path + (i,)
        if x[0] != y[0]:
            return (p, "kw", x[0], y[0])
        if x[1] != y[1]:
            return (p, "arg", x, y)
        if x[2] != y[2]:
            return (p, "flags", x, y)
        d = tree_diff(x[3], y[3], p)
        if d:
            return d
    return None


# ------------------------------------------------------------------------------------------- run
def run_strings(cx):
    texts = gen_texts(cx)
    rng = cx.sub_rng("yangstr-run")
    cx.rule("yangstr: texts = all strings of length <= 3 over {a,SP,LF,TAB,\",',\\,CR,+} and length 4 over {a,SP,LF,',\"}, piece-pool strings "
            "(quotes, backslashes, tabs, blanks around newlines, comment starters, CR, multi-byte, plane-4, long lines) and boundary UTF-8; each printed by "
            "ypr_encode and ypr_text under flag/level/format combinations and lexed back; lexer inputs = exhaustive short token sequences after a quote + "
            "token-pool strings, unquoted arguments, every keyword with every separator and mutations, rendered statement trees with random layout "
            "and a malformed stream; non-trivial = distinct request")
    cases = []
    text_reqs = []   # (text, fmt, level, flags, name)
    # corpus first: the witness requests of the listed findings
    cfile = os.path.join(paths.CORPUS, "yangstr", "requests.txt")
    if os.path.exists(cfile):
        for l in open(cfile):
            t = l.split()
            if len(t) >= 3:
                cases.append(" ".join(t[1:]))
                if t[1] == "yprtext":
                    text_reqs.append((unhex(t[6]), int(t[2]), int(t[3]), int(t[4]), unhex(t[5])))
                elif t[1] == "encode":
                    texts.insert(0, unhex(t[2]))
    for t in texts:
        cases.append("encode " + hexs(t))
        combos = [(1, rng.choice([0, 1, 2, 3, 6]), f, rng.choice(KEYWORD_NAMES if f & SINGLELINE else NAMES)) for f in (0, 1, 2, 3)]
        if rng.random() < 0.3:
            f = rng.randrange(4)
            combos.append((0, rng.choice([0, 1, 5]), f, rng.choice(KEYWORD_NAMES if f & SINGLELINE else NAMES)))
        if rng.random() < 0.02:
            combos.append((1, rng.choice([500, 32767, 65534]), rng.choice([0, 2]), b"e:d"))
        for fmt, lvl, fl, name in combos:
            cases.append("yprtext %d %d %d %s %s" % (fmt, lvl, fl, hexs(name), hexs(t)))
            text_reqs.append((t, fmt, lvl, fl, name))
    for ind, s in gen_qstrings(cx):
        cases.append("qstring %d %s" % (ind, hexs(s)))
    for mb, ind, s in gen_args(cx):
        cases.append("getarg %d %d %s" % (mb, ind, hexs(s)))
    for ind, d, s in gen_keywords(cx):
        cases.append("getkw %d %d %s" % (ind, d, hexs(s)))
    stmt_srcs = gen_stmts(cx)
    for s in stmt_srcs:
        cases.append("stmts " + hexs(s))
        cases.append("prstmts %d %d %s" % (rng.randrange(2), rng.choice([0, 1, 3]), hexs(s)))
    cases = list(dict.fromkeys(cases))
    lines = ["%d %s %s" % (i, COMP, c) for i, c in enumerate(cases)]

    def kind(line, reply):
        op = line.split()[2]
        return "yangstr:%s:%s" % (op, reply[0] if reply[0] == "ok" else reply[1])

    ri, rm = cx.differential(COMP, lines, HARNESS, kind=kind)
    by_req = {" ".join(l.split()[2:]): ri.get(l.split()[0]) for l in lines}
    laws(cx, texts, text_reqs, stmt_srcs, by_req, cases)


def laws(cx, texts, text_reqs, stmt_srcs, by_req, cases):
    """(L) the laws of C10 evaluated on the implementation's replies (second batch of requests built from the first)."""
    reqs, meta = [], []

    def add(req, m):
        reqs.append("%d %s %s" % (len(reqs), COMP, req)); meta.append(m)

    # L1 encode round trip: `"` + ypr_encode(s) + `"` lexes back to s (column 4, as after `  x `)
    for t in texts:
        if not gen.is_yang_text(t):
            continue
        d = by_req.get("encode " + hexs(t))
        if d and d[0] == "ok":
            add("getarg 0 4 " + hexs(b"\"" + unhex(d[1]) + b"\";"), ("enc", t, unhex(d[1])))
    # L2 text round trip: what ypr_text printed, followed by `;`, lexes back to (name, s)
    for t, fmt, lvl, fl, name in text_reqs:
        if not gen.is_yang_text(t):
            continue
        d = by_req.get("yprtext %d %d %d %s %s" % (fmt, lvl, fl, hexs(name), hexs(t)))
        if d and d[0] == "ok":
            add("stmts " + hexs(unhex(d[1]) + b";\n"), ("text", t, fmt, lvl, fl, name, unhex(d[1])))
    # L3 statement trees: stmts(yprp_stmt(stmts(x))) = stmts(x)
    pr = [(c, by_req.get(c)) for c in cases if c.startswith("prstmts ")]
    kws = set(keyword_list())
    for c, d in pr:
        src_hex = c.split()[3]
        o = by_req.get("stmts " + src_hex)
        if not d or d[0] != "ok" or not o or o[0] != "ok" or o[2] != "Eof" or o[1] == "-":
            continue
        # domain of the law (hypothesis of `stmt_tree_roundtrip`): a YANG keyword without argument is `input` or `output` — the parser of
        # extension-instance substatements accepts `leaf ;`, yprp_stmt prints `leaf;`, and get_keyword wants a separator after `leaf`
        if any(arg is None and kw in kws and kw not in (b"input", b"output") for kw, arg, fl, kids in flatten(parse_ser(o[1]))):
            cx.count(("L3-outside", src_hex), False, "yangstr:law:stmt-tree-outside-domain")
            continue
        add("stmts " + d[1], ("tree", unhex(src_hex), o[1], c))
    if not reqs:
        return
    rr = cx.run_impl(HARNESS, reqs, component=COMP)
    for i, m in enumerate(meta):
        r = rr.get(str(i), ["err", "NoReply"])
        if m[0] == "enc":
            _, t, printed = m
            cx.count(("L1", t), True, "yangstr:law:encode-roundtrip")
            ok = r[0] == "ok" and r[1] != "N" and unhex(r[1]) == t and int(r[2]) == LYS_DOUBLEQUOTED
            if not ok:
                cx.fail(COMP, "ypr_encode output does not lex back to the string",
                        {"law": "encode", "text_hex": hexs(t), "printed_hex": hexs(printed), "reply": r, "singlequoted": False, "singleline": True,
                         "cont_blank_matters": False})
        elif m[0] == "text":
            _, t, fmt, lvl, fl, name, printed = m
            cx.count(("L2", t, fmt, lvl, fl, name), True, "yangstr:law:text-roundtrip")
            sq = bool(fl & SINGLEQUOTED)
            single = bool(fl & SINGLELINE) and not (sq and b"'" in t)
            ok = False
            if r[0] == "ok" and r[2] == "Eof":
                tr = parse_ser(r[1])
                ok = len(tr) == 1 and tr[0][0] == name and tr[0][1] == t and tr[0][3] == [] and \
                    (tr[0][2] & (LYS_SINGLEQUOTED | LYS_DOUBLEQUOTED)) == (LYS_SINGLEQUOTED if sq else LYS_DOUBLEQUOTED)
            if not ok:
                cx.fail(COMP, "ypr_text output does not lex back to the text",
                        {"law": "text", "text_hex": hexs(t), "fmt": fmt, "level": lvl, "flags": fl, "name_hex": hexs(name), "printed_hex": hexs(printed),
                         "reply": r[:3], "singlequoted": sq, "singleline": single})
        else:
            _, src, orig, c = m
            cx.count(("L3", src, c), True, "yangstr:law:stmt-tree-roundtrip")
            a = parse_ser(orig)
            ok = r[0] == "ok" and r[2] == "Eof"
            d = None
            if ok:
                d = tree_diff(a, parse_ser(r[1]))
                ok = d is None
            if not ok:
                case = {"law": "tree", "source_hex": hexs(src), "request": c, "reply": [x[:200] for x in r[:3]]}
                if d and d[1] == "arg" and d[2][1] is not None:
                    # yprp_stmt prints quoted arguments in block style (never single-line)
                    case.update({"text_hex": hexs(d[2][1]), "singlequoted": bool(d[2][2] & LYS_SINGLEQUOTED), "singleline": False,
                                 "got_hex": hexs(d[3][1]) if d[3][1] is not None else None})
                elif r[0] == "err" or (r[0] == "ok" and r[2] != "Eof"):
                    # the printed tree does not lex: look for the argument that explains it (a rejected character: a CR in double quotes)
                    cands = [(arg, fl) for kw, arg, fl, kids in flatten(a)
                             if arg is not None and fl and text_findings(arg, bool(fl & LYS_SINGLEQUOTED), False)]
                    if "InChar" in r:
                        cands = [(arg, fl) for arg, fl in cands if "F82" in text_findings(arg, bool(fl & LYS_SINGLEQUOTED), False)] or cands
                    for arg, fl in cands[:1]:
                        case.update({"text_hex": hexs(arg), "singlequoted": bool(fl & LYS_SINGLEQUOTED), "singleline": False})
                cx.fail(COMP, "yprp_stmt output does not lex back to the statement tree", case)


def flatten(tr):
    for s in tr:
        yield s
        yield from flatten(s[3])


def classify(component, what, case):
    """string-level failures: the listed finding this failing text is an instance of (first applicable), else None"""
    if component != COMP or "text_hex" not in case:
        return None
    t = unhex(case["text_hex"])
    f = text_findings(t, case.get("singlequoted", False), case.get("singleline", False))
    if "F85" in f and "InChar" in [str(x) for x in case.get("reply", [])] and "F82" not in f:
        return "F85"        # the lexer rejects a plane-4 character
    f = [x for x in f if x != "F85"] or f
    if "F82" in f and "InChar" in [str(x) for x in case.get("reply", [])]:
        return "F82"        # the lexer rejects the CR
    return f[0] if f else None
