"""C03 — typed values: acceptance, canonical form, equality and ordering follow RFC 7950."""
import re
from checks import valcomp
from vlib.proto import unhex

LEAN_TARGETS = ["LyModel.Props.C03", "LyModel.Props.C03Base", "LyModel.Props.C03Union", "LyModel.Props.C03Ident", "LyModel.Props.C03Pattern", "LyModel.Props.C03Dt", "LyModel.Props.C03Hex", "LyModel.Props.C03InstId", "LyModel.Props.C03Bin", "LyModel.Props.C03Inet"]
AUDIT = ["Audit/C03.lean", "Audit/C03Fn.lean"]
GENERATED = ["ValBounds", "Consts", "ValExt", "ValHex", "ValBin", "ValInst", "ValInet"]
LEAN_TARGETS += ["LyModel.Props.C03Fn"]; GENERATED += ["FnUtf8"]     # functions translated from the C source (tools/c2lean.py), bridged in lean/LyModel/Bridge
ASSUMPTIONS = [
    "libc is modelled, not verified: strtoll/strtoull of glibc 2.36 in the C locale (leading isspace, one optional sign, 0x/0 prefixes for base 0/16, "
    "ERANGE above 2^63-1 / 2^63 / 2^64-1; no C23 0b prefix), isspace/isdigit of the C locale, printf %d / %0*d",
    "little-endian host (htole64 = id), 64-bit size_t",
    "value strings contain no NUL byte (they are C strings on every text route); whitespace around numbers is accepted as libyang documents",
    "the theorems are about the executable model lean/LyModel/Val/Model.lean; model = code is checked by correspondence on every run",
    "derived-type plug-ins of ietf-inet-types and of ietf-yang-types other than date-and-time and the hex-string family (hex-string, mac-address, phys-address, uuid), "
    "leafref, xpath1.0: laws on the implementation only; instance-identifier: data nodes with string-typed keys / leaf-lists, require-instance false; "
    "binary: the LY_VALUE_CANON store path is not reachable through the harness",
    "ietf-inet-types address / prefix plug-ins: Inet.pton4/pton6/ntop4/ntop6 are inet_pton / inet_ntop of glibc 2.36 for AF_INET / AF_INET6, isalnum is the one of the "
    "C locale; modelled, not verified; the unions ip-address / ip-prefix / ip-address-no-zone: laws on the implementation only",
    "date-and-time: TZ=UTC (the harness sets it); the typedef pattern and the Unicode 14 Nd table are constants of the model",
    "union members are the modelled types (integers, decimal64, boolean, enumeration, bits, string with length and patterns); identityref over generated module "
    "sets whose module names are distinct from every other module of the context; all identities enabled (no if-feature), all modules implemented",
    "string patterns: the matcher of the model is the XSD matcher of C18 (XsdRe); the generated patterns stay inside the sub-grammar on which libyang's PCRE2 "
    "translation is correct (the deviations are findings of C18)",
]
TRUSTED = ["tools/extractors/val.py (bounds, LYB sizes, executed lyplg_type_check_hints table)",
           "tools/extractors/valx.py (shape of the union / identityref / string-pattern / date-and-time functions, repair switches)",
           "tools/extractors/valhex.py (typedef patterns of the hex-string family, shape of the plug-in)",
           "tools/extractors/valbin.py (base64 tables, shape of plugins_types/binary.c)",
           "tools/extractors/valinet.py (typedef patterns of the six ietf-inet-types address / prefix types, shape of the store functions)",
           "tools/extractors/valinst.py (shape of the instance-identifier store / print functions, quote characters, repair switches)",
           "tools/checks/valinst.py + the schema serialisation check of harness/api_types.c (instance-identifier schemas)", "harness/api_types.c"]


def classify(component, what, case):
    if component != "val" or not isinstance(case, dict):
        return None
    from checks import valdt, valbin
    for hook in (getattr(valdt, "classify_dt", None), getattr(valbin, "classify_bin", None)):
        if hook:
            r = hook(component, what, case)
            if r:
                return r
    law = case.get("law")
    ty = case.get("type", "")
    head = ty.split(":")[0]
    val = unhex(case["value_hex"]) if case.get("value_hex") else b""
    # F2: decimal64 accepted although no digit follows the optional sign (RFC oracle rejects, implementation accepts)
    if law == "dec64_accept_iff" and case.get("rfc_canonical") is None and case.get("got", ["err"])[0] == "ok" \
            and re.fullmatch(rb"[ \t\n\r\x0b\x0c]*[+-](\.[0-9]+)?[ \t\n\r\x0b\x0c]*", val, re.S):
        return "F2"
    if law == "string_accept_iff" and case.get("rfc_canonical") is None and case.get("got", ["err"])[0] == "ok" \
            and (b"\xef\xbf\xbe" in val or b"\xef\xbf\xbf" in val):
        return "F22"
    # F22: U+FFFE / U+FFFF accepted through the value API, rejected by the XML / JSON / YANG lexers
    if law == "route_is_store" and head == "str" and (b"\xef\xbf\xbe" in val or b"\xef\xbf\xbf" in val) \
            and case.get("route") in ("xml", "json-string", "default") and case.get("got") == "R":
        return "F22"
    if law == "same_verdict_all_sources" and head == "str" and (b"\xef\xbf\xbe" in val or b"\xef\xbf\xbf" in val) and case.get("got") == "R":
        return "F22"
    # F11 (component text): overlong 4-byte UTF-8 (F0 80..8F ..) accepted by the XML / JSON lexers, rejected by the value API
    if law == "route_is_store" and head == "str" and re.search(rb"\xf0[\x80-\x8f][\x80-\xbf][\x80-\xbf]", val) \
            and case.get("route") in ("xml", "json-string") and case.get("got") != "R" and case.get("store_under_route_hints") == "R":
        return "F11"
    if case.get("law") == "dt_day" and case.get("oracle") and not case.get("day_exists"):
        return "F107"       # a day that does not exist in the month is normalised by timegm() (pinned by the existing suite)
    # F28: date-and-time sort callback compares instants only
    if ty == "t:ietf-yang-types:date-and-time" and law in ("sort_consistent_with_eq", "leaflist_order") and case.get("reply", [None] * 3)[2] == "0":
        return "F28"
    # F421: instance-identifier with a variable reference as key value ends in LY_EINT
    if law == "inst_no_internal_error" and b"$" in val:
        return "F421"
    # F422: instance-identifier values that differ only in the order of the key predicates are unequal (string compare of the written order)
    if law == "inst_same_instance_equal" and case.get("reply", ["", ""])[:2] == ["ok", "0"] and case["reply"][3] == "0":
        a, b = unhex(case["a_hex"]), unhex(case["b_hex"])
        if a != b and len(a) == len(b) and sorted(re.findall(rb"\[[^\]]*\]", a)) == sorted(re.findall(rb"\[[^\]]*\]", b)) \
                and re.sub(rb"\[[^\]]*\]", b"", a) == re.sub(rb"\[[^\]]*\]", b"", b):
            return "F422"
    # F423: hex-string family: strndup() truncates a (pointer, length) value at an embedded NUL, the rest is ignored
    if law == "hex_nul_refused" and b"\x00" in val and case.get("got", ["err"])[0] == "ok" and ty.startswith("t:ietf-yang-types:") \
            and unhex(case["got"][1]) == val.split(b"\x00")[0].lower():
        return "F423"
    # F425: the -no-zone inet plug-ins hand a strndup() copy to inet_pton and check nothing else: an embedded NUL truncates the value
    if law == "inet_nul_refused" and b"\x00" in val and "-no-zone" in ty and case.get("got", ["err"])[0] == "ok":
        return "F425"
    # F426: a zone with non-ASCII letters / digits passes the typedef pattern ([\p{N}\p{L}]+) but the LYB store only takes isalnum bytes
    if law == "inet_lyb_zone" and b"%" in val and any(c >= 0x80 for c in val.split(b"%", 1)[1]) and "LybZone" in " ".join(case.get("got", [])):
        return "F426"
    # F424: union with two leafref members: the sort callback finds neither value (realtype = the target's type) and returns 0
    if ty.startswith("U(") and ty.count("lref(") >= 2 and law in ("sort_consistent_with_eq", "leaflist_order", "sort_total_order"):
        from checks import valunion
        ms = valunion.flatten(ty)

        def two_lrefs(x, y):
            mx, my = valunion.MEMBER_OF.get((ty, x)), valunion.MEMBER_OF.get((ty, y))
            return mx is not None and my is not None and mx != my and ms[mx].startswith("lref(") and ms[my].startswith("lref(")
        if law != "sort_total_order" and case.get("reply", [None] * 4)[1:3] == ["0", "0"] and two_lrefs(case.get("a_hex"), case.get("b_hex")):
            return "F424"
        if law == "sort_total_order" and case.get("c_hex") and (two_lrefs(case["a_hex"], case["b_hex"]) or two_lrefs(case["b_hex"], case["c_hex"])):
            return "F424"
    # F410: identityref accepts an identity derived from some but not all of the bases
    if law == "identityref_accept_iff" and case.get("rfc") is None and case.get("got", ["err"])[0] == "ok" and len(case.get("bases", [])) > 1 \
            and any(case.get("derived_from_base", [])) and not all(case.get("derived_from_base", [])):
        return "F410"
    # F411: identityref sort callback looks at the identity name only: same name, different module
    if (ty.startswith("idref:") or (ty.startswith("U(") and "idref:" in ty)) and law in ("sort_consistent_with_eq", "leaflist_order") \
            and case.get("reply", [None] * 3)[1:4] == ["0", "0", "0"] and b":" in unhex(case["a_hex"]) and b":" in unhex(case["b_hex"]):
        a, b = unhex(case["a_hex"]), unhex(case["b_hex"])
        if a.split(b":")[-1] == b.split(b":")[-1] and a != b:
            return "F411"
    # F412: union values of different member types with the same canonical string (sort != 0: different members)
    if ty.startswith("U(") and law in ("eq_iff_canon_eq", "canon_idempotent"):
        from checks import valunion
        a, b = (case.get("a_hex"), case.get("b_hex")) if law == "eq_iff_canon_eq" else (case.get("value_hex"), case.get("canonical_hex"))
        ma, mb = valunion.MEMBER_OF.get((ty, a)), valunion.MEMBER_OF.get((ty, b))
        r = case.get("reply") if law == "eq_iff_canon_eq" else case.get("cmp")
        if ma is not None and mb is not None and ma != mb and r and r[0] == "ok" and r[1] == "0" and r[3] == "1":
            return "F412"
    # F63: a JSON string carrying a 64-bit integer is parsed in base 0 (0x.., leading 0 = octal), the other sources in base 10
    if law in ("same_verdict_all_sources", "hints_base") and head in ("i64", "u64") and case.get("route") == "json-string" \
            and re.match(rb"^[ \t\n\r\x0b\x0c]*[-+]?0[0-9xX]", val):
        return "F63"
    # F51: lyplg_type_parse_dec64 reads value[len + 1] beyond value_len: "1." is accepted when a digit follows the value
    if head.startswith("d") and val.endswith(b".") and re.fullmatch(rb"[ \t\n\r\x0b\x0c]*[+-]?[0-9]*\.", val, re.S):
        if law == "value_len" and case.get("got") != case.get("alone") and \
                re.match(rb"[0-9]", unhex(case.get("buffer_hex", "-"))[case.get("value_len", 0):]):
            return "F51"
    if case.get("crash") and " validate_n d" in (case.get("line") or "") and "lyplg_type_parse_dec64" in case.get("stderr", ""):
        return "F51"
    # F64: LYB bits value with a bit at an undefined position -> out-of-bounds item pointer
    if case.get("crash") and " unlyb bits:" in (case.get("line") or "") and "bits.c" in case.get("stderr", ""):
        return "F64"
    return None


def run(cx):
    from checks import fncomp; fncomp.run_fn(cx, ['utf8'])
    valcomp.run_val(cx)
