"""C01 — print -> parse identity (XML, JSON, LYB)."""
from checks import textcomp, rtcomp, rtxcomp, lybcomp, lybtree

LEAN_TARGETS = ["LyModel.Props.C01", "LyModel.Props.C01Lyb", "LyModel.Props.C01LybTree"]
AUDIT = ["Audit/C01.lean", "Audit/C01Fn.lean"]
GENERATED = ["XmlEsc", "JsonEsc", "Consts", "LybConsts", "LybTree"]
LEAN_TARGETS += ["LyModel.Props.C05Fn", "LyModel.Props.C01FnLyb", "LyModel.Props.C01FnPrint"]; GENERATED += ["FnUtf8", "FnLyb", "FnPrint"]     # functions translated from the C source (tools/c2lean.py), bridged in lean/LyModel/Bridge
ASSUMPTIONS = ["theorems cover the value-text layer (escaping/lexing of every string), the LYB byte layer and the LYB tree walk (lyb_tree_roundtrip); the XML / JSON "
               "tree walk of libyang's own PARSERS and with-defaults filtering are exercised as laws on the implementation over generated schemas and trees (api_rt), see DESIGN.md §5 C01"]
TRUSTED = ["Python renderers in tools/checks/rtcomp.py as the independent XML / RFC 7951 JSON encoder"]


def classify(component, what, case):
    if component == "rt":
        return rtcomp.classify(component, what, case)
    if component == "rtx":
        return rtxcomp.classify(component, what, case)
    if component == "lybtree":
        return lybtree.classify(component, what, case)
    return lybcomp.classify(component, what, case)


def run(cx):
    from checks import fncomp; fncomp.run_fn(cx, ['utf8', 'lyb', 'print'])
    textcomp.run_text(cx, want=("xml", "json"), law=("roundtrip",))
    rtcomp.run_rt(cx, laws=("roundtrip",))
    rtxcomp.run_rtx(cx, laws=("roundtrip",))
    lybcomp.run_lyb(cx)
    lybtree.run_lybtree(cx)
