"""C01 — print -> parse identity (XML, JSON, LYB)."""
from checks import textcomp

LEAN_TARGETS = ["LyModel.Props.C01"]
AUDIT = "Audit/C01.lean"
ASSUMPTIONS = ["see DESIGN.md §5 C01"]


def classify(component, what, case):
    return textcomp_classify(component, what, case)


def textcomp_classify(component, what, case):
    return None


def run(cx):
    textcomp.run_text(cx, want=("xml", "json"), law=("roundtrip",))
