"""C02 — validation accepts exactly the instances that satisfy the schema (src/validation.c, tree_data_new.c).

(K) correspondence, harness `api_val` vs model `LyModel.Valid` (op `val`): the instance is built through lyd_new_* (every
      node new) in the given sibling order and validated with lyd_validate_module / lyd_validate_all(PRESENT) under the options
      present / no-state / multi-error / operational; compared token for token: the verdict; on success the whole validated tree
      (implicit nodes, default flags); on failure every logged error — kind (closed enum of LY_VCODE_*), error-app-tag and error
      path — in order (all of them under multi-error).
(S) the RFC 7950 specification `Valid` (model op `spec`, LyModel/Valid/Spec.lean) names the violated constraint families.
(L) laws evaluated on the implementation:
      iff       libyang accepts  <=>  the specification is satisfied (both directions, every non-operational option set)
      tag       a rejection names a constraint family the instance really violates and carries its RFC 7950 error-app-tag
      mutation  an instance mutated in exactly one named way is rejected for that reason; a valid-by-construction one is accepted
      order     any sibling order of the input gives the same reply (verdict, error, resulting tree)
      multi-set under LYD_VALIDATE_MULTI_ERROR the set of reported error families equals the set of violated families whenever no
                choice has data of two cases (theorem multi_error_set_exact; with two cases only the first is validated)
      routes    built + validated, parsed with validation from XML and from JSON, parsed then validated separately: same
                verdict, same first error (kind, app-tag), same resulting tree; also with the document's siblings shuffled
      compiler-guarantee  the schema hypotheses of the theorems (`FullSane`: nothing mandatory directly in a default case nor below
                non-presence containers there, no default next to mandatory / min-elements, config false inherited, min <= max, distinct
                names of cases and of sibling data nodes) are what lys_compile refuses: one tiny module per point
                (validgen.compiler_guarantee_schemas) must be refused, the positive controls must compile
      ops       the same data definitions as rpc input / reply output / notification content (lyd_parse_op + lyd_validate_op, XML and
                JSON): accepted  <=>  the specification holds on the all-state variant of the schema.  The variant is computed by the
                model (`Valid.stateVariant`, LyModel/Valid/Ops.lean; theorems `ops_relaxes`, `ops_exact_difference`, `stateVariant_*`,
                `validate_iff_valid_ops`, `ops_noState` of Props/C02) from the original schema; the generator's own transformation
                (validgen.state_variant) is compared with it per schema.  The model of lyd_validate_op (`Valid.opsValidate`) follows
                three facts read from the C source by tools/extractors/ops.py (Generated/OpsFacts.lean: config ignored inside
                operations, leaf-lists without LYS_CONFIG_W may repeat, lyd_validate_new on the output siblings of a reply) and is
                compared per route; theorem `opsValidate_current` (model = validate on the variant) builds only while the facts hold.
Generators: random S1x schemas (validgen), instances valid by construction, one named mutation each; directed families
(validgen.FAMILIES), one small template per construct of the full schema language the theorems validate_ok_iff_valid /
validate_error_tag speak about: nested choice with a default case in a non-presence container in a list entry, mandatory choice in a
case, default case holding a nested choice with leaf / leaf-list defaults, chains of non-presence containers above a mandatory leaf /
min-elements / mandatory choice (below a presence container, a list entry, a case), min/max-elements of lists and leaf-lists in a
case, `unique` with targets in non-presence / presence containers and in cases, with defaults (instances with exactly 2 entries: the
direct comparison of lyd_validate_unique; 3 and more: its hash tables; equal, different and incomplete tuples), and plain schemas (the
class of the first theorem).  Mutants that emptied a non-presence container also run without that container.  Every run prints (and
records in the evidence `rule`) how many schemas contain each construct and how many cases fall into the class of each theorem.
"""
import collections, json, os
from vlib import treegen as tg, paths
from checks import validgen as vg
from checks import validcomp as vc
from checks.validcomp import COMP, NO_STATE, PRESENT, MULTI, OPER

LEAN_TARGETS = ["LyModel.Props.C02", "LyModel.Props.C02Full", "LyModel.Props.C02Xpath"]
AUDIT = "Audit/C02.lean"
GENERATED = ["ValidConsts", "OpsFacts"]
HARNESS = "api_val"
ASSUMPTIONS = [
    "schemas from family S1x (S1 of the tree base + unique, nested choices, mandatory in cases) and the directed families of validgen.FAMILIES "
    "(same schema language); one module; no must/when/leafref",
    "instances are built through the public API or parsed from XML/JSON: sibling lists in libyang's order, instances of a schema node contiguous",
    "values are given in canonical form (the mutation `bad-value` uses values outside the lexical AND value space)",
    "the specification is stated for the non-operational option sets; under LYD_VALIDATE_OPERATIONAL only the correspondence is checked",
    "operation content: validated with no option (lyd_validate_op has none; LYD_VALIDATE_NO_STATE excluded, see theorem ops_noState); one rpc "
    "per direction and one notification at the top level of the module, no action / nested notification; the effective ordering of lists "
    "inside operations (output / notification: always user-ordered) is not part of the specification and not compared",
]
TRUSTED = ["tools/extractors/ops.py (reads the three facts about operations from tree_schema.h, schema_compile_node.c, validation.c)",
           "tools/checks/validgen.py (schema/instance generator, mutations, XML/JSON encoders)", "tools/vlib/treegen.py", "harness/treeproto.h (tree loader and canonical dump)"]

APPTAG = {"NoMandChoice": "missing-choice", "NoMin": "too-few-elements", "NoMax": "too-many-elements", "NoUniq": "data-not-unique",
          "NoMust": "must-violation", "NoReqInst": "instance-required"}
V_OPTS = [0, PRESENT, NO_STATE, MULTI, OPER, NO_STATE | MULTI, NO_STATE | PRESENT, OPER | MULTI]


class Case:
    __slots__ = ("s", "t", "kind", "info", "sh", "doc_sh", "base", "k")

    def __init__(self, s, t, kind, info, rng):
        self.s, self.t, self.kind, self.info = s, t, kind, info
        self.sh = tg.scramble(rng, t)          # another creation order for the API route
        self.doc_sh = vg.shuffle_doc(rng, t)   # another document order for the parsers
        self.base = (info or {}).get("opts", 0)


def _case_path(sn):
    """the (choice, case) pairs around a data node, up to its data parent"""
    out, p = [], sn.parent
    while p is not None and p.kind in ("case", "choice"):
        if p.kind == "case":
            out.append((p.parent, p))
        p = p.parent
    return out


def _empty_np(n):
    return n.sn.kind == "container" and not n.sn.presence and all(_empty_np(k) for k in n.kids)


def _empty_np_next_to_other_case(forest):
    """some sibling list holds a non-presence container without explicit descendants and a node of ANOTHER case of one of its choices"""
    for n in forest:
        if _empty_np(n):
            mine = dict((id(ch), ca) for ch, ca in _case_path(n.sn))
            for m in forest:
                if m is not n and any(id(ch) in mine and mine[id(ch)] is not ca for ch, ca in _case_path(m.sn)):
                    return True
    return any(_empty_np_next_to_other_case(n.kids) for n in forest if n.kids)


def features(s, t=None):
    """schema (and, with `t`, instance) features the finding predicates look at"""
    f = set()
    if t is not None and not isinstance(s, vc.ReplaySchema) and _empty_np_next_to_other_case(t):
        f.add("empty-np-container-next-to-other-case")
    for n in s.nodes:
        for u in getattr(n, "uniques", []):
            for leaf in u:
                if leaf.dflt is None:
                    continue
                p = leaf.parent
                while p is not n:
                    if p.kind == "case" or (p.kind == "container" and p.presence):
                        f.add("unique-default-below-case-or-presence")
                    p = p.parent
        if n.kind == "leaflist" and n.max > 0 and len(n.dflts) > n.max:
            f.add("leaflist-more-defaults-than-max")
    return sorted(f)


def f320_fixed():
    """read off the C source: does the schema compiler compare the number of leaf-list defaults with max-elements (fixes/F320.diff)?"""
    try:
        return "number of default values" in open(os.path.join(paths.REPO, "src", "schema_compile_node.c")).read()
    except OSError:
        return False


def classify(component, what, case):
    law, feat = case.get("law"), set(case.get("features", []))
    if law in ("iff-rejected", "tag") and case.get("impl_kind") == "NoUniq" and "unique-default-below-case-or-presence" in feat:
        return "F175"
    if law == "route-path" and case.get("route") in ("xml", "json") and case.get("unlinked"):
        return "F176"
    if law in ("iff-rejected", "tag") and case.get("impl_kind") == "NoMax" and "leaflist-more-defaults-than-max" in feat:
        return "F320"
    if law in ("iff-rejected", "tag") and case.get("impl_kind") == "DupCase" and "empty-np-container-next-to-other-case" in feat:
        return "F321"
    if law == "f322":
        return "F322"
    return None


def run(cx, nsch=None, nnest=None, nfam=None):
    cx.rule("val: random S1x schemas; instances valid by construction (treegen + unique repair) under the option sets "
            "0/present/no-state/multi-error/operational and combinations, in canonical and in scrambled creation order; each instance "
            "also mutated in every applicable single way (%s) and validated plain, multi-error, operational; non-trivial = distinct "
            "(schema, instance, options)" % ", ".join(vg.MUTATIONS))
    rng = cx.sub_rng("schemas")
    nsch = cx.n(90, 500) if nsch is None else nsch
    per = cx.n(5, 20)
    schemas, cases = [], load_corpus(cx)
    witness_f320(cx, cases)
    compiler_guarantee(cx)
    witness_f322(cx)
    # F321 witness (an empty non-presence container of one case next to data of another case), one more case on every run: the
    # unrepaired lyd_validate_cases rejects it (DupCase) and so does the model (Quirks.casesCountDefault read off the source), the
    # specification is satisfied -> law iff fails, classify() names F321; repaired: both accept, the container is removed
    s321, t321 = vg.witness_f321()
    s321._origin = "witness-F321"
    cases.append(Case(s321, t321, None, None, cx.sub_rng("f321")))
    nnest = cx.n(30, 150) if nnest is None else nnest
    # directed families (validgen.FAMILIES): `nfam` schemas of each, one template per construct of the full schema language
    fams = [f for f in vg.FAMILIES if f[0] not in vg.DISABLED_FAMILIES]
    nfam = cx.n(3, 14) if nfam is None else nfam
    origin = {}
    for i in range(nsch + nnest + nfam * len(fams)):
        # after the random ones, `nnest` schemas: nested choices next to constrained siblings of the outer case (directed family)
        if i < nsch:
            s = vg.gen_schema_x(rng, i, max_depth=rng.choice([2, 3, 3]))
        elif i < nsch + nnest:
            s = vg.gen_schema_nested(rng, i)
        else:
            s = fams[(i - nsch - nnest) % len(fams)][1](rng, i)
        fam = getattr(s, "family", None)
        origin[id(s)] = s._origin = "random" if i < nsch else "nested" if fam is None else fam
        schemas.append(s)
        r = cx.sub_rng("inst%d" % i)
        # mostly small sibling lists; every eighth schema gets wide ones (sibling count far above the schema depth)
        g = vg.XTreeGen(r, s, density=r.choice([0.4, 0.6, 0.8]), max_inst=(14 if i % 8 == 5 else r.choice([3, 4])))
        mu = vg.Mutator(r, s, g)
        for _ in range(per):
            t = g.tree()
            cases.append(Case(s, t, None, None, r))
            for k in vg.MUTATIONS:
                m = mu.mutate(t, k)
                if m is not None:
                    cases.append(Case(s, m[0], k, m[1], r))
                    # the same mutant without the non-presence containers the mutation emptied: the violated constraint is then
                    # reached through validation's implicit containers only
                    pr = vg.prune_np(m[0]) if k in PRUNED else None
                    if pr is not None:
                        cases.append(Case(s, pr, k, dict(m[1], pruned=True), r))
        if fam == "unique-paths":
            for t, info in vg.directed_unique(r, s, g, ns=cx.n((2, 2, 3, 3, 5), (2, 2, 2, 3, 3, 3, 3, 4, 5, 6, 8))):
                cases.append(Case(s, t, "directed", dict(info, family=fam), r))
    distribution(cx, schemas, origin)
    all_schemas = list({id(c.s): c.s for c in cases}.values())
    step = 4000
    for lo in range(0, len(cases), step):
        process(cx, all_schemas, cases[lo:lo + step], lo)
    classes(cx, origin)
    operations(cx, cases)
    xpath_family(cx)


def witness_f320(cx, cases):
    """F320 (a leaf-list with more default values than max-elements), replayed on every run.  Unrepaired compiler: the witness is one
    more case — libyang and the model reject the empty presence container (NoMax on an implicit node), the specification is satisfied,
    the law `iff` fails and `classify` names the finding.  Repaired compiler (fixes/F320.diff): the module must be refused."""
    s, t = vg.witness_f320()
    s._origin = "witness-F320"
    if not f320_fixed():
        cx.rule("F320 witness (leaf-list with 2 defaults and max-elements 1 in a presence container, instance = the empty container): "
                "validated like every other case; the compiler of this source tree does not compare the two numbers")
        cases.append(Case(s, t, None, None, cx.sub_rng("f320")))
        return
    cx.rule("F320 witness: the compiler of this source tree compares the number of leaf-list defaults with max-elements; the module must be refused")
    r = vc.run_impl(cx, HARNESS, [s], []).get("S0", ["err", "NoReply"])
    cx.count(("f320", s.name), True, "F320 witness refused by the compiler" if r[:2] == ["err", "BadSchema"] else "F320 witness NOT refused")
    if r[:2] != ["err", "BadSchema"]:
        cx.fail(COMP, "the source has the F320 check but the module with more leaf-list defaults than max-elements compiles (%s)" % " ".join(r[:2]),
                dict(vc.schema_payload(s), law="f320-compile", features=features(s)))


def f322_fixed():
    """read off the C source: does lyd_validate_must ignore the missing LYD_WHEN_TRUE of nodes kept by an operational validation (fixes/F322.diff)?"""
    try:
        return "a false one is only a warning for operational data" in open(os.path.join(paths.REPO, "src", "validation.c")).read()
    except OSError:
        return False


def witness_f322(cx):
    """F322 (a must that looks at a node kept in spite of its false `when` under LYD_VALIDATE_OPERATIONAL), replayed on every run through
    the harness only (op `valx`, options 8).  Unrepaired source: libyang answers `invalid … Other` (the LY_EINCOMPLETE of the must logged
    as an error) — reported with law `f322`, which `classify` names.  Repaired source: the instance is accepted."""
    s, t = vg.witness_f322()
    s._origin = "witness-F322"
    line = "f322 %s valx %s %s %d %s" % (COMP, tg.hx(s.dsl()), tg.hx(s.xdsl()), OPER, tg.tok(t))
    r = vc.run_impl(cx, HARNESS, [s], [line]).get("f322", ["err", "NoReply"])
    if r[:2] == ["err", "Crash"]:
        return
    fixed = f322_fixed()
    cx.rule("F322 witness (presence container with a false when and a must on its own default leaf, validated with LYD_VALIDATE_OPERATIONAL): "
            + ("this source tree evaluates the must of operational data whatever LYD_WHEN_TRUE says; the instance must be accepted" if fixed
               else "this source tree stops the must with 'when … has not been evaluated'"))
    bad = r[:2] == ["ok", "invalid"] and any(vc.dec_err(e)[0] == "Other" for e in r[3:])
    if r[:2] == ["ok", "valid"]:
        cx.count(("f322", s.name), True, "F322 witness accepted under OPERATIONAL")
        if not fixed:
            cx.notes.append("F322: the source has not the text of fixes/F322.diff but the witness is accepted")
    elif bad and not fixed:
        cx.count(("f322", s.name), True, "F322 witness rejected (unrepaired source)")
        cx.fail(COMP, "a must on a node kept with a false when under LYD_VALIDATE_OPERATIONAL aborts: " + " ".join(r[:4]),
                dict(vc.schema_payload(s), law="f322", opts=OPER, dump=tg.tok(t), reply=r[:5]))
    else:
        cx.count(("f322", s.name), True, "F322 witness: unexpected reply")
        cx.fail(COMP, "F322 witness under LYD_VALIDATE_OPERATIONAL: unexpected reply %s (source %s)" % (" ".join(r[:4]), "repaired" if fixed else "unrepaired"),
                dict(vc.schema_payload(s), law="f322-unexpected", opts=OPER, dump=tg.tok(t), reply=r[:5]))


def compiler_guarantee(cx):
    """law `compiler-guarantee`: what the schema hypotheses of the Lean theorems exclude, lys_compile refuses (schema registrations only;
    the harness answers `err BadSchema` for a module it cannot compile, `ok <n> <summary>` otherwise)"""
    gs = vg.compiler_guarantee_schemas()
    cx.rule("compiler-guarantee: %d tiny modules, one per point the schema hypotheses of the C02 theorems (FullSane) exclude, must be refused by "
            "lys_compile; %d positive controls must compile" % (sum(1 for g in gs if not g[2]), sum(1 for g in gs if g[2])))
    rep = vc.run_impl(cx, HARNESS, [g[1] for g in gs], [])
    for i, (what, s, must) in enumerate(gs):
        r = rep.get("S%d" % i, ["err", "NoReply"])
        if r[:2] == ["err", "Crash"]:
            continue
        ok = (r[0] == "ok") if must else (r[:2] == ["err", "BadSchema"])
        cx.count(("compiler-guarantee", s.name), True,
                 ("compiler-guarantee: control accepted" if must else "compiler-guarantee: refused") if ok else "compiler-guarantee: VIOLATED")
        if not ok:
            cx.fail(COMP, ("lys_compile refuses a schema the C02 theorems admit: %s (%s)" % (what, " ".join(r[:2]))) if must
                    else "lys_compile accepts a schema the C02 theorems exclude: %s" % what,
                    {"law": "compiler-guarantee", "yang": s.yang(), "reply": r[:3]})


PRUNED = ("drop-mandatory", "drop-choice", "below-min")

# ---- XPath-dependent constraints (must, leafref require-instance, when): op `valx` ---------------------------------------------
# False: the model op `valx` (LyModel/Valid/XpValid.lean) is not wired yet, the family runs on libyang alone (modules compile, verdict
# and error-kind mix, order law); True: token-for-token differential like `val`
XP_MODEL = True
# `when` statements in the family: off until the model's when hook is filled (LyModel/Valid/XpValid.lean)
XP_WHEN = True
# OPEN DISAGREEMENT (reported): where validation goes on after a false `when` on an explicit node (MULTI_ERROR: after the NoWhen error;
# OPERATIONAL: the false when is only a warning) libyang leaves the node without LYD_WHEN_TRUE, and every must / when that touches it
# then fails with "Must ... depends on a node with a when condition, which has not been evaluated." (kind Other, empty path); the
# model evaluates the must (NoMust or nothing).  Until decided, schemas with a when run under the option sets 0 and PRESENT only.
XP_WHEN_CONTINUE = False


# KNOWN DEVIATION of the model (documented in XpWhen.lean): an EXPLICIT EMPTY non-presence container whose own when is false gives NoWhen in
# libyang, the model deletes it silently.  Mutants of schemas with a when on a non-presence container run without their empty
# non-presence containers until the model sets LYD_WHEN_TRUE in implNode.
XP_WHEN_EMPTY_NP = False


XP_SPECX = True
XP_SPECW = True


def has_when(s):
    return any(vg.has_when_stmt(n) for n in s.nodes)


def xp_laws(cx, c, ri, spec):
    """iff / tag / apptag of eval_case for a case of the xpath family; libyang's kind Other (a must that cannot be evaluated) counts as NoMust"""
    for o in xp_opts(c.s):
        r = ri.get("x%d.%d" % (c.k, o), ["err", "NoReply"])
        if r[0] != "ok" or o & OPER:
            continue
        sp = spec.get("p%d.%d" % (c.k, o & ~(MULTI | OPER)), ["err", "NoReply"])
        if sp[0] != "ok":
            cx.notes.append("specx op failed: %s" % " ".join(sp[:3]))
            cx.dist["xpath-law:specx failed"] += 1
            continue
        viol = set(sp[2:])
        accepted = r[1] == "valid"
        cx.count(("xplaw", c.s.name, tg.tok(c.t), o), True, "xpath-law:" + ("accept" if accepted else "reject"))
        if accepted and viol:
            cx.fail(COMP, "libyang accepts an instance that violates the schema: " + ",".join(sorted(viol)), payload(c, "iff-accepted", opts=o, spec=sorted(viol)))
        elif not accepted:
            k, tag, path = first_err(r)
            k2 = "NoMust" if k == "Other" else k
            if not viol:
                cx.fail(COMP, "libyang rejects an instance that satisfies every constraint of the schema (%s)" % k,
                        payload(c, "iff-rejected", opts=o, impl_kind=k, impl_path=path))
            elif k2 not in viol:
                cx.fail(COMP, "the reported error (%s) is not a constraint the instance violates (%s)" % (k, ",".join(sorted(viol))),
                        payload(c, "tag", opts=o, impl_kind=k, spec=sorted(viol)))
            elif k != "Other" and tag != APPTAG.get(k):
                cx.fail(COMP, "error-app-tag %s on a %s error (RFC 7950: %s)" % (tag, k, APPTAG.get(k)), payload(c, "apptag", opts=o, impl_kind=k))



def xp_when_laws(cx, c, ri, specw):
    """the iff / tag laws for schemas WITH a `when` (model op `specw`), the statement of `validate_ok_iff_valid_when_decidable` /
    `validate_error_tag_when_partial`: on the class `whenNoTouchB`, for runs in which no implicit node is removed because of its `when`,
    libyang accepts iff no family of `violationsX` is violated and every `when` of the accessible tree holds; a NoWhen error implies that
    some `when` of that tree is not true; any other error names a violated family"""
    for o in xp_opts(c.s):
        if o & (OPER | MULTI):
            continue
        r = ri.get("x%d.%d" % (c.k, o), ["err", "NoReply"])
        if r[0] != "ok" or r[1] == "build":
            continue
        sp = specw.get("w%d.%d" % (c.k, o), ["err", "NoReply"])
        if sp[0] != "ok" or "|" not in sp:
            cx.notes.append("specw op failed: %s" % " ".join(sp[:3]))
            cx.dist["xpath-when-law:specw failed"] += 1
            continue
        bar = sp.index("|")
        viol = set(sp[2:bar])
        notouch, allhold, deleted = [b == "1" for b in sp[bar + 1:bar + 4]]
        accepted = r[1] == "valid"
        if not notouch:
            cx.dist["xpath-when-law:outside the class (a when reaches a when-node)"] += 1
            continue
        if deleted:
            cx.dist["xpath-when-law:outside (an implicit node with a false when is removed): " + ("accept" if accepted else "reject")] += 1
            continue
        cx.count(("xpwhenlaw", c.s.name, tg.tok(c.t), o), True, "xpath-when-law:" + ("accept" if accepted else "reject") +
                 (", every when true" if allhold else ", some when false"))
        if accepted and (viol or not allhold):
            cx.fail(COMP, "libyang accepts an instance that violates the schema: " + ",".join(sorted(viol) + ([] if allhold else ["a when is false"])),
                    payload(c, "when-iff-accepted", opts=o, spec=sorted(viol), allhold=allhold))
        elif not accepted:
            k, tag, path = first_err(r)
            k2 = "NoMust" if k == "Other" else k
            if not viol and allhold:
                cx.fail(COMP, "libyang rejects an instance that satisfies every constraint and every when of the schema (%s)" % k,
                        payload(c, "when-iff-rejected", opts=o, impl_kind=k, impl_path=path))
            elif k == "NoWhen":
                if allhold:
                    cx.fail(COMP, "NoWhen reported but every when of the accessible tree is true", payload(c, "when-tag", opts=o, impl_path=path))
            elif k2 not in viol and not (k == "Other" and not allhold):
                cx.fail(COMP, "the reported error (%s) is not a constraint the instance violates (%s)" % (k, ",".join(sorted(viol))),
                        payload(c, "when-tag", opts=o, impl_kind=k, spec=sorted(viol)))


# with fixes/F322.diff in the source (lyd_validate_must ignores the missing LYD_WHEN_TRUE of nodes kept by an operational validation)
# schemas with a when also run under LYD_VALIDATE_OPERATIONAL
XP_WHEN_OPER_FIXED = True
_F322 = []


def xp_opts(s):
    if XP_WHEN_CONTINUE or not has_when(s):
        return XP_OPTS
    if not _F322:
        _F322.append(bool(f322_fixed()))
    if XP_WHEN_OPER_FIXED and _F322[0]:
        return [0, PRESENT, OPER]
    return [0, PRESENT]
XP_OPTS = [0, PRESENT, MULTI, OPER]
# OPEN DISAGREEMENT (reported): with two instances of one leaf (mutation dup-leaf, seen under MULTI_ERROR where validation goes on
# after the Dup errors) libyang's child step finds only the FIRST instance (hash lookup of lyd_find_sibling_val), the model's
# node-set has both: must "../a > 0" with a = -1, a = 5 is false in libyang, true in the model.  dup-leaf stays out until decided.
XP_DUP_LEAF = False
XP_OLD_MUTATIONS = ["drop-mandatory", "bad-value", "above-max", "dup-key"] + (["dup-leaf"] if XP_DUP_LEAF else [])


def xpath_family(cx, nsch=None, verbose=0):
    """schemas of validgen.fam_xpath (1-3 must, 1-2 leafref): instances from the generator (leafrefs repaired to existing targets, musts
    left to chance), each also with the mutations break-must / break-leafref and a few of the old ones.  The specification op does not
    know these statements, so no iff / tag law here: the tie is the correspondence `valx` (same request line to harness and model)."""
    rng = cx.sub_rng("xpath")
    n = cx.n(8, 40) if nsch is None else nsch
    per = cx.n(5, 15)
    schemas, cases = [], []
    from checks import c08
    mask = c08.live_mask(cx)      # the XPath engine of the model mirrors exactly the deviations still listed as `known` (C08)
    for i in range(n):
        s = vg.fam_xpath(rng, i, nwhen=(rng.choice([1, 1, 2]) if XP_WHEN else 0), force_inh=(i % 3 == 0))
        s._origin = "xpath"
        s.xpmask = mask
        schemas.append(s)
        r = cx.sub_rng("xinst%d" % i)
        g = vg.XTreeGen(r, s, density=r.choice([0.7, 0.85, 0.95]), max_inst=r.choice([2, 3]))
        mu = vg.Mutator(r, s, g)
        for _ in range(per):
            t = g.tree()
            cases.append(Case(s, t, None, None, r))
            for k in vg.XP_MUTATIONS + XP_OLD_MUTATIONS:
                m = mu.mutate(t, k)
                if m is not None:
                    mt = m[0]
                    if not XP_WHEN_EMPTY_NP and any(n.np_cont() and vg.has_when_stmt(n) for n in s.nodes):
                        mt = vg.prune_np(mt) or mt
                    cases.append(Case(s, mt, k, m[1], r))
    lines = []
    for k, c in enumerate(cases):
        c.k = k
        d, x = tg.hx(c.s.dsl()), tg.hx(c.s.xdsl())
        for o in xp_opts(c.s):
            lines.append("x%d.%d %s valx %s %s %d %s" % (k, o, COMP, d, x, o, tg.tok(c.t)))
        lines.append("y%d.0 %s valx %s %s %d %s" % (k, COMP, d, x, 0, tg.tok(c.sh)))

    def kind(line, reply):
        return "valx:" + " ".join(reply[:2])
    if XP_MODEL:
        ri, rm = vc.differential(cx, HARNESS, schemas, lines, kind)
    else:
        ri = vc.run_impl(cx, HARNESS, schemas, lines)
        for l in lines:
            cx.count(" ".join(l.split()[2:]), True, kind(l, ri.get(l.split()[0], ["err", "NoReply"])))
    for i, s in enumerate(schemas):
        h = ri.get("S%d" % i, ["err", "NoReply"])
        if h[0] != "ok":
            cx.fail(COMP, "a schema of the xpath family does not compile: " + " ".join(h[:2]), dict(vc.schema_payload(s), law="xpath-compile"))
    # (S) laws iff / tag against the specification extended by must / leafref (model op `specx`, same arguments as `spec`; it knows no
    # `when`, so only for schemas without one)
    specl = []
    for c in cases:
        if XP_SPECX and not has_when(c.s):
            d, x = tg.hx(c.s.dsl()), tg.hx(c.s.xdsl())
            for o in sorted(set(o & ~(MULTI | OPER) for o in xp_opts(c.s))):
                specl.append("p%d.%d %s specx %s %s %d %s" % (c.k, o, COMP, d, x, o, tg.tok(c.t)))
    spec = cx.run_model(vc.heads(schemas) + specl) if specl else {}
    for c in cases:
        if XP_SPECX and not has_when(c.s):
            xp_laws(cx, c, ri, spec)
    # (W) the same for schemas with a `when` (model op `specw`): the iff with `when` on the class of the theorem
    wl = []
    for c in cases:
        if XP_SPECW and has_when(c.s):
            d, x = tg.hx(c.s.dsl()), tg.hx(c.s.xdsl())
            for o in xp_opts(c.s):
                if not o & (MULTI | OPER):
                    wl.append("w%d.%d %s specw %s %s %d %s" % (c.k, o, COMP, d, x, o, tg.tok(c.t)))
    specw = cx.run_model(vc.heads(schemas) + wl) if wl else {}
    for c in cases:
        if XP_SPECW and has_when(c.s):
            xp_when_laws(cx, c, ri, specw)
    if wl:
        wd = {k[len("xpath-when-law:"):]: v for k, v in cx.dist.items() if k.startswith("xpath-when-law:")}
        cx.rule("when-iff (validate_ok_iff_valid_when_decidable / validate_error_tag_when_partial against libyang, model op specw; class "
                "condition whenNoTouchB, runs that remove no implicit node): %d cases x option sets: %s" % (
                    len(wl), ", ".join("%s %d" % kv for kv in sorted(wd.items()))))
    mix = collections.Counter()
    for c in cases:
        a = ri.get("x%d.0" % c.k, ["err", "NoReply"])
        b = ri.get("y%d.0" % c.k, ["err", "NoReply"])
        if a[0] == "ok" and b[0] == "ok" and a != b:
            cx.fail(COMP, "the reply depends on the order in which the siblings were created", payload(c, "order", canonical=a[:6], scrambled=b[:6]))
        for o in xp_opts(c.s):
            r = ri.get("x%d.%d" % (c.k, o), ["err", "NoReply"])
            if r[0] != "ok":
                mix["%s: no reply (%s)" % (c.kind or "generated", " ".join(r[:2]))] += 1
                continue
            if o == MULTI and r[1] == "invalid":
                for e in r[3:]:
                    cx.dist["valx:error-kind:" + vc.dec_err(e)[0]] += 1
            if o == 0:
                res = "valid" if r[1] == "valid" else "build-error" if r[1] == "build" else first_err(r)[0]
                mix["%s: %s" % (c.kind or "generated", res)] += 1
                if verbose and c.k < verbose:
                    print("---- sample %d (%s %s)\n%s\ninstance:\n%s\nrequest: %s\nreply: %s" % (
                        c.k, c.kind, c.info, c.s.yang(), tg.pretty(c.s, c.t), [l for l in lines if l.startswith("x%d.0 " % c.k)][0][:400],
                        " ".join(r)[:600]))
            elif o == OPER:
                cx.dist["valx:operational:" + r[1]] += 1
                if has_when(c.s):
                    cx.dist["valx:operational, schema with a when:" + (r[1] if r[1] != "invalid" else "invalid " + first_err(r)[0])] += 1
    cx._xp_schemas = schemas
    cnt = [vg.xp_counts(s) for s in schemas]
    text = ("xpath family (%s): %d schemas with %d must, %d leafref (%d with a key predicate), %d when; %d instances; first error at option 0 "
            "per origin of the instance: %s" % ("differential with the model op valx" if XP_MODEL else "libyang alone, model op not wired",
                                                 len(schemas), sum(c[0] for c in cnt), sum(c[1] for c in cnt), sum(c[2] for c in cnt),
                                                 sum(c[3] for c in cnt), len(cases), ", ".join("%s %d" % kv for kv in sorted(mix.items()))))
    ic = [vg.xp_inh_counts(s) for s in schemas]
    text += ("; when inherited via uses/augment: %d nodes in %d schemas; nodes with own + inherited when: %d in %d schemas"
             % (sum(c[0] for c in ic), sum(1 for c in ic if c[0]), sum(c[1] for c in ic), sum(1 for c in ic if c[1])))
    cx.rule(text)
    print("C02 distribution: " + text)
CLASSES = ["plain", "full-without-unique", "full"]


def tclass(s):
    c = getattr(s, "_tclass", None)
    if c is None:
        try:
            c = vg.theorem_class(s)
        except Exception:
            c = "full"
        try:
            s._tclass = c
        except Exception:
            pass
    return c


def distribution(cx, schemas, origin):
    """(a) how many of the generated schemas contain each construct of the full schema language"""
    tot, by = collections.Counter(), collections.Counter()
    cls = collections.Counter()
    for s in schemas:
        by[origin[id(s)]] += 1
        cls[tclass(s)] += 1
        for f in vg.schema_constructs(s):
            tot[f] += 1
    text = ("schemas: %d generated (%s); theorem class of the schema: %s; schemas containing each construct: %s"
            % (len(schemas), ", ".join("%s %d" % kv for kv in by.items()), ", ".join("%s %d" % (c, cls[c]) for c in CLASSES),
               ", ".join("%s %d" % (f, tot[f]) for f in vg.CONSTRUCTS)))
    cx.rule(text)
    print("C02 distribution: " + text)


def classes(cx, origin):
    """(b) how many cases (schema, instance, option set) fall into the schema class of each theorem, accepted / rejected by libyang"""
    d = cx.dist
    parts = []
    for c in CLASSES + ["outside (LYD_VALIDATE_OPERATIONAL)"]:
        parts.append("%s %d valid + %d invalid" % (c, d["class:%s:valid" % c], d["class:%s:invalid" % c]))
    cum = ["theorem for plain schemas applies to %d" % sum(d["class:plain:" + v] for v in ("valid", "invalid")),
           "theorem for schemas without unique to %d" % sum(d["class:%s:%s" % (c, v)] for c in CLASSES[:2] for v in ("valid", "invalid")),
           "theorem for all schemas to %d" % sum(d["class:%s:%s" % (c, v)] for c in CLASSES for v in ("valid", "invalid"))]
    fam = getattr(cx, "c02_fam", {})
    ftext = ", ".join("%s %d valid + %d invalid" % (f, fam.get((f, "valid"), 0), fam.get((f, "invalid"), 0))
                      for f in sorted({k[0] for k in fam}))
    text = ("cases (schema, instance, option set) by smallest theorem class of the schema (exclusive bins, libyang's verdict): %s; %s; "
            "cases per schema origin: %s" % ("; ".join(parts), ", ".join(cum), ftext))
    cx.rule(text)
    print("C02 distribution: " + text)
    hy = getattr(cx, "c02_hyp", None)
    if hy:
        text = ("hypotheses of the Lean theorems evaluated per case by the model (non-operational option sets): "
                + ", ".join("%s %d" % kv for kv in sorted(hy.items())))
        cx.rule(text)
        print("C02 distribution: " + text)
    du = getattr(cx, "c02_uniq", None)
    if du:
        text = "directed unique instances (entries of the list, shape, verdict): " + ", ".join("%s %d" % kv for kv in sorted(du.items()))
        cx.rule(text)
        print("C02 distribution: " + text)


def operations(cx, cases):
    """the same data definitions as rpc input / rpc output / notification content: libyang's verdict (lyd_parse_op +
    lyd_validate_op, XML and JSON) against
      (S) the specification evaluated on the all-state variant of the schema, computed IN THE MODEL (`Valid.stateVariant`, driver op
          `opsspec` given the original schema; theorems `ops_relaxes`, `ops_exact_difference`, … of Props/C02 say what the variant
          does to the constraints: duplicate values of configuration leaf-lists become legal, everything else holds) — law `ops-iff`;
      (K) the model of lyd_validate_op for the source tree at hand (`Valid.opsValidate OpFacts.current`, facts read from the C source
          by tools/extractors/ops.py) — correspondence, verdict per route;
      (V) the all-state variant the generator computes (validgen.state_variant) against the model's (`opsvariant`), per schema."""
    rng = cx.sub_rng("ops")
    pick = [c for c in cases if getattr(c.s, "yang", None) and not isinstance(c.s, vc.ReplaySchema)
            and c.kind not in ("state-node", "missing-key") and not any(getattr(n, "when", None) for n in c.s.nodes)
            and getattr(c.s, "_origin", None) not in ("witness-F320", "witness-F321")]       # F320 is recorded for datastore validation (law iff)
    rng.shuffle(pick)
    pick = pick[:cx.n(1500, 12000)]
    cx.rule("ops: %d of the instances above (valid and singly mutated) sent as rpc input, rpc output (reply) and notification content, XML "
            "and JSON, plus a leaf of the other direction put into input / output (placement); expected verdict = specification on the "
            "all-state variant computed by the model from the original schema; the model of lyd_validate_op compared per route; the "
            "generator's all-state variant compared with the model's per schema" % len(pick))
    variants, lines, specl, info = {}, [], [], {}
    for k, c in enumerate(pick):
        if id(c.s) not in variants:
            variants[id(c.s)] = (len(variants), c.s)
            specl.append("ov%d %s opsvariant %s %s" % (len(variants) - 1, COMP, tg.hx(c.s.dsl()), tg.hx(c.s.xdsl())))
        place = rng.choice([None, None, "ok", "swap"])
        extra = [None, None]
        if place:
            extra = ["zzin", "zzout"] if place == "ok" else ["zzout", "zzin"]
        din, dout = vg.op_docs(c.s, c.t, extra[0]), vg.op_docs(c.s, c.t, extra[1])
        docs = din[0:2] + dout[2:4] + din[4:6]
        lines.append("o%d %s ops %s %s" % (k, COMP, tg.hx(vg.op_module(c.s).encode()), " ".join(tg.hx(d) for d in docs)))
        specl.append("o%d %s opsspec %s %s %s" % (k, COMP, tg.hx(c.s.dsl()), tg.hx(c.s.xdsl()), tg.tok(c.t)))
        info[k] = (c, place, docs)
    if not lines:
        return
    rep = cx.run_impl(HARNESS, lines, component=COMP, env=vc.ENV)
    spec = cx.run_model(specl)
    # (V) the generator's transformation against the model's
    for i, s in variants.values():
        r = spec.get("ov%d" % i, ["err", "NoReply"])
        s2 = vg.state_variant(s)
        want = ["ok", tg.hx(s2.dsl()), tg.hx(s2.xdsl()), "1"]
        cx.count(("opsvariant", s.name, tg.hx(s.dsl())), True, "ops:variant")
        if r != want:
            cx.disagree(COMP, "opsvariant %s (all-state variant: generator vs model; last field 1 = tree view and table of the model's variant agree)"
                        % s.name, want[:1] + [tg.unhx(want[1]).decode()[:600]] + want[2:], r[:1] + [tg.unhx(x).decode("utf-8", "replace")[:600] if j == 0 else x
                                                                                                      for j, x in enumerate(r[1:])])
    for k, (c, place, docs) in info.items():
        r, sp = rep.get("o%d" % k, ["err", "NoReply"]), spec.get("o%d" % k, ["err", "NoReply"])
        if r[0] != "ok" or sp[0] != "ok" or "|" not in sp:
            if r[:2] != ["err", "Crash"]:
                cx.fail(COMP, "ops: no verdict (%s / %s)" % (" ".join(r[:2]), " ".join(sp[:3])), payload(c, "ops-harness", module=vg.op_module(c.s)))
            continue
        bar = sp.index("|")
        bar2 = sp.index("|", bar + 1)
        viol, viol0 = set(sp[2:bar]), set(sp[bar2 + 2:])
        mroute = dict(f.split("=", 1) for f in sp[bar + 1:bar2])
        # theorems ops_relaxes / ops_exact_difference, evaluated: the variant's violated families are among the schema's, and only Dup can
        # be missing; counted: instances that are invalid datastore content and valid operation content
        if not viol <= viol0 or not (viol0 - viol) <= {"Dup"}:
            cx.disagree(COMP, "opsspec %s: violations of the variant %s vs of the schema %s contradict ops_relaxes / ops_exact_difference"
                        % (specl_line(c), sorted(viol), sorted(viol0)), sorted(viol0), sorted(viol))
        cx.dist["ops:datastore %s, operation content %s" % ("valid" if not viol0 else "invalid", "valid" if not viol else "invalid")] += 1
        if viol0 != viol:
            cx.dist["ops:Dup of a configuration leaf-list only (family legal in an operation)"] += 1
        for i, f in enumerate(r[1:]):
            name, res = f.split("=", 1)
            misplaced = place == "swap" and not name.startswith("notif")
            want = not viol and not misplaced
            cx.count(("ops", c.s.name, tg.tok(c.t), name, place), True, "ops:%s:%s%s" % (name.split(".")[0], "valid" if not viol else "invalid", ":misplaced-leaf" if misplaced else ""))
            # (K) the model of lyd_validate_op for this source tree
            mv = mroute.get(name.split(".")[0], "?")
            if (res[0] == "V") != (mv == "V" and not misplaced):
                cx.disagree(COMP, "opsspec route %s of %s: %s" % (name, specl_line(c), docs[i].decode("utf-8", "replace")[:800]), [res[:120]],
                            [mv + (" + misplaced leaf" if misplaced else "")])
            # (S) the law
            if (res[0] == "V") != want:
                what = ("libyang accepts %s that violates the schema (%s)" % ("{}", ",".join(sorted(viol) or ["a node of the other direction"]))) if res[0] == "V" \
                    else "libyang rejects %s that satisfies every constraint of the schema"
                kind = {"in": "an rpc input", "out": "an rpc output", "notif": "a notification"}[name.split(".")[0]]
                cx.fail(COMP, what.format(kind) if "{}" in what else what % kind,
                        payload(c, "ops-iff", route=name, spec=sorted(viol), got=res[:300], doc=docs[i].decode("utf-8", "replace")[:3000],
                                module=vg.op_module(c.s), placement=place, model=mv))
            elif res[0] != "V" and viol and not misplaced:
                kd = vc.dec_err(res[2:].split(";")[0])[0]
                if kd not in viol and not (kd == "NoKey" and "BadValue" in viol):
                    cx.fail(COMP, "ops: the reported error (%s) is not a constraint the %s violates (%s)" % (kd, name, ",".join(sorted(viol))),
                            payload(c, "ops-tag", route=name, spec=sorted(viol), got=res[:300], doc=docs[i].decode("utf-8", "replace")[:3000],
                                    module=vg.op_module(c.s)))


def specl_line(c):
    return "schema %s instance %s" % (c.s.name, tg.tok(c.t)[:200])


def load_corpus(cx):
    d = os.path.join(os.path.dirname(os.path.dirname(os.path.dirname(os.path.abspath(__file__)))), "corpus", "valid")
    out = []
    if not os.path.isdir(d):
        return out
    import random
    for fn in sorted(os.listdir(d)):
        if fn.endswith(".json") and fn.startswith("c02"):
            j = json.load(open(os.path.join(d, fn)))
            s = corpus_schema(j["schema"])
            for c in j["cases"]:
                out.append(Case(s, tg.parse_dump(s, c["dump"]), c.get("kind"), {"opts": c.get("opts", 0)}, random.Random(0)))
    return out


def corpus_schema(sj):
    """{"gen": [seed, idx]}: the schema gen_schema_x makes from random.Random(seed)"""
    import random
    return vg.gen_schema_x(random.Random(sj["gen"][0]), sj["gen"][1], **sj.get("kw", {}))


def opts_of(c):
    if c.kind is None:
        return V_OPTS
    return sorted(set([c.base, c.base | MULTI, c.base | OPER, c.base | PRESENT, c.base | NO_STATE]))


def process(cx, schemas, cases, lo):
    lines, specl, routel = [], [], []
    for k, c in enumerate(cases):
        c.k = lo + k
        d, x = tg.hx(c.s.dsl()), tg.hx(c.s.xdsl())
        for o in opts_of(c):
            lines.append("v%d.%d %s val %s %s %d %s" % (c.k, o, COMP, d, x, o, tg.tok(c.t)))
        lines.append("w%d.%d %s val %s %s %d %s" % (c.k, c.base, COMP, d, x, c.base, tg.tok(c.sh)))
        for o in sorted(set(o & ~(MULTI | OPER) for o in opts_of(c))):
            specl.append("p%d.%d %s spec %s %s %d %s" % (c.k, o, COMP, d, x, o, tg.tok(c.t)))
            # the hypotheses of the Lean theorems, evaluated by the model on this very case (op `hyp`, LyModel/Valid/Drv.lean)
            specl.append("h%d.%d %s hyp %s %s %d %s" % (c.k, o, COMP, d, x, o, tg.tok(c.t)))
        if c.kind != "missing-key" or True:
            routel.append("r%d %s routes %s %d %s %s %s" % (c.k, COMP, d, c.base, tg.tok(c.t), tg.hx(vg.render_xml(c.s, c.t)), tg.hx(vg.render_json(c.s, c.t))))
            routel.append("q%d %s routes %s %d %s %s %s" % (c.k, COMP, d, c.base, tg.tok(c.doc_sh), tg.hx(vg.render_xml(c.s, c.doc_sh)), tg.hx(vg.render_json(c.s, c.doc_sh))))

    def kind(line, reply):
        return "val:" + (" ".join(reply[:2]) if reply[0] == "ok" else " ".join(reply[:2]))
    ri, rm = vc.differential(cx, HARNESS, schemas, lines, kind)
    spec = cx.run_model(vc.heads(schemas) + specl)
    routes = vc.run_impl(cx, HARNESS, schemas, routel)
    for c in cases:
        eval_case(cx, c, ri, spec, routes)


def hyp_count(cx, hy, accepted):
    """which Lean theorem's hypotheses hold for the case (decidable predicates of Props/C02.lean / Props/C02Full.lean, evaluated by lydrv)"""
    if not hasattr(cx, "c02_hyp"):
        cx.c02_hyp = collections.Counter()
    if hy[0] != "ok":
        cx.c02_hyp["hyp op failed"] += 1
        return
    h = dict(t.split("=") for t in hy[1:])
    on = lambda *ks: all(h.get(k) == "1" for k in ks)
    v = "valid" if accepted else "invalid"
    if on("wf", "plain", "nouniq", "good", "bounds"):
        cx.c02_hyp["validate_ok_iff_valid (plain): " + v] += 1
    if on("wf", "full", "uniqok", "fixed", "good", "bounds"):
        cx.c02_hyp["validate_ok_iff_valid_full: %s%s" % (v, "" if on("nouniq") else " (schema with unique)")] += 1
        if on("keysfirst", "uniqwf"):
            cx.c02_hyp["verdict_order_independent: " + v] += 1
    else:
        why = [n for k, n in (("wf", "table/tree view"), ("full", "schema not FullSane"), ("uniqok", "unique paths not UniqPathsOk"),
                              ("fixed", "F180 variant"), ("good", "default-flagged node in the instance (empty non-presence container)"),
                              ("bounds", "bounds")) if h.get(k) != "1"]
        cx.c02_hyp["outside validate_ok_iff_valid_full: " + " + ".join(why)] += 1


def first_err(reply):
    """(kind, apptag) of the first error of a val reply; build failures map to the parser's kinds"""
    if reply[1] == "build":
        return ("BadValue" if reply[2] == "Evalid" else "NoKey", None, None)
    return vc.dec_err(reply[3])


def payload(c, law, **kw):
    p = {"law": law, "mutation": c.kind, "info": c.info, "opts": kw.pop("opts", c.base), "features": features(c.s, c.t), "dump": tg.tok(c.t),
         "dump_sh": tg.tok(c.sh), "doc_sh": tg.tok(c.doc_sh), "xml": tg.hx(vg.render_xml(c.s, c.t)), "json": tg.hx(vg.render_json(c.s, c.t)),
         "xml_sh": tg.hx(vg.render_xml(c.s, c.doc_sh)), "json_sh": tg.hx(vg.render_json(c.s, c.doc_sh)),
         "instance_text": tg.pretty(c.s, c.t)[:3000]}
    p.update(vc.schema_payload(c.s))
    p.update(kw)
    return p


def eval_case(cx, c, ri, spec, routes):
    # ---- iff / tag / mutation, per non-operational option set
    for o in opts_of(c):
        r = ri.get("v%d.%d" % (c.k, o), ["err", "NoReply"])
        if r[0] == "ok":
            # which theorem speaks about this case: the smallest schema class; none under LYD_VALIDATE_OPERATIONAL
            verdict = "valid" if r[1] == "valid" else "invalid"
            cx.dist["class:%s:%s" % ("outside (LYD_VALIDATE_OPERATIONAL)" if o & OPER else tclass(c.s), verdict)] += 1
            if not hasattr(cx, "c02_fam"):
                cx.c02_fam, cx.c02_uniq = collections.Counter(), collections.Counter()
            cx.c02_fam[(getattr(c.s, "_origin", "corpus"), verdict)] += 1
            if c.kind == "directed" and o == c.base:
                cx.c02_uniq["n=%s %s %s" % (c.info.get("n") if c.info.get("n", 0) < 4 else "4+", c.info.get("shape"), verdict)] += 1
        if r[0] != "ok" or o & OPER:
            continue
        hyp_count(cx, spec.get("h%d.%d" % (c.k, o & ~(MULTI | OPER)), ["err", "NoReply"]), r[1] == "valid")
        sp = spec.get("p%d.%d" % (c.k, o & ~(MULTI | OPER)), ["err", "NoReply"])
        if sp[0] != "ok":
            cx.notes.append("spec op failed: %s" % " ".join(sp[:3]))
            continue
        viol = set(sp[2:])
        accepted = r[1] == "valid"
        cx.dist["verdict:" + ("accept" if accepted else "reject")] += 1
        if accepted and viol:
            cx.fail(COMP, "libyang accepts an instance that violates the schema: " + ",".join(sorted(viol)), payload(c, "iff-accepted", opts=o, spec=sorted(viol)))
        elif not accepted:
            k, tag, path = first_err(r)
            if not viol:
                cx.fail(COMP, "libyang rejects an instance that satisfies every constraint of the schema (%s)" % k,
                        payload(c, "iff-rejected", opts=o, impl_kind=k, impl_path=path))
            elif k not in viol:
                cx.fail(COMP, "the reported error (%s) is not a constraint the instance violates (%s)" % (k, ",".join(sorted(viol))),
                        payload(c, "tag", opts=o, impl_kind=k, spec=sorted(viol)))
            elif tag != APPTAG.get(k):
                cx.fail(COMP, "error-app-tag %s on a %s error (RFC 7950: %s)" % (tag, k, APPTAG.get(k)), payload(c, "apptag", opts=o, impl_kind=k))
            if o == c.base and c.kind in vg.EXPECT and viol == {vg.EXPECT[c.kind][0]}:
                cx.dist["mutation-caught:" + c.kind] += 1 if k == vg.EXPECT[c.kind][0] else 0
            # ---- multi-set (theorem multi_error_set_exact): under LYD_VALIDATE_MULTI_ERROR, for a buildable instance in which no choice
            # has data of two cases, the families libyang reports are exactly the violated ones
            if o & MULTI and r[1] == "invalid" and viol:
                got = set(vc.dec_err(t)[0] for t in r[3:])
                if "DupCase" in viol:
                    cx.dist["multi-set: DupCase violated (one case validated only), reported %s violated" % ("=" if got == viol else "<")] += 1
                elif got != viol:
                    cx.fail(COMP, "under MULTI_ERROR libyang reports %s, the instance violates %s" % (",".join(sorted(got)), ",".join(sorted(viol))),
                            payload(c, "multi-set", opts=o, impl_kinds=sorted(got), spec=sorted(viol)))
                else:
                    cx.dist["multi-set: reported families = violated families"] += 1
        if o == c.base:
            if c.kind is None and not viol:
                cx.dist["valid-by-construction:" + ("accepted" if accepted else "REJECTED")] += 1
            elif c.kind is None:
                cx.dist["generator: valid-by-construction instance violates " + ",".join(sorted(viol))] += 1
            elif c.kind == "directed":
                cx.dist["directed:%s:%s" % (c.info.get("family"), "valid" if not viol else "invalid")] += 1
            elif not viol:
                cx.dist["generator: mutation %s left the instance valid" % c.kind] += 1
    # ---- order independence of the API route
    a, b = ri.get("v%d.%d" % (c.k, c.base)), ri.get("w%d.%d" % (c.k, c.base))
    if a and b and a[0] == "ok" and b[0] == "ok" and a != b:
        cx.fail(COMP, "the reply depends on the order in which the siblings were created", payload(c, "order", canonical=a[:6], scrambled=b[:6]))
    # ---- routes
    ref = ri.get("v%d.%d" % (c.k, c.base | PRESENT))
    if not ref or ref[0] != "ok":
        return
    for rid, shuffled in (("r%d" % c.k, False), ("q%d" % c.k, True)):
        rr = routes.get(rid, ["err", "NoReply"])
        if rr[0] != "ok":
            if rr[:2] != ["err", "Crash"]:
                cx.fail(COMP, "routes op failed: " + " ".join(rr[:2]), payload(c, "harness"))
            continue
        cx.count(("routes", c.s.name, tg.tok(c.t), c.base, shuffled), True, "routes:" + ("valid" if ref[1] == "valid" else "invalid"), n=4)
        for f in rr[1:]:
            name, res = f.split("=", 1)
            if (res[0] == "V") != (ref[1] == "valid"):
                cx.fail(COMP, "verdict of route %s%s differs from the built-and-validated instance" % (name, " (shuffled document)" if shuffled else ""),
                        payload(c, "route-verdict", route=name, shuffled=shuffled, api=ref[:4], got=res[:200]))
                continue
            if res[0] == "V":
                if res[2:] != ref[2]:
                    cx.fail(COMP, "the validated tree of route %s differs from the built-and-validated one" % name,
                            payload(c, "route-tree", route=name, shuffled=shuffled))
                continue
            k, tag, path = vc.dec_err(res[2:].split(";")[0])
            ak, atag, apath = first_err(ref)
            if (k, tag) != (ak, atag):
                cx.fail(COMP, "first error of route %s (%s/%s) differs from the built-and-validated instance (%s/%s)" % (name, k, tag, ak, atag),
                        payload(c, "route-error", route=name, shuffled=shuffled))
            elif apath is not None and path != apath:
                # the two-step routes validate a finished tree exactly like the API route; while parsing, libyang has the data parent on
                # its location stack where the API route only has a schema node, so only data paths are comparable there
                if name in ("xml2", "json2") or not (apath.startswith("S") or path.startswith("S")):
                    import re
                    npath, napath = re.sub(r"\[\d+\]", "[#]", path), re.sub(r"\[\d+\]", "[#]", apath)
                    rest = npath.split(":", 1)[1] if ":" in npath else npath
                    cx.fail(COMP, "error path of route %s differs from the built-and-validated instance" % name,
                            payload(c, "route-path", route=name, path=path, api_path=apath, shuffled=shuffled,
                                    unlinked=(npath == napath or napath.endswith("/" + rest))))

def replay(cx, pl):
    f = pl.get("failure", {}).get("case") or {}
    if "schema_dsl" not in f:
        return run(cx)
    s = vc.ReplaySchema(f["schema_dsl"], f.get("schema_xdsl", ""), f["schema_yang"])
    d, x = tg.hx(s.dsl()), tg.hx(s.xdsl())
    o = f.get("opts") or 0
    lines = ["v0 %s val %s %s %d %s" % (COMP, d, x, o, f["dump"]), "w0 %s val %s %s %d %s" % (COMP, d, x, o, f["dump_sh"]),
             "r0 %s routes %s %d %s %s %s" % (COMP, d, o, f["dump"], f["xml"], f["json"]),
             "q0 %s routes %s %d %s %s %s" % (COMP, d, o, f["doc_sh"], f["xml_sh"], f["json_sh"])]
    rep = vc.run_impl(cx, HARNESS, [s], lines)
    sp = cx.run_model(vc.heads([s]) + ["p0 %s spec %s %s %d %s" % (COMP, d, x, o & ~(MULTI | OPER), f["dump"])])
    cx.notes.append("replay: " + json.dumps({k: v[:6] for k, v in rep.items()}) + " spec " + " ".join(sp.get("p0", [])))
    viol = set(sp.get("p0", ["ok", "0"])[2:])
    r = rep.get("v0", ["err", "NoReply"])
    cx.count(("replay", f["dump"], o), True, "replay")
    if r[0] == "ok" and (r[1] == "valid") != (not viol):
        cx.fail(COMP, "replayed: verdict %s but the specification says %s" % (r[1], sorted(viol) or "valid"), dict(f, law=f.get("law")))
