"""Component `ctx`: module-set DSL, YANG renderer, failure-inducing edits, history scripts (shared by C09 and C19).

A history is a script (see harness/api_ctx.c) sent hex-encoded in one request line `ctx history <hex>` to the
implementation harness and to the Lean model.  The harness reads the YANG texts, the model reads the abstract
descriptor that follows the text on every `M` line and the fault description that follows every step; both are
produced from the same DSL value here, so the renderer below is part of the trusted correspondence machinery."""
import copy
from vlib.proto import hexs

EXPLICIT = 0x80
PRIV_PARSED = 0x40


class Feat:
    def __init__(self, name, iff=None):
        self.name, self.iff = name, iff


class Sub:
    def __init__(self, name, feats=(), data=True):
        self.name, self.feats, self.data = name, list(feats), data


class Mod:
    """One module of a set.  Everything that influences libyang's module-set bookkeeping is explicit."""

    def __init__(self, name, rev=None, **kw):
        self.name, self.rev = name, rev
        self.ns = kw.get("ns", "urn:" + name)
        self.feats = list(kw.get("feats", ()))
        self.subs = list(kw.get("subs", ()))
        self.imports = list(kw.get("imports", ()))        # (name, rev|None)
        self.data = kw.get("data", True)
        self.grouping = kw.get("grouping", False)
        self.typedef = kw.get("typedef", False)
        self.identity = kw.get("identity", False)
        self.idbase = kw.get("idbase")                     # import name whose identity is the base
        self.augments = list(kw.get("augments", ()))       # target import names
        self.deviations = list(kw.get("deviations", ()))   # (target import name, leaf index 0..3)
        self.lrefs = list(kw.get("lrefs", ()))             # target import names
        self.uses_td = list(kw.get("uses_td", ()))
        self.uses_grp = list(kw.get("uses_grp", ()))
        self.when = kw.get("when", False)
        self.must = kw.get("must", False)
        self.default = kw.get("default", False)
        self.extra_top = kw.get("extra_top", "")           # raw statements appended at module level (edits)
        self.extra_c = kw.get("extra_c", "")               # raw statements appended inside container c (edits)
        self.truncate = kw.get("truncate", False)          # syntax edit: drop the closing brace
        self.misspell = kw.get("misspell", False)          # syntax edit: unknown keyword

    def key(self):
        return "%s@%s" % (self.name, self.rev or "-")

    def has_data(self):
        return bool(self.data or any(s.data for s in self.subs))

    # ---- YANG text -----------------------------------------------------------------------
    def text(self):
        o = ["module %s {" % self.name, "  yang-version 1.1;", "  namespace \"%s\";" % self.ns, "  prefix %s;" % self.name]
        for (n, r) in self.imports:
            o.append("  import %s { prefix %s;%s }" % (n, n, (" revision-date %s;" % r) if r else ""))
        for s in self.subs:
            o.append("  include %s;" % s.name)
        if self.rev:
            o.append("  revision %s;" % self.rev)
        for f in self.feats:
            o.append("  feature %s%s" % (f.name, (" { if-feature %s; }" % f.iff) if f.iff else ";"))
        if self.identity:
            o.append("  identity idb_%s;" % self.name)
        if self.idbase:
            o.append("  identity idd_%s { base %s:idb_%s; }" % (self.name, self.idbase, self.idbase))
        if self.typedef:
            o.append("  typedef td { type int8 { range 1..10; } }")
        if self.grouping:
            o.append("  grouping g {")
            o.append("    leaf gl_%s { type string; }" % self.name)
            for f in self.feats:
                o.append("    leaf glf_%s_%s { if-feature %s; type string; }" % (self.name, f.name, f.name))
            o.append("  }")
        if self.data:
            o.append("  container c {")
            o.append("    leaf l { type string; }")
            for i in range(4):
                o.append("    leaf dv%d { type int8; }" % i)
            for f in self.feats:
                o.append("    leaf lf_%s { if-feature %s; type string; }" % (f.name, f.name))
            if self.grouping:
                o.append("    uses g;")
            if self.typedef:
                o.append("    leaf lt { type td; }")
            for t in self.uses_td:
                o.append("    leaf lt_%s { type %s:td; }" % (t, t))
            for t in self.uses_grp:
                o.append("    uses %s:g;" % t)
            for t in self.lrefs:
                o.append("    leaf lr_%s { type leafref { path \"/%s:c/%s:l\"; } }" % (t, t, t))
            if self.when:
                o.append("    leaf lw { when \"../l = 'x'\"; type string; }")
            if self.must:
                o.append("    leaf lm { must \"../l != 'y'\"; type string; }")
            if self.default:
                o.append("    leaf ld { type int8; default 5; }")
            if self.identity:
                o.append("    leaf li { type identityref { base idb_%s; } }" % self.name)
            if self.extra_c:
                o.append("    " + self.extra_c)
            o.append("  }")
        for t in self.augments:
            o.append("  augment /%s:c { leaf a_%s { type string; } }" % (t, self.name))
        for (t, i) in self.deviations:
            o.append("  deviation /%s:c/%s:dv%d { deviate add { default %d; } }" % (t, t, i, i + 1))
        if self.misspell:
            o.append("  lefa zz { type string; }")
        if self.extra_top:
            o.append("  " + self.extra_top)
        if not self.truncate:
            o.append("}")
        return "\n".join(o) + "\n"

    def sub_text(self, s):
        o = ["submodule %s {" % s.name, "  yang-version 1.1;", "  belongs-to %s { prefix %s; }" % (self.name, self.name)]
        for f in s.feats:
            o.append("  feature %s%s" % (f.name, (" { if-feature %s; }" % f.iff) if f.iff else ";"))
        if s.data:
            o.append("  container cs_%s {" % s.name)
            o.append("    leaf ls { type string; }")
            for f in s.feats:
                o.append("    leaf lf_%s { if-feature %s; type string; }" % (f.name, f.name))
            o.append("  }")
        o.append("}")
        return "\n".join(o) + "\n"

    # ---- descriptor for the model ---------------------------------------------------------
    def desc(self):
        t = [self.ns, "1" if self.has_data() else "0", "1" if self.grouping else "0"]
        t.append("F%d" % len(self.feats))
        for f in self.feats:
            t += [f.name, f.iff or "-"]
        t.append("U%d" % len(self.subs))
        for s in self.subs:
            t.append("N%d" % len(s.feats))
            for f in s.feats:
                t += [f.name, f.iff or "-"]
        t.append("I%d" % len(self.imports))
        for (n, r) in self.imports:
            t += [n, r or "-"]
        t.append("A%d" % len(self.augments)); t += list(self.augments)
        t.append("V%d" % len(self.deviations)); t += [x[0] for x in self.deviations]
        t.append("R%d" % len(self.lrefs)); t += list(self.lrefs)
        t.append("G%d" % len(self.uses_grp)); t += list(self.uses_grp)
        return " ".join(t)


def feats_tok(f):
    if f is None: return "~"
    if f == []: return "-"
    return ",".join(f)


class History:
    """Repository + context options + steps."""

    def __init__(self, flags=0, touch=False):
        self.flags, self.touch = flags, touch
        self.repo = []          # Mod objects served by the import callback; P steps refer to them by index
        self.steps = []         # (kind, args, fault)   fault = None | (stage, module, rc)
        self.meta = {}

    def add(self, m):
        self.repo.append(m)
        return len(self.repo) - 1

    def parse(self, idx, feats=None, fault=None): self.steps.append(("P", [str(idx), feats_tok(feats)], fault))
    def load(self, name, rev=None, feats=None, fault=None): self.steps.append(("L", [name, rev or "-", feats_tok(feats)], fault))
    def impl(self, name, rev=None, feats=None, fault=None): self.steps.append(("I", [name, rev or "-", feats_tok(feats)], fault))
    def compile(self, fault=None): self.steps.append(("C", [], fault))
    def setopt(self, bits, fault=None): self.steps.append(("O", ["+", str(bits)], fault))
    def unsetopt(self, bits): self.steps.append(("O", ["-", str(bits)], None))
    def data(self, modname): self.steps.append(("D", [modname], None))

    def spec(self):
        o = ["F %d" % self.flags, "T %d" % (1 if self.touch else 0)]
        for m in self.repo:
            o.append("M %s %s %s %s" % (m.name, m.rev or "-", hexs(m.text()), m.desc()))
            for s in m.subs:
                o.append("S %s - %s" % (s.name, hexs(m.sub_text(s))))
        for (k, a, f) in self.steps:
            l = [k] + a
            if f:
                l += ["X", f[0], f[1], str(f[2])]
            o.append(" ".join(l))
        return "\n".join(o) + "\n"

    def line(self, i):
        return "%s ctx history %s" % (i, hexs(self.spec()))

    def without_step(self, k):
        h = copy.copy(self)
        h.steps = self.steps[:k] + self.steps[k + 1:]
        return h

    def stepful(self):
        """indices of steps that yield a snapshot token"""
        return [i for i, s in enumerate(self.steps)]


# ---- reply parsing ----------------------------------------------------------------------------

class Snap:
    def __init__(self, tok):
        self.raw = tok
        if tok.startswith("D"):
            self.kind, self.rc = "D", int(tok[1:])
            return
        self.kind = "S"
        p = tok.split("|")
        self.rc = int(p[0])
        self.mods = []
        for m in (p[1].split(";") if p[1] else []):
            f = m.split(":")
            # name@rev : I<b> : L<x> : feats : c<class>.<fnv>
            cls = f[4][1:]
            self.mods.append({"key": f[0], "impl": f[1] == "I1", "latest": int(f[2][1:], 16), "feats": f[3],
                              "cls": cls.split(".")[0], "fnv": cls.split(".")[1] if "." in cls else cls})
        self.hash = p[2][2:]
        self.cc = int(p[3][3:])
        self.data = p[4][2:]

    def obs(self, latest_bit=True, fnv=True):
        """what C09 calls the observable context: modules, revisions, implemented, (latest), features, compiled schema, hash"""
        return (tuple((m["key"], m["impl"], (m["latest"] & 1) if latest_bit else None, m["feats"], m["fnv"] if fnv else m["cls"]) for m in self.mods), self.hash)


def strip_fnv(tok):
    """model replies carry no text hash: drop `.xxxxxxxx` after the class index"""
    if tok.startswith("D"):
        return tok
    out = []
    p = tok.split("|")
    mods = []
    for m in (p[1].split(";") if p[1] else []):
        f = m.split(":")
        f[4] = f[4].split(".")[0]
        mods.append(":".join(f))
    p[1] = ";".join(mods)
    return "|".join(p)
