"""Component `ctx`: module-set DSL, YANG renderer, failure-inducing edits, history scripts (shared by C09 and C19).

A history is a script (see harness/api_ctx.c) sent hex-encoded in one request line `ctx history <hex>` to the
implementation harness and to the Lean model.  The harness reads the YANG texts, the model reads the abstract
descriptor that follows the text on every `M` line and the fault description that follows every step; both are
produced from the same DSL value here, so the renderer below is part of the trusted correspondence machinery."""
import copy
from vlib.proto import hexs

EXPLICIT = 0x80
PRIV_PARSED = 0x40


class Feat:
    def __init__(self, name, iff=None):
        self.name, self.iff = name, iff


class Sub:
    def __init__(self, name, feats=(), data=True):
        self.name, self.feats, self.data = name, list(feats), data
        self.cname = "cs_" + name        # its container: keeps this name when an alternative revision renames the submodule
        # (module, rev|None): the submodule imports this module under a prefix of ITS OWN (the main module imports the same module
        # under another prefix) and derives identities from its base identity — the revert of a failed load has to resolve the
        # base through the submodule's imports to unlink them (seed C17r3)
        self.idimp = None


class Mod:
    """One module of a set.  Everything that influences libyang's module-set bookkeeping is explicit."""

    def __init__(self, name, rev=None, **kw):
        self.name, self.rev = name, rev
        self.ns = kw.get("ns", "urn:" + name)
        self.feats = list(kw.get("feats", ()))
        self.subs = list(kw.get("subs", ()))
        self.imports = list(kw.get("imports", ()))        # (name, rev|None)
        self.data = kw.get("data", True)
        self.grouping = kw.get("grouping", False)
        self.typedef = kw.get("typedef", False)
        self.identity = kw.get("identity", False)
        self.idbase = kw.get("idbase")                     # import name whose identity is the base
        self.augments = list(kw.get("augments", ()))       # target import names
        self.deviations = list(kw.get("deviations", ()))   # (target import name, leaf index 0..3)
        self.lrefs = list(kw.get("lrefs", ()))             # target import names
        self.uses_td = list(kw.get("uses_td", ()))
        self.uses_grp = list(kw.get("uses_grp", ()))
        self.when = kw.get("when", False)
        self.must = kw.get("must", False)
        self.default = kw.get("default", False)
        self.extra_top = kw.get("extra_top", "")           # raw statements appended at module level (edits)
        self.extra_c = kw.get("extra_c", "")               # raw statements appended inside container c (edits)
        self.truncate = kw.get("truncate", False)          # syntax edit: drop the closing brace
        self.misspell = kw.get("misspell", False)          # syntax edit: unknown keyword
        self.extra_data = kw.get("extra_data", False)      # extra_top contains a data node
        self.extra_imports = list(kw.get("extra_imports", ()))   # imports written AFTER the regular ones (edits)
        self.first_imports = list(kw.get("first_imports", ()))   # imports written BEFORE the regular ones (edits)
        self.extra_aug = list(kw.get("extra_aug", ()))     # model-only: augment targets added by an edit (after the regular ones)
        self.extra_dev = list(kw.get("extra_dev", ()))
        self.extra_lref = list(kw.get("extra_lref", ()))
        self.faults = list(kw.get("faults", ()))           # model-only: (stage, LY_ERR) at which libyang refuses this source
        self.reg_rev = kw.get("reg_rev", False)             # revision under which the source is SERVED (import callback, P step) when it
                                                           # is not the revision the text declares; False = the declared one
        self.amend_node = dict(kw.get("amend_node", ()))   # target import name -> top-level node its augments / deviations descend
                                                           # into (default: container c); a submodule container is "cs_<sub>"

    def served(self):
        return self.rev if self.reg_rev is False else self.reg_rev

    def key(self):
        return "%s@%s" % (self.name, self.served() or "-")

    def has_data(self):
        return bool(self.data or self.extra_data or any(s.data for s in self.subs))

    def all_imports(self):
        return self.first_imports + self.imports + self.extra_imports

    # ---- YANG text -----------------------------------------------------------------------
    def text(self):
        o = ["module %s {" % self.name, "  yang-version 1.1;", "  namespace \"%s\";" % self.ns, "  prefix %s;" % self.name]
        for (n, r) in self.all_imports():
            o.append("  import %s { prefix %s;%s }" % (n, n, (" revision-date %s;" % r) if r else ""))
        for s in self.subs:
            o.append("  include %s;" % s.name)
        if getattr(self, "bad_include", False):
            o.append("  include nosuchsub;")
        if self.rev:
            o.append("  revision %s;" % self.rev)
        for f in self.feats:
            o.append("  feature %s%s" % (f.name, (" { if-feature %s; }" % f.iff) if f.iff else ";"))
        if self.identity:
            o.append("  identity idb_%s;" % self.name)
        if self.idbase:
            # several identities derived from ONE foreign base: unlinking them from the base's `derived` array (revert of a
            # failed load) then removes links that are not the last one
            for x in ("idd", "ide", "idf"):
                o.append("  identity %s_%s { base %s:idb_%s; }" % (x, self.name, self.idbase, self.idbase))
        if self.typedef:
            o.append("  typedef td { type int8 { range 1..10; } }")
        if self.grouping:
            o.append("  grouping g {")
            o.append("    leaf gl_%s { type string; }" % self.name)
            for f in self.feats:
                o.append("    leaf glf_%s_%s { if-feature %s; type string; }" % (self.name, f.name, f.name))
            o.append("  }")
        if self.data:
            o.append("  container c {")
            o.append("    leaf l { type string; }")
            for i in range(5):
                o.append("    leaf dv%d { type int8; }" % i)
            # every feature of the module guards a node, so that the compiled print shows the feature state
            for f in self.feats + [f for sub in self.subs if not sub.data for f in sub.feats]:
                o.append("    leaf lf_%s { if-feature %s; type string; }" % (f.name, f.name))
            if self.grouping:
                o.append("    uses g;")
            if self.typedef:
                o.append("    leaf lt { type td; }")
            for t in self.uses_td:
                o.append("    leaf lt_%s { type %s:td; }" % (t, t))
            for t in self.uses_grp:
                o.append("    uses %s:g;" % t)
            for t in self.lrefs:
                o.append("    leaf lr_%s { type leafref { path \"/%s:c/%s:l\"; } }" % (t, t, t))
            if self.when:
                o.append("    leaf lw { when \"../l = 'x'\"; type string; }")
            if self.must:
                o.append("    leaf lm { must \"../l != 'y'\"; type string; }")
            if self.default:
                o.append("    leaf ld { type int8; default 5; }")
            if self.identity:
                o.append("    leaf li { type identityref { base idb_%s; } }" % self.name)
            if self.extra_c:
                o.append("    " + self.extra_c)
            o.append("  }")
        for t in self.augments:
            o.append("  augment /%s:%s { leaf a_%s { type string; } }" % (t, self.amend_node.get(t, "c"), self.name))
        for (t, i) in self.deviations:
            nd = self.amend_node.get(t, "c")
            o.append("  deviation /%s:%s/%s:%s%d { deviate add { default %d; } }" % (t, nd, t, "dv" if nd == "c" else "sv", i, i + 1))
        if self.misspell:
            o.append("  lefa zz { type string; }")
        if self.extra_top:
            o.append("  " + self.extra_top)
        if not self.truncate:
            o.append("}")
        return "\n".join(o) + "\n"

    def sub_text(self, s):
        o = ["submodule %s {" % s.name, "  yang-version 1.1;", "  belongs-to %s { prefix %s; }" % (self.name, self.name)]
        if s.idimp:
            (n, r) = s.idimp
            o.append("  import %s { prefix sp%s;%s }" % (n, n, (" revision-date %s;" % r) if r else ""))
            for x in ("ids", "idt"):
                # (named after the submodule's container, which keeps its name when an alternative revision renames the submodule:
                # the compiled print of the base module lists the derived identities by name)
                o.append("  identity %s_%s { base sp%s:idb_%s; }" % (x, s.cname[3:], n, n))
        for f in s.feats:
            o.append("  feature %s%s" % (f.name, (" { if-feature %s; }" % f.iff) if f.iff else ";"))
        if s.data:
            o.append("  container %s {" % s.cname)
            o.append("    leaf ls { type string; }")
            for i in range(5):
                o.append("    leaf sv%d { type int8; }" % i)
            extra = []
            if not self.data and s is [x for x in self.subs if x.data][0]:
                # the main module has no data of its own: its features (and those of data-less submodules) are shown here
                extra = self.feats + [f for sub in self.subs if not sub.data for f in sub.feats]
            for f in s.feats + extra:
                o.append("    leaf lf_%s { if-feature %s; type string; }" % (f.name, f.name))
            o.append("  }")
        o.append("}")
        return "\n".join(o) + "\n"

    # ---- descriptor for the model ---------------------------------------------------------
    def desc(self):
        t = [self.ns, "1" if self.has_data() else "0", "1" if self.grouping else "0"]
        t.append("F%d" % len(self.feats))
        for f in self.feats:
            t += [f.name, f.iff or "-"]
        t.append("U%d" % len(self.subs))
        for s in self.subs:
            t.append("N%d" % len(s.feats))
            for f in s.feats:
                t += [f.name, f.iff or "-"]
        imps = self.all_imports()
        t.append("I%d" % len(imps))
        for (n, r) in imps:
            t += [n, r or "-"]
        aug = list(self.augments) + self.extra_aug
        dev = [x[0] for x in self.deviations] + self.extra_dev
        lr = list(self.lrefs) + self.extra_lref
        t.append("A%d" % len(aug)); t += aug
        t.append("V%d" % len(dev)); t += dev
        t.append("R%d" % len(lr)); t += lr
        t.append("G%d" % len(self.uses_grp)); t += list(self.uses_grp)
        t.append("B%d" % (1 if self.idbase else 0)); t += ([self.idbase] if self.idbase else [])
        fl = [x for x in self.faults if x[0] != "amend"]
        am = [x for x in self.faults if x[0] == "amend"]
        t.append("X%d" % len(fl))
        for x in fl:
            t += [x[0], str(x[1])]
        t.append("Y%d" % len(am))                       # (amend, rc, target import): its compilation fails
        for x in am:
            t += [x[2], str(x[1])]
        # submodule names (yang-library `submodule` list), top-level data nodes of the compiled module, and per augment / deviation
        # statement the (import, top-level node) it descends into
        t.append("S%d" % len(self.subs)); t += [s.name for s in self.subs]
        nodes = self.top_nodes()
        t.append("T%d" % len(nodes)); t += nodes
        t.append("Q%d" % len(aug))
        for n, x in enumerate(aug): t += [x, self.amend_node.get(x, "c") if n < len(self.augments) else "c"]
        t.append("D%d" % len(dev))
        for n, x in enumerate(dev): t += [x, self.amend_node.get(x, "c") if n < len(self.deviations) else "c"]
        if self.reg_rev is not False:
            t += ["K1", self.rev or "-"]
        return " ".join(t)

    def top_nodes(self):
        """names of the top-level data nodes in the order of the compiled module: main module, then submodules"""
        return (["c"] if self.data else []) + [s.cname for s in self.subs if s.data]


def feats_tok(f):
    if f is None: return "~"
    if f == []: return "-"
    return ",".join(f)


class History:
    """Context options + a script of repository changes and API calls."""

    def __init__(self, flags=0, touch=False):
        self.flags, self.touch = flags, touch
        self.steps = []         # (kind, args)   kind M = repository source (args: Mod)
        self.meta = {}

    def add(self, m):
        """put (or replace) a source in the repository served by the import callback"""
        self.steps.append(("M", m))
        return m

    def parse(self, m, feats=None): self.steps.append(("P", [m.name, m.served() or "-", feats_tok(feats)]))
    def load(self, name, rev=None, feats=None): self.steps.append(("L", [name, rev or "-", feats_tok(feats)]))
    def impl(self, name, rev=None, feats=None): self.steps.append(("I", [name, rev or "-", feats_tok(feats)]))
    def compile(self): self.steps.append(("C", []))
    def setopt(self, bits): self.steps.append(("O", ["+", str(bits)]))
    def unsetopt(self, bits): self.steps.append(("O", ["-", str(bits)]))
    def data(self, modname): self.steps.append(("D", [modname]))

    def calls(self):
        """the steps that produce a reply token"""
        return [st for st in self.steps if st[0] != "M"]

    def final_repo(self):
        """the sources as they are after the last M step: key -> Mod"""
        r = {}
        for (k, a) in self.steps:
            if k == "M":
                r[a.key()] = a
        return r

    def write_files(self, d):
        """the repository as a search directory (for ly_ctx_new_ylmem)"""
        import os
        os.makedirs(d, exist_ok=True)
        for f in os.listdir(d):
            os.unlink(os.path.join(d, f))
        for m in self.final_repo().values():
            open(os.path.join(d, "%s%s.yang" % (m.name, ("@" + m.served()) if m.served() else "")), "w").write(m.text())
            for sub in m.subs:
                open(os.path.join(d, "%s.yang" % sub.name), "w").write(m.sub_text(sub))
        self.wdir = d

    def yl_line(self, i):
        return "%s ctx ylhistory %s" % (i, hexs(self.spec()))

    def spec(self):
        o = ["F %d" % self.flags, "T %d" % (1 if self.touch else 0)]
        if getattr(self, "wdir", None):
            o.append("W %s" % self.wdir)
        for (k, a) in self.steps:
            if k == "M":
                o.append("M %s %s %s %s" % (a.name, a.served() or "-", hexs(a.text()), a.desc()))
                for sub in a.subs:
                    o.append("S %s - %s" % (sub.name, hexs(a.sub_text(sub))))
            else:
                o.append(" ".join([k] + a))
        return "\n".join(o) + "\n"

    def line(self, i):
        return "%s ctx history %s" % (i, hexs(self.spec()))

    def without_call(self, k):
        """the same history without its k-th API call"""
        h = copy.copy(self)
        n = -1
        h.steps = []
        for st in self.steps:
            if st[0] != "M":
                n += 1
                if n == k:
                    continue
            h.steps.append(st)
        return h

    def describe(self):
        return [(k, a.key() + (" faults=%s" % a.faults if a.faults else "")) if k == "M" else (k, a) for (k, a) in self.steps]


# ---- reply parsing ----------------------------------------------------------------------------

class Snap:
    def __init__(self, tok):
        self.raw = tok
        if tok.startswith("D"):
            self.kind, self.rc = "D", int(tok[1:])
            return
        self.kind = "S"
        p = tok.split("|")
        self.rc = int(p[0])
        self.mods = []
        for m in (p[1].split(";") if p[1] else []):
            f = m.split(":")
            # name@rev : I<b> : L<x> : feats : c<class>.<fnv>
            cls = f[4][1:]
            self.mods.append({"key": f[0], "impl": f[1] == "I1", "latest": int(f[2][1:], 16), "feats": f[3],
                              "cls": cls.split(".")[0], "fnv": cls.split(".")[1] if "." in cls else cls,
                              "augby": f[5][1:] if len(f) > 5 else "-", "devby": f[6][1:] if len(f) > 6 else "-",
                              "nodes": f[7][1:] if len(f) > 7 else "-"})
        self.hash = p[2][2:]
        self.cc = int(p[3][3:])
        self.data = p[4][2:]

    def obs(self, latest_bit=True, fnv=True):
        """what C09 calls the observable context: modules, revisions, implemented, (latest), features, compiled schema, hash"""
        return (tuple((m["key"], m["impl"], (m["latest"] & 1) if latest_bit else None, m["feats"], m["fnv"] if fnv else m["cls"]) for m in self.mods), self.hash)


def stale_compiled(tok):
    """does the snapshot show an implemented module whose compiled top-level nodes name an augmenting / deviating module that is
    not (any more) in its augmented_by / deviated_by array?  (F380: compiled with a module that the revert removed)"""
    if not tok or tok[0] in "DXY" or "|" not in tok:
        return False
    try:
        s = Snap(strip_x(tok))
    except Exception:
        return False
    for m in s.mods:
        if m["nodes"] in ("-", ""):
            continue
        ab = {x.split("@")[0] for x in m["augby"].split(",")} if m["augby"] != "-" else set()
        db = {x.split("@")[0] for x in m["devby"].split(",")} if m["devby"] != "-" else set()
        for n in m["nodes"].split("+"):
            inner = n[n.index("(") + 1:-1]
            a, d = inner.split("/")
            if any(x and x not in ab for x in a.split(",")) or any(x and x not in db for x in d.split(",")):
                return True
    return False


def model_broken(tok):
    """number of half-parsed modules the model sees in the context (F134); model-only field"""
    return int(tok.split("|x=")[1]) if "|x=" in tok else 0


def strip_x(tok):
    return tok.split("|x=")[0]


def strip_fnv(tok):
    """model replies carry no text hash: drop `.xxxxxxxx` after the class index"""
    if tok.startswith("D") or tok.startswith("X"):
        return tok
    out = []
    p = tok.split("|")
    mods = []
    for m in (p[1].split(";") if p[1] else []):
        f = m.split(":")
        f[4] = f[4].split(".")[0]
        mods.append(":".join(f))
    p[1] = ";".join(mods)
    return "|".join(p)


# ---- failure-inducing edits --------------------------------------------------------------------
# kind -> what is changed; every edit returns (edited module, fault for the model | None, kind).  `fault` names the
# processing stage at which libyang detects the error (syntax / late = rest of lys_parse_in / impl = augment-deviation
# target module / compile = lys_compile of the named module / unres = leafref-when-must-default checks of the dep set)
# and the LY_ERR it returns; failures the model computes itself (imports, features, namespaces) carry no fault.

EDIT_KINDS = ["truncate", "misspell", "import-last", "import-first", "include", "typedef", "typedef-imp", "grouping", "identity",
              "augment-node", "augment-prefix", "deviation-node", "leafref-local", "leafref-imp", "when", "must", "default",
              "feature-iff", "dup-node", "list-key", "ns-clash"]


def node_stmt(m, stmt):
    """put a data statement into container c, or at top level when the module has no container"""
    if m.data:
        m.extra_c = (m.extra_c + " " + stmt).strip()
    else:
        m.extra_top = (m.extra_top + " " + stmt).strip()
        m.extra_data = True


def apply_edit(mod, kind, target=None, clash_ns=None):
    """target: name of an imported module with data (for the *-imp / *-node kinds).  Returns the edited copy; its
    `faults` say at which stage and with which LY_ERR libyang refuses it (nothing for failures the model computes itself)."""
    m = copy.deepcopy(mod)
    f = None
    if kind == "truncate":
        m.truncate = True; f = ("syntax", 7)
    elif kind == "misspell":
        m.misspell = True; f = ("syntax", 7)
    elif kind == "import-last":
        m.extra_imports.append(("nosuch", None))
    elif kind == "import-first":
        m.first_imports.append(("nosuch", None))
    elif kind == "include":
        m.bad_include = True; f = ("late", 7)
    elif kind == "typedef":
        node_stmt(m, "leaf bt { type nosuchtd; }"); f = ("compile", 7)
    elif kind == "typedef-imp":
        node_stmt(m, "leaf bt { type %s:nosuchtd; }" % target); f = ("compile", 7)
    elif kind == "grouping":
        node_stmt(m, "uses nosuchgrp;"); f = ("compile", 7)
    elif kind == "identity":
        m.extra_top += " identity badid { base nosuchid; }"; f = ("late", 7)
    elif kind == "augment-node":
        m.extra_top += " augment /%s:c/%s:nosuch { leaf ba_%s { type string; } }" % (target, target, m.name)
        m.extra_aug.append(target); f = ("amend", 5, target)
    elif kind == "augment-prefix":
        m.extra_top += " augment /nosuchpfx:c { leaf ba_%s { type string; } }" % m.name
        m.extra_aug.append("nosuchpfx")          # the statement exists (dependency-set shape) although its target does not resolve
        f = ("impl", 7)
    elif kind == "deviation-node":
        m.extra_top += " deviation /%s:c/%s:nosuch { deviate not-supported; }" % (target, target)
        m.extra_dev.append(target); f = ("amend", 5, target)
    elif kind == "leafref-local":
        node_stmt(m, "leaf blr { type leafref { path \"../nosuch\"; } }"); f = ("unres", 7)
    elif kind == "leafref-imp":
        node_stmt(m, "leaf blr { type leafref { path \"/%s:c/%s:nosuch\"; } }" % (target, target))
        m.extra_lref.append(target); f = ("unres", 7)
    elif kind == "when":
        node_stmt(m, "leaf bw { when \"count(\"; type string; }"); f = ("compile", 7)
    elif kind == "must":
        node_stmt(m, "leaf bm { must \"nosuchfunc()\"; type string; }"); f = ("compile", 7)
    elif kind == "default":
        node_stmt(m, "leaf bd { type int8; default 300; }"); f = ("unres", 7)
    elif kind == "feature-iff":
        m.feats.append(Feat("badf", "nosuchf")); f = ("late", 7)
    elif kind == "dup-node":
        node_stmt(m, "leaf dup { type string; } leaf dup { type string; }"); f = ("compile", 4)
    elif kind == "list-key":
        node_stmt(m, "list bl { key k; leaf z { type string; } }"); f = ("compile", 7)
    elif kind == "ns-clash":
        m.ns = clash_ns
    else:
        raise ValueError(kind)
    if f:
        m.faults.append(f)
    m.edit = kind
    return m


# ---- generators ------------------------------------------------------------------------------------

NAMES = ["maa", "mbb", "mcc", "mdd"]
REVS = [None, None, "2019-01-01", "2020-02-02"]


def gen_feats(rng, prefix="f", extra_targets=()):
    k = rng.choice([0, 0, 1, 2, 2, 3])
    out = []
    for j in range(k):
        iff = None
        pool = [x.name for x in out] + list(extra_targets)
        if pool and rng.random() < 0.55:
            iff = rng.choice(pool)
        out.append(Feat("%s%d" % (prefix, j + 1), iff))
    return out


def gen_set(rng, n=None):
    """1-4 modules, module i may import modules j < i and use / amend what they define"""
    n = n or rng.choice([1, 2, 2, 3, 3, 3, 4])
    mods = []
    for i in range(n):
        name = NAMES[i]
        m = Mod(name, rng.choice(REVS))
        m.feats = gen_feats(rng)
        if rng.random() < 0.25:
            if rng.random() < 0.7:
                sf = gen_feats(rng, "s", [f.name for f in m.feats])    # submodule features may depend on main-module ones
            else:
                sf = gen_feats(rng, "s")
                if sf and m.feats:
                    m.feats[-1].iff = sf[0].name      # or a main-module feature on a submodule feature (never both: no cycles)
            m.subs = [Sub(name + "sub", sf, rng.random() < 0.7)]
        m.data = rng.random() < 0.8
        m.grouping = rng.random() < 0.4
        m.typedef = rng.random() < 0.4
        m.identity = rng.random() < 0.3
        for j in range(i):
            if rng.random() < 0.6:
                t = mods[j]
                m.imports.append((t.name, t.rev if (t.rev and rng.random() < 0.5) else None))
                if t.data:
                    if rng.random() < 0.35: m.augments.append(t.name)
                    if rng.random() < 0.25: m.deviations.append((t.name, i))
                    if t.subs and t.subs[0].data and rng.random() < 0.4:
                        m.amend_node[t.name] = t.subs[0].cname
                    if m.data and rng.random() < 0.35: m.lrefs.append(t.name)
                if m.data and t.typedef and rng.random() < 0.4: m.uses_td.append(t.name)
                if m.data and t.grouping and rng.random() < 0.4: m.uses_grp.append(t.name)
                if t.identity and not m.idbase and rng.random() < 0.4: m.idbase = t.name
        if m.subs and m.idbase and rng.random() < 0.7:
            m.subs[0].idimp = [im for im in m.imports if im[0] == m.idbase][0]
        if m.data:
            m.when = rng.random() < 0.3
            m.must = rng.random() < 0.3
            m.default = rng.random() < 0.3
        mods.append(m)
    return mods


def gen_featarg(rng, m, bad=False):
    """a features argument for module m; bad=True: one that must be refused (unknown name or broken dependency)"""
    allf = list(m.feats) + [f for s in m.subs for f in s.feats]
    names = [f.name for f in allf]
    if bad:
        dep = [f for f in allf if f.iff]
        if dep and rng.random() < 0.7:
            f = rng.choice(dep)
            return [f.name]                      # enabled without what it depends on
        return (names[:1] if names else []) + ["nosuchfeat"]
    r = rng.random()
    if r < 0.3 or not names: return None
    if r < 0.4: return []
    if r < 0.6: return ["*"]
    # a dependency-closed subset
    want = set(n for n in names if rng.random() < 0.5)
    ch = True
    while ch:
        ch = False
        for f in allf:
            if f.name in want and f.iff and f.iff not in want:
                want.add(f.iff); ch = True
    return [n for n in names if n in want] or []


def applicable_edits(m, mods):
    """(kind, target) pairs that make sense for module m"""
    out = [("truncate", None), ("misspell", None), ("import-last", None), ("import-first", None), ("include", None), ("typedef", None),
           ("grouping", None), ("identity", None), ("augment-prefix", None), ("leafref-local", None), ("when", None), ("must", None),
           ("default", None), ("feature-iff", None), ("dup-node", None), ("list-key", None)]
    byname = {x.name: x for x in mods}
    for (t, r) in m.imports:
        out.append(("typedef-imp", t))
        if byname[t].data:
            out += [("augment-node", t), ("deviation-node", t), ("leafref-imp", t)]
    return out


def gen_history(rng, mods=None):
    mods = mods or gen_set(rng)
    h = History(EXPLICIT if rng.random() < 0.3 else 0)
    for m in mods:
        h.add(m)
    # an alternative revision of one module in the repository
    alt = None
    if rng.random() < 0.35:
        o = rng.choice(mods)
        alt = copy.deepcopy(o)
        alt.rev = rng.choice(["2018-08-08", "2021-03-03"]) if o.rev else "2021-03-03"
        if rng.random() < 0.5:
            alt.feats = alt.feats + [Feat("fx")]
        for sub in alt.subs: sub.name += "x"       # submodule sources are served by name
        h.add(alt)
    pool = mods + ([alt] if alt else [])
    good = Mod("mgood", None, imports=[(mods[0].name, None)], augments=[mods[0].name] if mods[0].data else [], feats=[Feat("g1")])
    h.add(good)
    kinds = []

    def ok_step(pre=True):
        r = rng.random()
        m = rng.choice(pool)
        if r < 0.45:
            h.parse(m, gen_featarg(rng, m)); kinds.append("parse")
        elif r < 0.6:
            h.load(m.name, m.rev if rng.random() < 0.5 else None, gen_featarg(rng, m)); kinds.append("load")
        elif r < 0.78:
            h.impl(m.name, m.rev, gen_featarg(rng, m)); kinds.append("impl")
        elif r < 0.86:
            h.compile(); kinds.append("compile")
        elif r < 0.9:
            (h.setopt if rng.random() < 0.5 else h.unsetopt)(EXPLICIT); kinds.append("opt-explicit")
        elif r < 0.93 and pre:
            # (only before the failing step: the model counts the recompilation of the internal modules as a block)
            h.setopt(PRIV_PARSED); kinds.append("opt-priv")
        else:
            dm = [x for x in pool if x.data]
            if dm:
                h.data(rng.choice(dm).name); kinds.append("data")

    def bad_step():
        r = rng.random()
        m = rng.choice(pool)
        if r < 0.55:
            kind, tgt = rng.choice(applicable_edits(m, mods))
            clash = rng.choice(mods).ns
            bad = apply_edit(m, kind, tgt, clash)
            v = rng.random()
            if v < 0.3:
                bad.rev = "2022-09-09"                                   # a newer revision that does not load
                for sub in bad.subs: sub.name += "y"
            elif v < 0.45:
                bad.name = "mzz"; bad.ns = clash if kind == "ns-clash" else "urn:mzz"
                bad.deviations = [(t, 4) for (t, _) in bad.deviations]   # a clone deviates a leaf of its own
                for sub in bad.subs: sub.name = "mzzsub"
            # else: the edited text replaces the module's source
            h.add(bad)
            if rng.random() < 0.25:
                # the broken module is reached through an import of a correct one
                top = Mod("mtop", None, imports=[(bad.name, bad.rev if rng.random() < 0.5 else None)])
                h.add(top)
                h.parse(top, None)
                kinds.append("bad-import:" + kind)
            else:
                h.parse(bad, gen_featarg(rng, bad))
                kinds.append("bad-parse:" + kind)
            if bad.key() == m.key() and rng.random() < 0.6:
                h.add(m)                                                 # the edit is taken back
        elif r < 0.65:
            if rng.random() < 0.5: h.load("nosuch", None, None)
            else: h.load(m.name, "1999-09-09", None)
            kinds.append("bad-load")
        elif r < 0.9:
            fa = gen_featarg(rng, m, bad=True)
            v = rng.random()
            if v < 0.5: h.impl(m.name, m.rev, fa)
            elif v < 0.75: h.load(m.name, m.rev, fa)
            else: h.parse(m, fa)
            kinds.append("bad-features")
        else:
            if alt:
                h.impl(alt.name, alt.rev, None)
            else:
                h.impl("nosuch", None, None)
            kinds.append("bad-impl-rev")

    for _ in range(rng.randint(0, 4)):
        ok_step()
    if rng.random() < 0.5:
        dm = [x for x in pool if x.data]
        if dm: h.data(rng.choice(dm).name)
    bad_step()
    if h.flags & EXPLICIT or rng.random() < 0.2:
        h.compile(); kinds.append("compile")
    # a correct module afterwards
    h.parse(good, rng.choice([None, ["g1"]])); kinds.append("good")
    if h.flags & EXPLICIT:
        h.compile()
    for _ in range(rng.randint(0, 2)):
        ok_step(False)
    h.meta = {"kinds": kinds}
    return h


def gen_amend_history(rng):
    """Directed family: augment / deviation TARGETS that are in the context as imports only (not implemented) and amend each
    other; a module that amends several of them — in every order — fails (early or late); afterwards a correct module implements
    a target.  The later-load law compares the end of the history with the same history without the failed call (stale
    augmented_by / deviated_by links, implemented flags, compiled content of the targets)."""
    t = Mod("maa", rng.choice(REVS), feats=gen_feats(rng), data=True, typedef=rng.random() < 0.3)
    q = Mod("mbb", rng.choice(REVS), imports=[("maa", None)], data=True, feats=gen_feats(rng))
    if rng.random() < 0.75: q.augments.append("maa")
    if rng.random() < 0.5 or not q.augments: q.deviations.append(("maa", 1))
    targets = [t, q]
    if rng.random() < 0.4:
        r = Mod("mcc", None, imports=[("maa", None), ("mbb", None)], data=True)
        if rng.random() < 0.6: r.augments.append(rng.choice(["maa", "mbb"]))
        if rng.random() < 0.4: r.deviations.append((rng.choice(["maa", "mbb"]), 2))
        targets.append(r)
    holder = Mod("mdd", None, imports=[(x.name, None) for x in targets], data=rng.random() < 0.5)
    names = [x.name for x in targets]
    order = names[:]
    rng.shuffle(order)
    k = rng.randint(1, len(order))
    bad0 = Mod("mee", None, imports=[(n, None) for n in rng.sample(names, len(names))], data=rng.random() < 0.8)
    bad0.augments = order[:k]
    if rng.random() < 0.4:
        bad0.deviations = [(n, 3) for n in rng.sample(names, rng.randint(1, len(names)))]
    if bad0.data and rng.random() < 0.3:
        bad0.lrefs = [rng.choice(names)]
    mods = targets + [holder, bad0]
    kind, tgt = rng.choice(applicable_edits(bad0, mods))
    bad = apply_edit(bad0, kind, tgt, rng.choice(targets).ns)
    good = Mod("mgood", None, imports=[("maa", None)], augments=["maa"], feats=[Feat("g1")])
    h = History(EXPLICIT if rng.random() < 0.2 else 0)
    for m in targets + [holder, bad, good]:
        h.add(m)
    kinds = ["amend-order", "bad-parse:" + kind]
    if rng.random() < 0.8:
        h.parse(holder, None)                      # the targets come in as imports only
    for x in targets:
        if rng.random() < 0.15:
            h.parse(x, gen_featarg(rng, x)); kinds.append("parse")
    if rng.random() < 0.3:
        h.data("maa")
    if h.flags & EXPLICIT and rng.random() < 0.7:
        h.compile()
    h.parse(bad, gen_featarg(rng, bad))
    if h.flags & EXPLICIT:
        h.compile(); kinds.append("compile")
    h.parse(good, rng.choice([None, ["g1"]])); kinds.append("good")
    if rng.random() < 0.4:
        x = rng.choice(targets)
        h.impl(x.name, x.rev, None); kinds.append("impl")
    if h.flags & EXPLICIT:
        h.compile()
    h.meta = {"kinds": kinds}
    return h


def gen_latest_window_history(rng):
    """Directed family for the window of lys_parse_in() between the latest-revision decision and the insertion of the module into
    unres->creating: a NEWER revision of a loaded module that is refused there — (a) namespace collision with another module of
    the same revision, (b) the import callback serves a text that declares another revision than the one asked for
    (lysp_load_module_check), (c) the module is served for an import without revision-date but is not newer —; the previous
    latest revision must keep LYS_MOD_LATEST_REV / LYS_MOD_LATEST_SEARCHDIRS (snapshot field L, ly_ctx_get_module_latest through a
    later dateless import)."""
    oldrev = rng.choice([None, "2019-01-01", "2019-01-01"])
    x1 = Mod("maa", oldrev, data=rng.random() < 0.8, feats=gen_feats(rng), typedef=rng.random() < 0.3)
    h = History(EXPLICIT if rng.random() < 0.2 else 0)
    h.add(x1)
    user = Mod("mcc", None, imports=[("maa", None)], data=rng.random() < 0.5)
    h.add(user)
    kinds = ["latest-window"]
    if rng.random() < 0.5:
        h.parse(x1, gen_featarg(rng, x1))
    else:
        h.parse(user, None)                       # maa in the context as an import only
    if h.flags & EXPLICIT and rng.random() < 0.6:
        h.compile()
    v = rng.random()
    newrev = rng.choice(["2022-09-09", "2021-03-03"])
    if v < 0.45:
        # (a) two modules with one namespace and one revision
        y = Mod("mbb", newrev, data=rng.random() < 0.5)
        h.add(y); h.parse(y, None)
        bad = copy.deepcopy(x1); bad.rev = newrev; bad.ns = y.ns
        for sub in bad.subs: sub.name += "y"
        h.add(bad)
        if rng.random() < 0.6:
            h.parse(bad, gen_featarg(rng, bad)); kinds.append("bad-parse:ns-clash")
        else:
            top = Mod("mtop", None, imports=[("maa", newrev if rng.random() < 0.5 else None)])
            h.add(top); h.parse(top, None); kinds.append("bad-import:ns-clash")
    elif v < 0.85:
        # (b) served under one revision, declaring another (newer than what is loaded)
        asked = "2020-05-05"
        bad = copy.deepcopy(x1); bad.rev = newrev; bad.reg_rev = asked
        h.add(bad)
        r = rng.random()
        if r < 0.6:
            top = Mod("mtop", None, imports=[("maa", asked)])
            h.add(top); h.parse(top, None); kinds.append("bad-import:wrong-revision")
        elif r < 0.8:
            h.load("maa", asked, None); kinds.append("bad-load:wrong-revision")
        else:
            h.parse(bad, None); kinds.append("parse")          # lys_parse itself has no check: the module loads as what it declares
    else:
        # (c) dateless import, the callback has nothing newer than what is loaded
        top = Mod("mtop", None, imports=[("maa", None)], augments=["maa"] if x1.data and rng.random() < 0.5 else [])
        h.add(top); h.parse(top, None); kinds.append("parse")
    if h.flags & EXPLICIT:
        h.compile(); kinds.append("compile")
    # afterwards: who is the latest revision?
    good = Mod("mgood", None, imports=[("maa", None)], augments=["maa"] if x1.data else [], feats=[Feat("g1")])
    h.add(good)
    h.parse(good, rng.choice([None, ["g1"]])); kinds.append("good")
    if rng.random() < 0.4:
        h.load("maa", None, None); kinds.append("load")
    if h.flags & EXPLICIT:
        h.compile()
    h.meta = {"kinds": kinds}
    return h


def gen_amend2_history(rng):
    """Directed family for `augmented_by` / `deviated_by` and the compiled top-level nodes: two targets that are IMPLEMENTED when the
    failing call starts — one parsed directly, the other one in the context as an import only and implemented later (by
    lys_set_implemented, or as the augment target of a correct module) —; a module that augments AND deviates both of them (in
    either order) fails at any stage; targets without revision, features that live in submodules, an earlier correct amender so
    that the arrays are not empty before the call."""
    sf = [Feat("s1"), Feat("s2", "s1")] if rng.random() < 0.6 else [Feat("s1")]
    t1 = Mod("maa", rng.choice([None, None, "2019-01-01"]), data=True, subs=[Sub("maasub", sf, rng.random() < 0.5)],
             feats=gen_feats(rng) if rng.random() < 0.4 else [])
    t2 = Mod("mbb", rng.choice([None, None, "2020-02-02"]), data=True, feats=gen_feats(rng),
             imports=[("maa", None)] if rng.random() < 0.4 else [])
    if t2.imports and rng.random() < 0.5:
        t2.augments.append("maa")
    holder = Mod("mdd", None, imports=[("maa", None), ("mbb", None)], data=rng.random() < 0.5)
    early = Mod("mcc", None, imports=[("maa", None), ("mbb", None)], data=rng.random() < 0.6)
    for n in ("maa", "mbb"):
        if rng.random() < 0.6: early.augments.append(n)
        if rng.random() < 0.5: early.deviations.append((n, 2))
    bad0 = Mod("mee", None, imports=[("mbb", None), ("maa", None)] if rng.random() < 0.5 else [("maa", None), ("mbb", None)],
               data=rng.random() < 0.7)
    bad0.augments = rng.sample(["maa", "mbb"], 2)
    bad0.deviations = [(n, 3) for n in rng.sample(["maa", "mbb"], 2)]
    if t1.subs[0].data:
        # not always container c: the submodule's container of maa as the target node
        for x in (early, bad0):
            if rng.random() < 0.5:
                x.amend_node["maa"] = "cs_maasub"
    if bad0.data and rng.random() < 0.3:
        bad0.lrefs = [rng.choice(["maa", "mbb"])]
    mods = [t1, t2, holder, early, bad0]
    kind, tgt = rng.choice(applicable_edits(bad0, mods))
    bad = apply_edit(bad0, kind, tgt, rng.choice([t1, t2]).ns)
    good = Mod("mgood", None, imports=[("maa", None)], augments=["maa"], feats=[Feat("g1")])
    h = History(EXPLICIT if rng.random() < 0.2 else 0)
    for m in [t1, t2, holder, early, bad, good]:
        h.add(m)
    kinds = ["amend-two-targets", "bad-parse:" + kind]
    order = rng.random()
    if order < 0.5:
        h.parse(t1, gen_featarg(rng, t1)); h.parse(holder, None)          # maa implemented, mbb import only
        late = t2
    else:
        h.parse(holder, None); h.parse(t2, gen_featarg(rng, t2))          # both imports only, then mbb implemented
        late = t1
    if rng.random() < 0.5:
        h.impl(late.name, late.rev, gen_featarg(rng, late)); kinds.append("impl")
        if rng.random() < 0.6:
            h.parse(early, None); kinds.append("parse")
    else:
        early.augments = [late.name] + [x for x in early.augments if x != late.name]      # implements `late` as its augment target
        h.add(early)
        h.parse(early, None); kinds.append("parse")
        if rng.random() < 0.5:
            other = t1 if late is t2 else t2
            h.impl(other.name, other.rev, None)
    if h.flags & EXPLICIT:
        h.compile()
    if rng.random() < 0.4:
        h.data(rng.choice(["maa", "mbb"]))
    h.parse(bad, gen_featarg(rng, bad))
    if h.flags & EXPLICIT:
        h.compile(); kinds.append("compile")
    h.parse(good, rng.choice([None, ["g1"]])); kinds.append("good")
    if rng.random() < 0.3:
        h.add(bad0)                                                         # the edit is taken back: the module loads
        h.parse(bad0, None); kinds.append("parse")
    if h.flags & EXPLICIT:
        h.compile()
    h.meta = {"kinds": kinds}
    return h


def gen_yl_dev_history(rng):
    """Directed family for the yang-library lists: modules without revision (and an alternative dated revision among the sources
    for some), features that live in submodules only, `deviation` lists with two entries whose order depends on the history,
    import-only modules with submodules."""
    a = Mod("maa", rng.choice([None, None, "2019-01-01"]), data=True,
            subs=[Sub("maasub", [Feat("s1")], rng.random() < 0.5), Sub("maasub2", [Feat("t1"), Feat("t2", "t1")], False)])
    b = Mod("mbb", rng.choice([None, "2020-02-02"]), imports=[("maa", a.rev if (a.rev and rng.random() < 0.5) else None)], data=True,
            deviations=[("maa", 1)], augments=["maa"] if rng.random() < 0.5 else [], feats=gen_feats(rng))
    c = Mod("mcc", None, imports=[("maa", None), ("mbb", None)], data=rng.random() < 0.7, deviations=[("maa", 2), ("mbb", 2)],
            subs=[Sub("mccsub", gen_feats(rng, "u"), False)] if rng.random() < 0.5 else [])
    d = Mod("mdd", rng.choice([None, "2019-01-01"]), imports=[("mcc", None)] if rng.random() < 0.5 else [("maa", None)],
            subs=[Sub("mddsub", [Feat("v1")], True)])
    if a.subs[0].data:
        for x in (b, c):
            if rng.random() < 0.5:
                x.amend_node["maa"] = "cs_maasub"
    mods = [a, b, c, d]
    h = History(EXPLICIT if rng.random() < 0.2 else 0)
    for m in mods:
        h.add(m)
    if rng.random() < 0.25:
        o = rng.choice([a, b])
        alt = copy.deepcopy(o)
        alt.rev = "2021-03-03"
        for sub in alt.subs: sub.name += "x"
        h.add(alt)
    kinds = ["yl-lists"]
    order = rng.sample(mods, rng.randint(2, 4))
    for m in order:
        r = rng.random()
        if r < 0.6:
            h.parse(m, gen_featarg(rng, m)); kinds.append("parse")
        else:
            h.load(m.name, m.rev, gen_featarg(rng, m)); kinds.append("load")
    for _ in range(rng.randint(0, 2)):
        m = rng.choice(mods)
        h.impl(m.name, m.rev, gen_featarg(rng, m)); kinds.append("impl")
    if h.flags & EXPLICIT:
        h.compile()
    h.meta = {"kinds": kinds}
    return h


def gen_yl_history(rng, mods=None, with_alt=True):
    """histories of successful (and a few refused) calls over unchanged sources: what a yang-library description is about"""
    mods = mods or gen_set(rng)
    h = History(EXPLICIT if rng.random() < 0.2 else 0)
    for m in mods:
        h.add(m)
    alt = None
    if with_alt and rng.random() < 0.3:
        o = rng.choice(mods)
        alt = copy.deepcopy(o)
        alt.rev = rng.choice(["2018-08-08", "2021-03-03"]) if o.rev else "2021-03-03"
        if rng.random() < 0.5:
            alt.feats = alt.feats + [Feat("fx")]
        for sub in alt.subs: sub.name += "x"
        h.add(alt)
    pool = mods + ([alt] if alt else [])
    kinds = []
    for _ in range(rng.randint(1, 5)):
        r = rng.random()
        m = rng.choice(pool)
        if r < 0.45:
            h.parse(m, gen_featarg(rng, m)); kinds.append("parse")
        elif r < 0.65:
            h.load(m.name, m.rev if rng.random() < 0.5 else None, gen_featarg(rng, m)); kinds.append("load")
        elif r < 0.9:
            h.impl(m.name, m.rev, gen_featarg(rng, m)); kinds.append("impl")
        elif r < 0.95:
            h.compile(); kinds.append("compile")
        else:
            (h.setopt if rng.random() < 0.5 else h.unsetopt)(EXPLICIT); kinds.append("opt-explicit")
    if h.flags & EXPLICIT or "opt-explicit" in kinds:
        h.compile()
    h.meta = {"kinds": kinds}
    return h


# ---- witnesses: the module sets of lean/LyModel/Ctx/Examples.lean, as real YANG ---------------------------------

def W_A(): return Mod("aaa", None, feats=[Feat("f1"), Feat("f2", "f1")])
def W_A19(): return Mod("aaa", "2019-01-01", feats=[Feat("f1")])
def W_A20(): return Mod("aaa", "2020-01-01", feats=[Feat("f1")])
def W_A20late(): return apply_edit(W_A20(), "identity")
def W_Bbad(): return apply_edit(Mod("bbb", None, imports=[("aaa", None)], augments=["aaa"]), "default")
def W_Bsyntax(): return apply_edit(Mod("bbb"), "truncate")
def W_X(): return Mod("xxx", None, imports=[("aaa", "2019-01-01")])
def W_C(): return Mod("ccc", None, imports=[("aaa", None)], augments=["aaa"])
def W_Top(): return Mod("top", None, imports=[("aaa", None)])
def W_B2(): return Mod("bbb", None, feats=[Feat("g1")])
def W_B2new(): return Mod("bbb", "2021-03-03", feats=[Feat("g1")])


def witnesses():
    """name -> (finding id, History, index of the call that shows the defect)"""
    w = {}
    h = History(); a = h.add(W_A()); h.parse(a); h.impl("aaa", None, ["f2"]); w["F4"] = ("F4", h, 1)
    h = History(); a = h.add(W_A()); t = h.add(W_Top()); h.parse(t); h.impl("aaa", None, ["f2"]); w["F4-imported"] = ("F4", h, 1)
    h = History(); a = h.add(W_A()); h.parse(a); h.load("aaa", None, ["f2"]); w["F4-load"] = ("F4", h, 1)
    h = History(EXPLICIT); a = h.add(W_A()); b = h.add(W_Bsyntax()); h.parse(a); h.parse(b); w["F131"] = ("F131", h, 1)
    h = History(); a = h.add(W_A19()); h.parse(a); b = h.add(W_A20late()); h.parse(b); w["F130"] = ("F130", h, 1)
    h = History(); a = h.add(W_A()); h.parse(a); h.data("aaa"); b = h.add(W_Bbad()); h.parse(b); w["F24"] = ("F24", h, 2)
    h = History(touch=True); a = h.add(W_A()); h.parse(a); h.data("aaa"); b = h.add(W_Bbad()); h.parse(b); w["F24-touch"] = ("F24", h, 2)
    h = History(); h.add(W_A19()); x = h.add(W_X()); h.parse(x); b = h.add(W_Bbad()); h.parse(b)
    h.add(W_A20()); h.load("aaa", "2020-01-01"); c = h.add(W_C()); h.parse(c); w["F132"] = ("F132", h, 1)
    h = History(); h.add(W_A19()); x = h.add(W_X()); h.parse(x); h.add(W_A20late()); t = h.add(W_Top()); h.parse(t)
    w["F134"] = ("F134", h, 1)
    bad = apply_edit(W_A20(), "include")
    h = History(); h.add(W_A19()); x = h.add(W_X()); h.parse(x); h.add(bad); t = h.add(W_Top()); h.parse(t)
    w["F134-crash"] = ("F134", h, 1)
    h = History(); a = h.add(W_A()); b = h.add(W_B2()); h.parse(a); h.parse(b, ["g1"]); h.impl("bbb", None, []); w["F23"] = ("F23", h, 2)
    h = History(EXPLICIT); a = h.add(W_A()); h.parse(a); h.compile(); h.impl("aaa", None, ["f1"]); w["F133"] = ("F133", h, 2)
    h = History(); b = h.add(W_B2()); h.add(W_B2new()); h.parse(b); w["F135"] = ("F135", h, 0)
    ma = Mod("maa", "2019-01-01", feats=[Feat("f1")])
    mb = Mod("mbb", "2019-01-01", imports=[("maa", "2019-01-01")], augments=["maa"])
    mc = Mod("mcc", "2020-02-02", imports=[("maa", "2019-01-01"), ("mbb", "2019-01-01")], lrefs=["mbb"])
    md = Mod("mdd", None, imports=[("maa", None), ("mcc", None)], lrefs=["mcc"])
    mz = apply_edit(Mod("mzz", None, imports=[("maa", None)]), "typedef")
    h = History(); [h.add(x) for x in (ma, mb, mc, md)]; h.parse(md); h.add(mz); h.parse(mz); w["F137"] = ("F137", h, 1)
    # Props/C19.lean yl_roundtrip_order_fails: `top` (dateless import of aaa) is listed before aaa@2019-01-01 in the yang-library
    # data while a newer aaa is among the sources: the rebuilt context holds aaa@2020-01-01 as an additional import-only module
    h = History(); h.add(W_A19()); t = h.add(Mod("top", "2018-01-01", imports=[("aaa", None)])); h.parse(t); h.add(W_A20())
    h.impl("aaa", "2019-01-01"); w["order"] = ("order", h, 1)
    # F380 (Props/C09.lean stale_compiled_after_failed_compile): the failed ly_ctx_compile leaves aaa compiled with the augment of ccc
    h = History(EXPLICIT); a = h.add(W_A()); h.parse(a); h.compile(); b = h.add(apply_edit(Mod("bbb"), "default")); h.parse(b)
    c = h.add(W_C()); h.parse(c); h.compile(); w["F380"] = ("F380", h, 4)
    return w
