"""C14 — merging and duplicating trees preserve content and independence (src/tree_data.c: lyd_merge_*, lyd_dup_*).

(K) correspondence, harness `api_merge` vs model `LyModel.Merge`, token for token:
      schema   the DSL the model parses and the YANG libyang compiles describe the same nodes
      merge    lyd_merge_siblings / lyd_merge_tree / lyd_merge_module(+callback) for all eight option sets: the dump of the
               result (values, default / new flags, metadata, sibling order) and the position of *target
      dup      lyd_dup_single / lyd_dup_siblings / *_to_ctx (second context with the same module) of any node of a tree under
               the option sets over RECURSIVE, NO_META, WITH_PARENTS, WITH_FLAGS, NO_LYDS: the dump of the new tree from its
               root and the position of the returned node
      wf       [model only] every generated (validated) tree satisfies the well-formedness predicate of the theorems
(L) laws on the implementation:
      mlaw     source unchanged by a copying merge; result in libyang's order; every explicit source node in the result with the
               source's value (by path); every target node the source does not contain unchanged; consuming merge = copying
               merge; second merge changes nothing (dump + lyd_compare_siblings); merge into NULL = lyd_dup_siblings(source)
      dlaw     duplicate equal to the original (lyd_compare_single/siblings with DEFAULTS, FULL_RECURSION when recursive), the
               original unchanged, options honoured (no metadata, flags, parent chain)
(R) independence (the aliasing half of C14 — a pure model cannot exhibit it; this is a *sanitised law check*, not a proof):
      indep / dlaw   after merge / dup a seeded script edits one operand (lyd_change_term, lyd_new_*, unlink + free, unlink +
               re-insert) and the other operand is re-dumped and compared with its dump from before; then one operand is freed
               (across contexts: together with its whole context) and the other is walked, looked up through the hash tables,
               printed (XML, LYB), edited again, and checked to be still in libyang's sibling order; any ASan/UBSan report fails.
Generators: >= 30 random S1 schemas + hand schemas, source = random edit of the target / independent tree / same tree / minimal
tree / empty, built and validated by libyang (defaults present), a share decorated with metadata and with flag patterns that
validation does not produce (the malformed stream).
"""
import json, os, random
from vlib import treegen as tg, paths

LEAN_TARGETS = ["LyModel.Props.C14"]
AUDIT = "Audit/C14.lean"
HARNESS = "api_merge"
STDERR_KEEP = int(os.environ.get("VERIF_STDERR_KEEP", "2500"))
COMP = "merge"
ENV = {"VERIF_YANG_DIR": os.path.join(paths.REPO, "tests", "modules", "yang")}
ASSUMPTIONS = [
    "data trees are instances over schema family S1 (DESIGN §2.4) built through the public API; one module; no opaque nodes, "
    "no anydata, no extension data (LYD_EXT), no `when`",
    "model fragment: among siblings no two equal instances of a keyed list / configuration leaf-list and at most one instance of a "
    "leaf / container (libyang hands out further equal instances through the duplicate-instance cache)",
    "theorems: for all S1 schemas and all well-formed trees (Merge.wfForest: shape, canonical order, unique instances, "
    "default flags consistent downwards); every generated validated tree is checked against that predicate (op wf)",
    "merge_idempotent_partial, merge_contains_source, merge_keeps_untouched_target: sources without instances of key-less lists / "
    "state leaf-lists (no identity; matched one to one through the cache) — the full statements are OPEN in Props/C14.lean and "
    "evaluated on the implementation for every generated pair (laws idem / contains / keeps, pairs with repeated instances "
    "included, exhaustively for short sequences); merge_into_empty, merge_destruct_eq_copy, merge_result_canonical and the dup "
    "theorems hold for all well-formed trees",
    "independence (no shared mutable state) is checked on the implementation under ASan/UBSan with seeded edit/free scripts; it is "
    "not a theorem (a pure model has no aliasing)",
    "the lyds pool of LYD_MERGE_DESTRUCT is not modelled: the model of the consuming merge inserts as the copying merge does "
    "(finding F160 is where the C differs); duplication into another context is modelled as duplication (finding F162 is where the C fails)",
]
TRUSTED = ["tools/vlib/treegen.py (schema/instance generator, YANG renderer)", "harness/treeproto.h (tree loader and canonical dump)"]

M_DESTRUCT, M_DEFAULTS, M_WITH_FLAGS = 1, 2, 4
D_RECURSIVE, D_NO_META, D_WITH_PARENTS, D_WITH_FLAGS, D_NO_LYDS = 1, 2, 4, 8, 0x40
DUP_OPTS = [r | m | p | f | l for r in (0, D_RECURSIVE) for m in (0, D_NO_META) for p in (0, D_WITH_PARENTS) for f in (0, D_WITH_FLAGS)
            for l in (0, D_NO_LYDS)]

MLAW_OK = {"merge": "Success", "srcpure": "1", "ptr": "0", "canon": "1", "contains": "0", "containsx": "0", "keeps": "0",
           "dmerge": "Success", "destruct": "1", "dptr": "0", "dcanon": "1", "merge2": "Success", "idem": "1", "idemcmp": "1",
           "emerge": "Success", "empty": "1", "emptycmp": "1"}
MLAW_TEXT = {
    "merge": "lyd_merge_siblings fails", "dmerge": "lyd_merge_siblings(LYD_MERGE_DESTRUCT) fails",
    "merge2": "merging the same source a second time fails", "emerge": "merging into an empty target fails",
    "srcpure": "a merge without LYD_MERGE_DESTRUCT modified the source",
    "ptr": "*target is not the first sibling after the merge", "dptr": "*target is not the first sibling after the consuming merge",
    "canon": "the merged tree is not in libyang's sibling order", "dcanon": "the tree merged with LYD_MERGE_DESTRUCT is not in libyang's sibling order",
    "contains": "an explicit source node is missing from the result or has another value there",
    "containsx": "an explicit source node is in the result only as a node flagged default",
    "keeps": "a target node the source does not contain is missing from the result or changed",
    "destruct": "the result differs between a consuming (LYD_MERGE_DESTRUCT) and a copying merge",
    "idem": "merging the same source again changes the result (dump)", "idemcmp": "merging the same source again changes the result (lyd_compare_siblings)",
    "empty": "merging into an empty target is not a copy of the source (dump)",
    "emptycmp": "merging into an empty target is not equal to the source (lyd_compare_siblings)",
}
DLAW_OK = {"dup": "Success", "eq": "1", "pure": "1", "meta": "1", "flags": "1", "parents": "1", "a": "1", "b": "1", "c": "1", "use": "0", "order": "1"}
DLAW_TEXT = {
    "dup": "duplication fails", "eq": "the duplicate is not equal to the original (lyd_compare_*)", "pure": "duplication modified the original",
    "meta": "LYD_DUP_NO_META left metadata in the duplicate", "flags": "the flags of the duplicate do not follow LYD_DUP_WITH_FLAGS",
    "parents": "the parent chain of the duplicate does not follow LYD_DUP_WITH_PARENTS",
    "a": "editing the original changed the duplicate", "b": "editing the duplicate changed the original",
    "c": "freeing one of original / duplicate changed the other", "use": "a lookup or print on the surviving tree fails",
    "order": "after edits the duplicate is no longer in libyang's sibling order",
}
ILAW_OK = {"merge": "Success", "a": "1", "b": "1", "c": "1", "use": "0", "order": "1"}
ILAW_TEXT = {
    "merge": "merge fails", "a": "editing the source after the merge changed the result", "b": "editing the result changed the source",
    "c": "freeing one of source / result changed the other", "use": "a lookup or print on the surviving tree fails",
    "order": "after edits the merged tree is no longer in libyang's sibling order",
}

META_POOL = [("operation", b"create"), ("operation", b"replace"), ("operation", b"none"), ("operation", b"delete"), ("position", b"3"), ("orig-value", b"x"), ("orig-value", b"a b"),
             ("value", b"v"), ("orig-default", b"true"), ("orig-default", b"false"), ("ietf-netconf-with-defaults:default", b"true"),
             ("key", b"[k='1']"), ("insert", b"first")]


# ----------------------------------------------------------------------------------------------------
# hand schemas aimed at the mechanisms of merge / dup
# ----------------------------------------------------------------------------------------------------

def hand_schemas():
    T, S = tg.Ty, tg.SNode
    out = []
    # sorted lists followed by user-ordered / key-less / state lists (the lyds pool of a consuming merge, dup's first_llist)
    out.append(tg.Schema("hpool", [
        S("leaflist", "ll", ty=T("uint8")),
        S("list", "sl", keys=["k"], kids=[S("leaf", "k", ty=T("string"), iskey=True), S("leaf", "v", ty=T("string"))]),
        S("leaflist", "ul", ty=T("string"), userord=True),
        S("list", "uk", keys=["k"], userord=True, kids=[S("leaf", "k", ty=T("uint8"), iskey=True), S("leaf", "v", ty=T("string"))]),
        S("leaflist", "stl", ty=T("string"), userord=True, config=False),
        S("list", "kl", keys=[], userord=True, config=False, kids=[S("leaf", "a", ty=T("uint8"), config=False),
                                                                   S("leaflist", "b", ty=T("string"), userord=True, config=False)]),
        S("container", "c", kids=[
            S("leaflist", "ll2", ty=T("int8")),
            S("leaflist", "ll3", ty=T("int8")),
            S("leaflist", "ul2", ty=T("string"), userord=True),
            S("list", "kl2", keys=[], userord=True, config=False, kids=[S("container", "n", config=False, kids=[S("leaf", "x", ty=T("uint8"), config=False)])]),
        ]),
    ]))
    # defaults everywhere: leaf defaults, leaf-list defaults, nested non-presence containers, presence container, choice with default case
    out.append(tg.Schema("hdflt", [
        S("container", "c", kids=[
            S("leaf", "a", ty=T("string"), dflt=b"da"),
            S("leaflist", "dl", ty=T("string"), dflts=[b"a", b"b"]),
            S("leaflist", "du", ty=T("uint8"), dflts=[b"9", b"1"], userord=True),
            S("container", "o", kids=[S("container", "i", kids=[S("leaf", "m", ty=T("string"), dflt=b"dm")]), S("leaf", "e", ty=T("string"))]),
            S("container", "pc", presence=True, kids=[S("leaf", "z", ty=T("uint8"), dflt=b"1")]),
            S("choice", "ch", dflt="c1", kids=[S("case", "c1", kids=[S("leaf", "x1", ty=T("string"), dflt=b"dx")]),
                                               S("case", "c2", kids=[S("leaf", "x2", ty=T("string")), S("leaflist", "x3", ty=T("uint8"))])]),
            S("list", "l", keys=["k"], kids=[S("leaf", "k", ty=T("uint8"), iskey=True),
                                             S("container", "n", kids=[S("leaf", "w", ty=T("string"), dflt=b"dw")])]),
        ]),
        S("leaf", "t", ty=T("boolean"), dflt=b"true"),
    ]))
    return out


# ----------------------------------------------------------------------------------------------------
# features of a case (for the finding predicates) — computed on the python trees
# ----------------------------------------------------------------------------------------------------

def full_eq(a, b):
    if a.sn is not b.sn or a.val != b.val or len(a.kids) != len(b.kids):
        return False
    return all(full_eq(x, y) for x, y in zip(a.kids, b.kids))


def is_sorted_kind(sn):
    return (sn.kind == "leaflist" or (sn.kind == "list" and sn.keys)) and not sn.userord


def is_llist(sn):
    return sn.kind in ("list", "leaflist")


def same_inst(a, b):
    sn = a.sn
    if sn.dup_inst():
        return full_eq(a, b)
    if sn.kind == "leaflist":
        return a.val == b.val
    if sn.kind == "list":
        nk = len(sn.keys)
        return [k.val for k in a.kids[:nk]] == [k.val for k in b.kids[:nk]]
    return True


def merge_features(T, S):
    """Walk the pair the way lyd_merge_sibling_r does (duplicate-instance cache included) and record what the finding
    predicates look at.  For F160 the lyds pool of a consuming merge is followed: how many red-black nodes the source's sorted
    (leaf-)lists have put into it and whether one is still free when an unmatched instance of a (leaf-)list that libyang does
    NOT keep sorted is linked next to existing instances (lyds_insert2 then sorts / compares what must not be)."""
    f = set()
    st = {"pool": 0}

    def level(tk, sk):
        tk = list(tk)
        treed = set()                      # target groups that got a sorting tree during this merge
        used = []                          # [(representative, used, count)]
        prev = None
        for x in sk:
            if x.sn.iskey:
                continue
            if is_sorted_kind(x.sn) and prev is not x.sn:
                cnt = sum(1 for y in sk if y.sn is x.sn)
                if cnt >= 2:
                    st["pool"] += cnt
                    f.add("pool")
            prev = x.sn
            cand = [y for y in tk if y.sn is x.sn and same_inst(y, x)]
            m = None
            if cand:
                if x.sn.dup_inst():
                    e = [u for u in used if full_eq(u[0], x)]
                    if e:
                        if e[0][1] < e[0][2]:
                            m = cand[e[0][1]] if e[0][1] < len(cand) else None
                            e[0][1] += 1
                    else:
                        used.append([x, 1, len(cand)])
                        m = cand[0]
                else:
                    m = cand[0]
            elif x.sn.dup_inst():
                used.append([x, 1, 1])
            if m is not None:
                if x.sn.kind == "leaflist" and (m.flags & tg.F_DFLT) and not (x.flags & tg.F_DFLT):
                    f.add("explicit-leaflist-instance-on-default")                  # F161
                if x.sn.kind in ("container", "list"):
                    level(m.kids, x.kids)
            else:
                grp = [y for y in tk if y.sn is x.sn]
                if st["pool"] > 0 and grp:
                    if not is_sorted_kind(x.sn):
                        f.add("pool-nonsorted-insert")                              # F160
                    if not ((is_sorted_kind(x.sn) and len(grp) >= 2) or x.sn.sid in treed):
                        st["pool"] = max(0, st["pool"] - len(grp))
                        treed.add(x.sn.sid)
                    if st["pool"] > 0:
                        st["pool"] -= 1
                tk.append(x)
    level(T, S)
    return sorted(f)


def consecutive_lists(sibs):
    """two different (leaf-)lists directly after each other among the duplicated siblings, the second one sorted (F55)"""
    for i in range(1, len(sibs)):
        a, b = sibs[i - 1].sn, sibs[i].sn
        if a is not b and is_llist(a) and is_llist(b) and is_sorted_kind(b) and sum(1 for x in sibs if x.sn is b) >= 2:
            return True
    return False


def top_in_choice(node, parent_of):
    """the top-level data ancestor-or-self of the node is defined inside a choice (F162)"""
    n = node
    while parent_of.get(id(n)) is not None:
        n = parent_of[id(n)]
    return n.sn.parent is not None


def classify(component, what, case):
    op, law, feat = case.get("op"), case.get("law"), set(case.get("features", []))
    if "pool-nonsorted-insert" in feat:
        if op == "mlaw" and law in ("destruct", "dcanon", "dptr"):
            return "F160"
        if op == "merge" and law == "destruct":
            return "F160"
        if op == "indep" and (case.get("opts", 0) & M_DESTRUCT) and law == "order":
            return "F160"
        if law == "crash" and (op == "mlaw" or (case.get("opts") or 0) & M_DESTRUCT) and "lyds_insert2" in case.get("stderr", ""):
            return "F160"
    if law == "crash" and op in ("dlaw", "indep"):
        va = [l for l in case.get("stderr", "").split("\n") if l.startswith("[verif-asan]")]
        if va and "kind=heap-use-after-free" in va[-1] and "chg-sorted-ll" in va[-1] and "lyd_hash_table_val_equal" in va[-1]:
            return "F19"
    if op == "mlaw" and law == "containsx" and "explicit-leaflist-instance-on-default" in feat:
        return "F161"
    if op in ("dlaw", "dup") and law == "dup" and case.get("verdict") == "Enotfound" and "top-in-choice" in feat and (case.get("mode") or 0) >= 2:
        return "F162"
    if op == "dlaw" and law == "order" and "consecutive-lists" in feat:
        return "F55"
    return None


# ----------------------------------------------------------------------------------------------------
# plumbing
# ----------------------------------------------------------------------------------------------------

def schema_line(i, s):
    return "%s %s schema %s %s" % (i, COMP, tg.hx(s.dsl()), tg.hx(s.yang().encode()))


STATE = {"aborts": 0, "noted": False}


def run_impl(cx, schemas, lines, on_crash=None):
    """One harness process per schema (a sanitizer abort then costs one schema registration, not all of them): the schema
    registration in front, the lines of that schema, a leak check; after an abort the rest is re-run in a new process."""
    from vlib import proto
    exe = cx.harness(HARNESS)
    by_dsl = {tg.hx(s.dsl()): s for s in schemas}
    groups = {}
    for l in lines:
        groups.setdefault(l.split()[3], []).append(l)
    rep, crashed = {}, []
    cap = cx.n(600, 4000)
    for dsl, ls in groups.items():
        head = [schema_line("S0", by_dsl[dsl])]
        pending = ls
        for _ in range(400):
            if STATE["aborts"] > cap:
                # the implementation aborts on (almost) everything: every abort is already recorded as a failure, stop here
                if not STATE["noted"]:
                    cx.notes.append("more than %d sanitizer aborts: the remaining requests were not run" % cap)
                    STATE["noted"] = True
                for l in pending:
                    rep[l.split()[0]] = ["err", "NotRun"]
                break
            r, crashes = proto.run_lines([exe], head + pending + ["zz %s leakcheck" % COMP], timeout=45 + len(pending) // 20, env=ENV,
                                         restart=False)
            for c in crashes:
                if c.get("at_exit") or c.get("id") == "zz":
                    cx.fail(COMP, "harness exit status %s after the last request (%s)" % (c.get("rc"), sanitizer_line(c.get("stderr", ""))),
                            {"op": "exit", "law": "exit", "stderr": c.get("stderr", "")[-1500:], "first_line": pending[0][:300]})
                else:
                    crashed.append(c)
                    STATE["aborts"] += 1 if c.get("kind") != "Timeout" else cap // 3 + 1        # three hangs are enough
            if r.get("zz", ["ok", "0"])[:2] == ["ok", "1"]:
                cx.fail(COMP, "memory leaked by the harness run (LeakSanitizer)", {"op": "exit", "law": "leak", "first_line": pending[0][:300]})
            r.pop("zz", None)
            r.pop("S0", None)
            rep.update({k: v for k, v in r.items() if v[:2] != ["err", "NotRun"]})
            pending = [l for l in pending if l.split()[0] not in rep]
            if not pending:
                break
    return rep, crashed


def run_model(cx, schemas, lines):
    head = [schema_line("S%d" % i, s) for i, s in enumerate(schemas)]
    return cx.run_model(head + lines)


class Case:
    __slots__ = ("s", "T", "S", "kind", "t", "src", "feat", "variant")

    def __init__(self, s, T, S, kind):
        self.s, self.T, self.S, self.kind = s, T, S, kind
        self.t = self.src = None          # dump tokens as built by libyang
        self.feat = []
        self.variant = "valid"


def gen_pairs(s, rng, n):
    g = tg.TreeGen(rng, s, density=rng.choice([0.4, 0.6, 0.8]), max_inst=rng.choice([3, 4, 5]))
    gmin = tg.TreeGen(rng, s, density=0.0)
    out = []
    for _ in range(n):
        A = g.tree()
        r = rng.random()
        if r < 0.55:
            B, kind = g.edit(A, rate=rng.choice([0.15, 0.35, 0.6])), "edit"
        elif r < 0.80:
            B, kind = g.tree(), "independent"
        elif r < 0.86:
            B, kind = [x.clone() for x in A], "same"
        elif r < 0.91:
            B, kind = gmin.tree(), "minimal-source"
        elif r < 0.96:
            A, B, kind = gmin.tree(), A, "minimal-target"
        elif r < 0.98:
            B, kind = [], "empty-source"
        else:
            A, B, kind = [], A, "empty-target"
        out.append(Case(s, A, B, kind))
    return out


def build_trees(cx, schemas, cases):
    lines, want = [], []
    for k, c in enumerate(cases):
        d = tg.hx(c.s.dsl())
        for which, t in (("t", c.T), ("src", c.S)):
            i = "b%d%s" % (k, which)
            if not t:
                setattr(c, which, "-")
                continue
            lines.append("%s %s build %s %s" % (i, COMP, d, tg.tok(t)))
            want.append((i, c, which))
    rep, _ = run_impl(cx, schemas, lines)
    bad = 0
    for i, c, which in want:
        r = rep.get(i, ["err", "NoReply"])
        if r[0] == "ok":
            setattr(c, which, r[1])
        else:
            bad += 1
            cx.dist["build:" + " ".join(r[:2])] += 1
    if bad:
        cx.notes.append("%d generated trees were not accepted by libyang (generator defect, cases dropped)" % bad)
    return [c for c in cases if c.t is not None and c.src is not None]


def decorate(rng, s, token, meta=0.0, flags=0.0):
    """metadata on some nodes / flag patterns that validation does not produce"""
    if token == "-" or (meta == 0 and flags == 0):
        return token
    f = tg.untok(s, token)

    def walk(n):
        if rng.random() < meta:
            n.meta = [rng.choice(META_POOL) for _ in range(rng.choice([1, 1, 2]))]
        if rng.random() < flags:
            r = rng.random()
            if r < 0.4:
                n.flags ^= tg.F_NEW
            elif r < 0.8 and not n.sn.iskey and not (n.sn.kind == "list") and not (n.sn.kind == "container" and n.sn.presence):
                n.flags ^= tg.F_DFLT
            else:
                n.flags ^= tg.F_WHEN
        for k in n.kids:
            walk(k)
    for n in f:
        walk(n)
    return tg.tok(f)


# ----------------------------------------------------------------------------------------------------
# merge
# ----------------------------------------------------------------------------------------------------

def payload(c, op, law, verdict, opts=None, extra=None):
    p = {"op": op, "law": law, "verdict": verdict, "opts": opts, "features": c.feat, "pair_kind": c.kind, "variant": c.variant,
         "schema_dsl": c.s.dsl().decode(), "schema_yang": c.s.yang(), "T": c.t, "S": c.src,
         "T_text": tg.pretty(c.s, tg.untok(c.s, c.t))[:3000] if c.t != "-" else "", "S_text": tg.pretty(c.s, tg.untok(c.s, c.src))[:3000] if c.src != "-" else ""}
    if extra:
        p.update(extra)
    return p


def sanitizer_line(err):
    for l in err.split("\n"):
        if l.startswith("[verif-asan]"):
            return l.strip()[:300]
    for l in err.split("\n"):
        if "ERROR: AddressSanitizer" in l or "runtime error:" in l or "ERROR: LeakSanitizer" in l:
            return l.strip()[:200]
    tail = [l for l in err.strip().split("\n") if l.strip()]
    return tail[-1][:200] if tail else "no message"


def f70_budget(cx):
    """While F160 is an open (known) finding every predicted instance costs a sanitizer abort or a differing result; run a
    bounded number of them (the predicate is code: merge_features) and leave the consuming merge of the others out."""
    if cx.findings.get("F160", {}).get("status") == "known":
        return {"left": cx.n(30, 150)}
    return {"left": 1 << 60}


def take_f70(c, budget):
    if "pool-nonsorted-insert" not in c.feat:
        return True
    if budget["left"] > 0:
        budget["left"] -= 1
        return True
    return False


def strip_f71(s, token):
    """dump without the flags that the F161 repair changes (flags of leaf-list instances, default flags of containers)"""
    if token == "-":
        return token
    f = tg.untok(s, token)

    def walk(n):
        if n.sn.kind == "leaflist":
            n.flags = 0                     # default / new, and all of them with LYD_MERGE_WITH_FLAGS
        if n.sn.kind == "container":
            n.flags &= ~tg.F_DFLT
        for k in n.kids:
            walk(k)
    for n in f:
        walk(n)
    return tg.tok(f)


def process_merge(cx, schemas, cases, tag, rng, all_opts=True, laws=1.3, budget=None):
    budget = budget or f70_budget(cx)
    # ---- wf: the generated validated trees satisfy the theorems' hypothesis (model only)
    lines, idx = [], {}
    for k, c in enumerate(cases):
        if c.variant == "flags":
            continue
        d = tg.hx(c.s.dsl())
        for w, t in (("t", c.t), ("s", c.src)):
            i = "w%s%d%s" % (tag, k, w)
            lines.append("%s %s wf %s %s" % (i, COMP, d, t))
            idx[i] = c
    rm = run_model(cx, schemas, lines)
    for l in lines:
        i = l.split()[0]
        r = rm.get(i, ["err", "NoReply"])
        cx.count(None, False, "merge:wf:" + " ".join(r[:2]))
        if r[:2] != ["ok", "1"]:
            cx.disagree(COMP, l[:600], ["ok", "1"], r)
    # ---- merge correspondence: all option sets; api variants on a share
    lines, idx = [], {}
    for k, c in enumerate(cases):
        d = tg.hx(c.s.dsl())
        destr = take_f70(c, budget)
        if not destr:
            cx.dist["consuming merge left out (F160 instance beyond the budget)"] += 1
        opts = set(range(8)) if all_opts else set([rng.randrange(8), rng.randrange(8) | 1, rng.randrange(4) * 2])
        opts = sorted(opts | set(o & ~M_DESTRUCT for o in opts))       # the copying twin of every consuming merge
        apis = [0]
        if rng.random() < 0.2:
            apis.append(1)
        if rng.random() < 0.2:
            apis.append(2)
        # the same merge with the target and / or the source replaced by duplicates: (leaf-)lists without a sorting tree meet
        # lists with one (the lyds pool of a consuming merge is built from the source's tree nodes)
        # (not for trees with flag patterns libyang never produces: lyd_dup normalises those)
        if c.variant == "valid":
            apis += [rng.choice([4, 4, 8, 12])]
            if rng.random() < 0.3:
                apis.append(rng.choice([4, 5, 6, 8, 12]))
        for o in opts:
            if (o & M_DESTRUCT) and not destr:
                continue
            for api in apis:
                i = "m%s%d.%d.%d" % (tag, k, o, api)
                lines.append("%s %s merge %s %s %s %d %d" % (i, COMP, d, c.t, c.src, o, api))
                idx[i] = (c, o, api, k)
    ri, crashes = run_impl(cx, schemas, lines)
    # (the model has no sorting trees: it sees the plain API selector)
    rm = run_model(cx, schemas, [l.rsplit(" ", 1)[0] + " %d" % (int(l.rsplit(" ", 1)[1]) & 3) for l in lines])
    crash_ids = {c.get("id"): c for c in crashes}
    for l in lines:
        i = l.split()[0]
        c, o, api, k = idx[i]
        a, b = ri.get(i, ["err", "NoReply"]), rm.get(i, ["err", "NoReply"])
        if a[:2] == ["err", "NotRun"]:
            continue
        nontrivial = a[0] == "ok" and a[1] not in (c.t, "-")
        cx.count((c.s.name, c.t, c.src, o, api), nontrivial, "merge:%s:%s" % (("api%d" % api), a[0] if a[0] == "ok" else a[1]))
        if i in crash_ids:
            cx.fail(COMP, "harness aborted in lyd_merge (%s)" % sanitizer_line(crash_ids[i].get("stderr", "")),
                    payload(c, "merge", "crash", "crash", o, {"api": api, "stderr": crash_ids[i].get("stderr", "")[-STDERR_KEEP:]}))
            continue
        if o & M_DESTRUCT:
            # the law "same result whether or not the source is consumed", on the two implementation results
            ic = "m%s%d.%d.%d" % (tag, k, o & ~M_DESTRUCT, api)
            ac = ri.get(ic)
            if rm.get(i) != rm.get(ic):
                # flag patterns libyang never produces (an inner node flagged default above explicit children): the copy is
                # normalised by lyd_dup, the moved subtree is not — the model has both, the law is not claimed there
                cx.dist["merge: consuming and copying merge differ in the model too (inconsistent flags)"] += 1
            elif ac is not None and ac[0] == "ok" and ic not in crash_ids and a != ac:
                cx.fail(COMP, MLAW_TEXT["destruct"] + " [opts %d api %d]" % (o, api), payload(c, "merge", "destruct", "differs", o, {"api": api}))
                continue
        if a != b:
            if "explicit-leaflist-instance-on-default" in c.feat and a[0] == "ok" and b[0] == "ok" and \
                    [strip_f71(c.s, a[1])] + a[2:] == [strip_f71(c.s, b[1])] + b[2:]:
                # the implementation carries the repair of F161 (the matched leaf-list instance becomes explicit), the model the pinned behaviour
                cx.dist["merge: differs from the model only in the flags F161's repair changes"] += 1
                continue
            cx.disagree(COMP, l[:20000], a, b)
    if lines:
        cx.sample(lines[rng.randrange(len(lines))][:600])
    # ---- laws
    lines, idx = [], {}
    for k, c in enumerate(cases):
        d = tg.hx(c.s.dsl())
        four = [0, M_DEFAULTS, M_WITH_FLAGS, M_DEFAULTS | M_WITH_FLAGS]
        if laws >= 4:
            sel = four
        else:
            sel = [rng.choice(four)]
            if rng.random() < laws - 1:
                sel.append(rng.choice([o for o in four if o != sel[0]]))
        for o in sel:
            destr = take_f70(c, budget)
            i = "l%s%d.%d" % (tag, k, o)
            lines.append("%s %s mlaw %s %s %s %d %d" % (i, COMP, d, c.t, c.src, o, 1 if destr else 0))
            idx[i] = (c, o)
    rep, crashes = run_impl(cx, schemas, lines)
    crash_ids = {c.get("id"): c for c in crashes}
    for i, (c, o) in idx.items():
        if i in crash_ids:
            cx.fail(COMP, "harness aborted while the merge laws were evaluated (%s)" % sanitizer_line(crash_ids[i].get("stderr", "")),
                    payload(c, "mlaw", "crash", "crash", o, {"stderr": crash_ids[i].get("stderr", "")[-STDERR_KEEP:]}))
            continue
        eval_mlaw(cx, c, o, rep.get(i, ["err", "NoReply"]))


def eval_mlaw(cx, c, o, reply):
    if reply[:2] == ["err", "NotRun"]:
        return
    if reply[0] != "ok":
        cx.fail(COMP, "mlaw op failed: " + " ".join(reply[:2]), payload(c, "mlaw", "harness", " ".join(reply[:2]), o))
        return
    v = dict(f.split("=", 1) for f in reply[1:])
    ok = all(v.get(k, MLAW_OK[k]) == MLAW_OK[k] for k in MLAW_OK)
    cx.count(("mlaw", c.s.name, c.t, c.src, o), c.src != "-", "merge:mlaw:" + ("all-hold" if ok else "some-fail"))
    for k in MLAW_OK:
        if k in v and v[k] != MLAW_OK[k]:
            if k == "dmerge" and v[k] == "Enot":
                continue                                # the consuming merge was left out
            if c.variant == "flags" and k in ("destruct", "containsx", "keeps", "empty", "emptycmp", "idem", "idemcmp"):
                # flag patterns that libyang itself never produces: these laws are only claimed for consistent flags
                cx.dist["mlaw-skipped(flags-variant):" + k] += 1
                continue
            cx.fail(COMP, MLAW_TEXT[k] + " [opts %d]" % o, payload(c, "mlaw", k, v[k], o))


# ----------------------------------------------------------------------------------------------------
# independence after a merge
# ----------------------------------------------------------------------------------------------------

def process_indep(cx, schemas, cases, tag, rng, per_case, budget=None):
    budget = budget or f70_budget(cx)
    lines, idx = [], {}
    for k, c in enumerate(cases):
        d = tg.hx(c.s.dsl())
        for j in range(per_case):
            o = rng.randrange(8)
            if (o & M_DESTRUCT) and not take_f70(c, budget):
                o &= ~M_DESTRUCT
            seed = rng.randrange(1 << 30)
            i = "i%s%d.%d" % (tag, k, j)
            lines.append("%s %s indep %s %s %s %d %d" % (i, COMP, d, c.t, c.src, o, seed))
            idx[i] = (c, o, seed)
    rep, crashes = run_impl(cx, schemas, lines)
    crash_ids = {c.get("id"): c for c in crashes}
    for i, (c, o, seed) in idx.items():
        if i in crash_ids:
            cx.fail(COMP, "sanitizer abort after a merge while an operand was edited / freed (%s)" % sanitizer_line(crash_ids[i].get("stderr", "")),
                    payload(c, "indep", "crash", "crash", o, {"seed": seed, "stderr": crash_ids[i].get("stderr", "")[-STDERR_KEEP:]}))
            continue
        eval_indep(cx, c, o, seed, rep.get(i, ["err", "NoReply"]))


def eval_indep(cx, c, o, seed, r):
    if r[:2] == ["err", "NotRun"]:
        return
    if r[0] != "ok":
        cx.fail(COMP, "indep op failed: " + " ".join(r[:2]), payload(c, "indep", "harness", " ".join(r[:2]), o, {"seed": seed}))
        return
    v = dict(f.split("=", 1) for f in r[1:])
    ok = all(v.get(k, ILAW_OK[k]) == ILAW_OK[k] for k in ILAW_OK)
    cx.count(("indep", c.s.name, c.t, c.src, o, seed), True, "merge:indep:" + ("all-hold" if ok else "some-fail"))
    for k in ILAW_OK:
        if k in v and v[k] != ILAW_OK[k]:
            cx.fail(COMP, ILAW_TEXT[k] + " [opts %d]" % o, payload(c, "indep", k, v[k], o, {"seed": seed}))


# ----------------------------------------------------------------------------------------------------
# dup
# ----------------------------------------------------------------------------------------------------

def flat(forest):
    """(node, following siblings incl. itself) in DFS order, and the parent map"""
    out, par = [], {}

    def walk(sibs, parent):
        for j, n in enumerate(sibs):
            par[id(n)] = parent
            out.append((n, sibs[j:]))
            walk(n.kids, n)
    walk(forest, None)
    return out, par


def dup_features(nodes, par, ni, o, mode):
    feat = []
    n, sibs = nodes[ni]
    if mode % 2 == 1 and consecutive_lists(sibs):
        feat.append("consecutive-lists")
    if mode >= 2:
        group = sibs if (mode % 2 == 1 and par[id(n)] is None) else [n]
        if any(top_in_choice(x, par) for x in group):
            feat.append("top-in-choice")
    return feat


def process_dup(cx, schemas, cases, tag, rng, per_tree, laws_per_tree):
    lines, idx, llines, lidx = [], {}, [], {}
    for k, c in enumerate(cases):
        if c.t == "-":
            continue
        d = tg.hx(c.s.dsl())
        nodes, par = flat(tg.untok(c.s, c.t))
        for j in range(per_tree):
            ni = 0 if rng.random() < 0.2 else rng.randrange(len(nodes))
            o = rng.choice(DUP_OPTS)
            mode = rng.randrange(4)
            i = "d%s%d.%d" % (tag, k, j)
            lines.append("%s %s dup %s %s %d %d %d" % (i, COMP, d, c.t, ni, o, mode))
            idx[i] = (c, ni, o, mode, dup_features(nodes, par, ni, o, mode))
        for j in range(laws_per_tree):
            ni = 0 if rng.random() < 0.3 else rng.randrange(len(nodes))
            o = rng.choice(DUP_OPTS)
            mode = rng.randrange(4)
            seed = rng.randrange(1 << 30)
            i = "e%s%d.%d" % (tag, k, j)
            llines.append("%s %s dlaw %s %s %d %d %d %d" % (i, COMP, d, c.t, ni, o, mode, seed))
            lidx[i] = (c, ni, o, mode, seed, dup_features(nodes, par, ni, o, mode))
    ri, crashes = run_impl(cx, schemas, lines)
    rm = run_model(cx, schemas, lines)
    crash_ids = {c.get("id"): c for c in crashes}
    for l in lines:
        i = l.split()[0]
        c, ni, o, mode, feat = idx[i]
        a, b = ri.get(i, ["err", "NoReply"]), rm.get(i, ["err", "NoReply"])
        if a[:2] == ["err", "NotRun"]:
            continue
        cx.count(("dup", c.s.name, c.t, ni, o, mode), a[0] == "ok", "merge:dup:mode%d:%s" % (mode, a[0] if a[0] == "ok" else a[1]))
        if i in crash_ids:
            cx.fail(COMP, "harness aborted in lyd_dup (%s)" % sanitizer_line(crash_ids[i].get("stderr", "")),
                    dup_payload(c, "dup", "crash", "crash", ni, o, mode, None, feat, crash_ids[i].get("stderr", "")))
            continue
        if a != b:
            if a[:2] == ["err", "Enotfound"] and b[0] == "ok" and mode >= 2:
                # duplication into the second context fails although it has the same module: a failure of the property, not of the model
                cx.fail(COMP, "duplication into another context with the same modules fails [opts %d mode %d]" % (o, mode),
                        dup_payload(c, "dup", "dup", "Enotfound", ni, o, mode, None, feat))
                continue
            cx.disagree(COMP, l[:20000], a, b)
    if lines:
        cx.sample(lines[rng.randrange(len(lines))][:600])
    rep, crashes = run_impl(cx, schemas, llines)
    crash_ids = {c.get("id"): c for c in crashes}
    for i, (c, ni, o, mode, seed, feat) in lidx.items():
        if i in crash_ids:
            cx.fail(COMP, "sanitizer abort after a dup while original / duplicate was edited / freed (%s)" % sanitizer_line(crash_ids[i].get("stderr", "")),
                    dup_payload(c, "dlaw", "crash", "crash", ni, o, mode, seed, feat, crash_ids[i].get("stderr", "")))
            continue
        eval_dlaw(cx, c, ni, o, mode, seed, feat, rep.get(i, ["err", "NoReply"]))


def eval_dlaw(cx, c, ni, o, mode, seed, feat, r):
    if r[:2] == ["err", "NotRun"]:
        return
    if r[0] != "ok":
        cx.fail(COMP, "dlaw op failed: " + " ".join(r[:2]), dup_payload(c, "dlaw", "harness", " ".join(r[:2]), ni, o, mode, seed, feat))
        return
    v = dict(f.split("=", 1) for f in r[1:])
    ok = all(v.get(k, DLAW_OK[k]) == DLAW_OK[k] for k in DLAW_OK)
    cx.count(("dlaw", c.s.name, c.t, ni, o, mode, seed), True, "merge:dlaw:" + ("all-hold" if ok else "some-fail"))
    for k in DLAW_OK:
        if k in v and v[k] != DLAW_OK[k]:
            if c.variant == "flags" and k in ("eq", "flags"):
                cx.dist["dlaw-skipped(flags-variant):" + k] += 1
                continue
            cx.fail(COMP, DLAW_TEXT[k] + " [opts %d mode %d]" % (o, mode), dup_payload(c, "dlaw", k, v[k], ni, o, mode, seed, feat))


def process_dupinto(cx, schemas, cases, tag, rng, per_pair):
    """lyd_dup_single / lyd_dup_siblings (and *_to_ctx) of children of a top-level node of the SOURCE tree into the top-level node
    of the same schema in the TARGET tree — a caller-supplied parent that already has children (populated (leaf-)lists, leaves,
    containers): lyd_dup_r -> lyd_insert_node into the parent, the first_llist fast path; whole target tree vs Merge.dupInto."""
    lines, idx = [], {}
    for k, c in enumerate(cases):
        if c.t == "-" or c.src == "-":
            continue
        d = tg.hx(c.s.dsl())
        snodes, spar = flat(tg.untok(c.s, c.src))
        tops = tg.untok(c.s, c.t)
        def top_of(n):
            d = 0
            while spar[id(n)] is not None:
                n = spar[id(n)]; d += 1
            return n, d
        cand = [(ni, n) for ni, (n, _) in enumerate(snodes) if spar[id(n)] is not None and n.sn.kind != "key"]
        for j in range(per_pair):
            if not cand:
                break
            deep = [x for x in cand if top_of(x[1])[1] > 1]
            ni, n = rng.choice(deep) if deep and rng.random() < 0.4 else rng.choice(cand)
            top, depth = top_of(n)
            pis = [pi for pi, t in enumerate(tops) if t.sn is top.sn]
            if not pis:
                continue
            # deeper nodes need LYD_DUP_WITH_PARENTS (the parents in between are copied and the chain is connected to the parent)
            o = rng.choice([x for x in DUP_OPTS if (x & D_WITH_PARENTS) or depth == 1])
            mode = rng.randrange(4)
            i = "p%s%d.%d" % (tag, k, j)
            lines.append("%s %s dupinto %s %s %d %d %d %s %d" % (i, COMP, d, c.src, ni, o, mode, c.t, rng.choice(pis)))
            idx[i] = (c, ni, o, mode, len(tops[pis[0]].kids))
    ri, crashes = run_impl(cx, schemas, lines)
    rm = run_model(cx, schemas, lines)
    crash_ids = {c.get("id"): c for c in crashes}
    for l in lines:
        i = l.split()[0]
        c, ni, o, mode, nk = idx[i]
        a, b = ri.get(i, ["err", "NoReply"]), rm.get(i, ["err", "NoReply"])
        if a[:2] == ["err", "NotRun"]:
            continue
        cx.count(("dupinto", c.s.name, c.src, c.t, ni, o, mode), a[0] == "ok", "merge:dupinto:mode%d:%s:%s:%s" % (mode, "populated" if nk else "empty", "with-parents" if o & D_WITH_PARENTS else "plain", a[0] if a[0] == "ok" else a[1]))
        if i in crash_ids:
            cx.fail(COMP, "harness aborted in lyd_dup into a parent (%s)" % sanitizer_line(crash_ids[i].get("stderr", "")),
                    dup_payload(c, "dupinto", "crash", "crash", ni, o, mode, None, [], crash_ids[i].get("stderr", "")))
            continue
        if a != b:
            if a[:2] == ["err", "Enotfound"] and b[0] == "ok" and mode >= 2:
                continue
            cx.disagree(COMP, l[:20000], a, b)


def dup_payload(c, op, law, verdict, ni, o, mode, seed, feat, stderr=None):
    p = {"op": op, "law": law, "verdict": verdict, "opts": o, "mode": mode, "node": ni, "seed": seed, "features": feat, "variant": c.variant,
         "schema_dsl": c.s.dsl().decode(), "schema_yang": c.s.yang(), "T": c.t, "T_text": tg.pretty(c.s, tg.untok(c.s, c.t))[:3000]}
    if stderr:
        p["stderr"] = stderr[-STDERR_KEEP:]
    return p


# ----------------------------------------------------------------------------------------------------
# exhaustive small cases: every ordered pair of the small states of one node kind (the rest of the tree absent)
# ----------------------------------------------------------------------------------------------------

def exhaustive_schema():
    T, S = tg.Ty, tg.SNode
    return tg.Schema("hexh", [S("container", "c", kids=[
        S("leaf", "a", ty=T("string"), dflt=b"da"),
        S("leaf", "b", ty=T("string")),
        S("leaflist", "sl", ty=T("uint8")),
        S("leaflist", "dl", ty=T("string"), dflts=[b"a", b"b"]),
        S("leaflist", "ul", ty=T("uint8"), userord=True),
        S("leaflist", "stl", ty=T("uint8"), userord=True, config=False),
        S("list", "kl", keys=[], userord=True, config=False, kids=[S("leaf", "v", ty=T("uint8"), config=False),
                                                                   S("leaf", "w", ty=T("string"), config=False, dflt=b"dw")]),
        S("list", "l", keys=["k"], kids=[S("leaf", "k", ty=T("uint8"), iskey=True),
                                         S("container", "n", kids=[S("leaf", "w", ty=T("string"), dflt=b"dw")]), S("leaf", "x", ty=T("string"))]),
        S("choice", "ch", dflt="c1", kids=[S("case", "c1", kids=[S("leaf", "x1", ty=T("string"), dflt=b"dx")]),
                                           S("case", "c2", kids=[S("leaf", "x2", ty=T("string"))])]),
        S("container", "pc", presence=True, kids=[S("leaf", "z", ty=T("string"))]),
        S("container", "np", kids=[S("container", "i", kids=[S("leaf", "m", ty=T("string"), dflt=b"dm")]), S("leaf", "e", ty=T("string"))]),
    ])])


def seqs(vals, maxlen, dupfree):
    out = [[]]
    cur = [[]]
    for _ in range(maxlen):
        cur = [p + [v] for p in cur for v in vals if not (dupfree and v in p)]
        out += cur
    return out


def exhaustive_cases(cx):
    s = exhaustive_schema()
    c = s.nodes[0]
    byname = {n.name: n for n in s.nodes}
    DN = tg.DN

    def wrap(kids):
        return [DN(c, None, kids)] if kids is not None else []
    groups = {}
    a, b = byname["a"], byname["b"]
    groups["leaf"] = [None, [], [DN(a, b"da")], [DN(a, b"v")], [DN(a, b"w"), DN(b, b"1")], [DN(b, b"2")]]
    sl = byname["sl"]
    groups["sorted-leaflist"] = [[DN(sl, str(v).encode()) for v in q] for q in seqs([1, 2, 10], 3, True) if q == sorted(q)]
    dl = byname["dl"]
    groups["default-leaflist"] = [[], [DN(dl, b"a")], [DN(dl, b"b")], [DN(dl, b"a"), DN(dl, b"b")], [DN(dl, b"c")], [DN(dl, b"a"), DN(dl, b"c")]]
    ul = byname["ul"]
    groups["userord-leaflist"] = [[DN(ul, str(v).encode()) for v in q] for q in seqs([1, 2, 3], 3, True)]
    stl = byname["stl"]
    groups["state-leaflist"] = [[DN(stl, str(v).encode()) for v in q] for q in seqs([1, 2], cx.n(2, 4), False)]
    kl = byname["kl"]
    v_, w_ = kl.kids
    insts = [lambda: DN(kl, None, [DN(v_, b"1")]), lambda: DN(kl, None, [DN(v_, b"2")]), lambda: DN(kl, None, [DN(v_, b"1"), DN(w_, b"dw")])]
    groups["keyless-list"] = [[insts[i]() for i in q] for q in seqs([0, 1, 2], cx.n(2, 3), False)]
    l = byname["l"]
    k_, n_, x_ = l.kids
    w2 = n_.kids[0]

    def li(k, w=None, x=None):
        kids = [DN(k_, str(k).encode())]
        if w is not None:
            kids.append(DN(n_, None, [DN(w2, w)]))
        if x is not None:
            kids.append(DN(x_, x))
        return DN(l, None, kids)
    groups["keyed-list"] = [[], [li(1)], [li(1, b"dw")], [li(1, b"v")], [li(1, None, b"x"), li(2)], [li(2, b"v", b"y")], [li(3), li(1, b"u")]]
    x1, x2 = byname["x1"], byname["x2"]
    groups["choice"] = [[], [DN(x1, b"dx")], [DN(x1, b"v")], [DN(x2, b"v")], [DN(x2, b"w")]]
    pc, z = byname["pc"], byname["z"]
    groups["presence"] = [[], [DN(pc, None, [])], [DN(pc, None, [DN(z, b"1")])], [DN(pc, None, [DN(z, b"2")])]]
    np_, i_, m_, e_ = byname["np"], byname["i"], byname["m"], byname["e"]
    groups["np-container"] = [[], [DN(np_, None, [DN(i_, None, [DN(m_, b"dm")])])], [DN(np_, None, [DN(i_, None, [DN(m_, b"v")])])],
                              [DN(np_, None, [DN(e_, b"1")])], [DN(np_, None, [DN(i_, None, [DN(m_, b"v")]), DN(e_, b"2")])]]
    cases = []
    for g, states in groups.items():
        for x in states:
            for y in states:
                cx_t = wrap([n.clone() for n in x]) if x is not None else []
                cx_s = wrap([n.clone() for n in y]) if y is not None else []
                cases.append(Case(s, cx_t, cx_s, "exhaustive-" + g))
    return s, cases, {g: len(v) for g, v in groups.items()}


# ----------------------------------------------------------------------------------------------------
# the check
# ----------------------------------------------------------------------------------------------------

def run(cx):
    STATE["aborts"], STATE["noted"] = 0, False
    cx.rule("merge/dup: target = random valid tree over random S1 schemas (+ 2 hand schemas: sorted lists next to user-ordered / key-less / "
            "state lists; defaults at every level), source = random edit of it / independent / same / minimal / empty; trees built and "
            "validated by libyang; shares with metadata and with foreign flag patterns; merge option sets x 3 APIs, 32 dup option "
            "sets x 4 modes on random nodes; exhaustive pairs of small states per node kind x all 8 option sets; non-trivial = distinct "
            "(schema, target, source, opts, api) whose result differs from the target, distinct (tree, node, opts, mode) duplicated, "
            "distinct seeded independence scripts")
    rng = cx.sub_rng("schemas")
    nsch = cx.n(32, 120)
    per = cx.n(55, 260)
    schemas = hand_schemas() + [tg.gen_schema(rng, i, max_depth=rng.choice([2, 3, 3])) for i in range(nsch)]
    cases = load_corpus(cx)
    for i, s in enumerate(schemas):
        cases += gen_pairs(s, cx.sub_rng("pairs%d" % i), per * (3 if i < 2 else 1))
    all_schemas = list({id(c.s): c.s for c in cases}.values())
    cases = build_trees(cx, all_schemas, cases)
    vr = cx.sub_rng("variants")
    for c in cases:
        r = vr.random()
        if r < 0.22:
            c.variant = "meta"
            c.t, c.src = decorate(vr, c.s, c.t, meta=0.25), decorate(vr, c.s, c.src, meta=0.25)
        elif r < 0.32:
            c.variant = "flags"
            c.t, c.src = decorate(vr, c.s, c.t, meta=0.1, flags=0.2), decorate(vr, c.s, c.src, meta=0.1, flags=0.2)
        c.feat = merge_features(tg.untok(c.s, c.t) if c.t != "-" else [], tg.untok(c.s, c.src) if c.src != "-" else [])
        cx.dist["pair:" + c.kind] += 1
        cx.dist["variant:" + c.variant] += 1
    budget = f70_budget(cx)
    for lo in range(0, len(cases), 2500):
        chunk = cases[lo:lo + 2500]
        sch = list({id(c.s): c.s for c in chunk}.values())
        process_merge(cx, sch, chunk, "r%d" % lo, cx.sub_rng("merge%d" % lo), all_opts=False, laws=cx.n(1.15, 1.5), budget=budget)
        process_indep(cx, sch, chunk, "r%d" % lo, cx.sub_rng("indep%d" % lo), per_case=1, budget=budget)
        process_dup(cx, sch, chunk, "r%d" % lo, cx.sub_rng("dup%d" % lo), per_tree=cx.n(2, 3), laws_per_tree=1)
        process_dupinto(cx, sch, chunk, "r%d" % lo, cx.sub_rng("dupinto%d" % lo), per_pair=cx.n(1, 3))
    # exhaustive small cases
    s, ecases, sizes = exhaustive_cases(cx)
    ecases = build_trees(cx, [s], ecases)
    for c in ecases:
        c.feat = merge_features(tg.untok(c.s, c.t) if c.t != "-" else [], tg.untok(c.s, c.src) if c.src != "-" else [])
        cx.dist["pair:exhaustive"] += 1
    process_merge(cx, [s], ecases, "x", cx.sub_rng("exh"), all_opts=True, laws=cx.n(1.0, 4), budget=budget)
    cx.exhaustive = True
    cx.notes.append("exhaustive: all ordered pairs of the small states of one node kind, %d pairs (%s), all 8 merge option sets"
                    % (len(ecases), ", ".join("%s %d" % kv for kv in sizes.items())))
    cx.notes.append("pairs: %d random + %d exhaustive over %d schemas" % (len(cases), len(ecases), len(all_schemas) + 1))
    # typed values (union, bits, binary, identityref, ...) loaded through XML / JSON / LYB: laws on the implementation only
    from checks import duplaw
    duplaw.run_duplaw(cx)

def load_corpus(cx):
    d = os.path.join(paths.CORPUS, "merge")
    out = []
    if not os.path.isdir(d):
        return out
    for fn in sorted(os.listdir(d)):
        if fn.endswith(".json"):
            j = json.load(open(os.path.join(d, fn)))
            sj = j["schema"]
            if "hand" in sj:
                s = [x for x in hand_schemas() + [exhaustive_schema()] if x.name == sj["hand"]][0]
            else:
                s = tg.gen_schema(random.Random(sj["gen"][0]), sj["gen"][1], **sj.get("kw", {}))
            out += [Case(s, tg.parse_dump(s, a), tg.parse_dump(s, b), "corpus") for a, b in j["pairs"]]
    return out


def replay(cx, payload):
    """re-run the failing case of a replay file"""
    f = payload.get("failure", {}).get("case") or {}
    if "schema_dsl" not in f:
        return run(cx)
    from checks.c06 import ReplaySchema
    s = ReplaySchema(f["schema_dsl"], f["schema_yang"])
    c = Case(s, None, None, "replay")
    c.t, c.src = f.get("T", "-"), f.get("S", "-")
    c.feat = f.get("features", [])
    c.variant = f.get("variant", "valid")
    d = tg.hx(s.dsl())
    op = f.get("op")
    o = f.get("opts") or 0
    if op in ("mlaw", "merge"):
        oc = o & ~M_DESTRUCT
        rep, crashes = run_impl(cx, [s], ["l0 %s mlaw %s %s %s %d 1" % (COMP, d, c.t, c.src, oc)])
        if crashes:
            cx.fail(COMP, "harness aborted while the merge laws were evaluated (%s)" % sanitizer_line(crashes[0].get("stderr", "")),
                    payload_of(c, "mlaw", "crash", "crash", oc, {"stderr": crashes[0].get("stderr", "")[-STDERR_KEEP:]}))
        else:
            eval_mlaw(cx, c, oc, rep.get("l0", ["err", "NoReply"]))
        ri, crashes = run_impl(cx, [s], ["m0 %s merge %s %s %s %d %d" % (COMP, d, c.t, c.src, o, f.get("api") or 0)])
        rm = run_model(cx, [s], ["m0 %s merge %s %s %s %d %d" % (COMP, d, c.t, c.src, o, f.get("api") or 0)])
        if not crashes and ri.get("m0") != rm.get("m0") and not (o & M_DESTRUCT):
            cx.disagree(COMP, "merge (replay)", ri.get("m0"), rm.get("m0"))
    elif op == "indep":
        seed = f.get("seed") or 0
        rep, crashes = run_impl(cx, [s], ["i0 %s indep %s %s %s %d %d" % (COMP, d, c.t, c.src, o, seed)])
        if crashes:
            cx.fail(COMP, "sanitizer abort after a merge while an operand was edited / freed (%s)" % sanitizer_line(crashes[0].get("stderr", "")),
                    payload_of(c, "indep", "crash", "crash", o, {"seed": seed, "stderr": crashes[0].get("stderr", "")[-STDERR_KEEP:]}))
        else:
            eval_indep(cx, c, o, seed, rep.get("i0", ["err", "NoReply"]))
    elif op in ("dlaw", "dup"):
        ni, mode, seed, feat = f.get("node") or 0, f.get("mode") or 0, f.get("seed") or 0, f.get("features", [])
        rep, crashes = run_impl(cx, [s], ["e0 %s dlaw %s %s %d %d %d %d" % (COMP, d, c.t, ni, o, mode, seed)])
        if crashes:
            cx.fail(COMP, "sanitizer abort after a dup while original / duplicate was edited / freed (%s)" % sanitizer_line(crashes[0].get("stderr", "")),
                    dup_payload(c, "dlaw", "crash", "crash", ni, o, mode, seed, feat, crashes[0].get("stderr", "")))
        else:
            eval_dlaw(cx, c, ni, o, mode, seed, feat, rep.get("e0", ["err", "NoReply"]))


payload_of = payload
