"""Generators of component `path` (C15): module pairs (base `mma` + augmenting `mmb`), instance documents, value pools,
path mutations and the path micro-grammar.  Every random choice comes from the rng passed in."""
import itertools
from xml.sax.saxutils import escape as _xesc

NS = {"mma": "urn:mma", "mmb": "urn:mmb"}

# ------------------------------------------------------------------------------------------- value pools
LONG1 = "L" * 257
LONG2 = ("ab'" * 400)
LONG3 = "x y" * 1500
STRINGS = ["", " ", "a", "b", "abc", "a b", "  lead", "trail  ", "'", '"', "a'b", 'a"b', "''", '""', "it's", 'say "hi"',
           "[", "]", "[1]", "a]b[", "[k='v']", "[.='x']", "/", "/mma:c/l", "a/b", "=", "k=v", "k='v'", ".", "..", "*", "@", "$v", "|",
           "1", "0", "-1", "01", "1.5", "or", "and", "a:b", ":", "::", "é", "ü€", "€", "\U0001F600", "·x", "á",
           "a\tb", "a\nb", "&", "<", ">", "]]>", "&amp;", "#", "\\", "\\'", "%s", "%n%n", LONG1, LONG2, LONG3]
BOTH_QUOTES = ["'\"", "a'b\"c", "\"'", "it's \"x\"", "x\"'" * 50]


def xml_text(s):
    out = _xesc(s)
    return out.replace("\r", "&#13;").replace("\t", "&#9;").replace("\n", "&#10;")


class Ty:
    """A YANG type: `yang` text, and a pool of (lexical, canonical-ish key) values; values with different keys are
    different values (list keys and leaf-list entries are drawn without repeating a key)."""
    def __init__(self, name, yang, values, needs_ns=False):
        self.name, self.yang, self.values, self.needs_ns = name, yang, values, needs_ns


def _ints(lo, hi, extra=()):
    vals = [(str(v), v) for v in (lo, hi, 0, 1, -1 if lo < 0 else 2, 7, 10, 42, 99)]
    vals += [("+7", 7), ("007", 7), (" 10 ", 10), ("+0", 0), ("-0", 0), ("000", 0), ("+01", 1), ("-07", -7), (str(hi - 1), hi - 1)] + list(extra)
    seen, out = set(), []
    for lex, k in vals:
        if lo <= k <= hi:
            out.append((lex, k))
    return out


def types():
    t = {}
    t["string"] = Ty("string", "string", [(s, s) for s in STRINGS])
    t["qstring"] = Ty("qstring", "string", [(s, s) for s in STRINGS + BOTH_QUOTES])
    t["int8"] = Ty("int8", "int8", _ints(-128, 127))
    t["uint32"] = Ty("uint32", "uint32", _ints(0, 4294967295))
    t["int64"] = Ty("int64", "int64", _ints(-9223372036854775808, 9223372036854775807))
    t["boolean"] = Ty("boolean", "boolean", [("true", True), ("false", False)])
    t["enum"] = Ty("enum", "enumeration { enum e1; enum \"e 2\"; enum \"it's\"; enum \"q\\\"d\"; enum \"a'b\\\"c\"; enum \"[x]\"; enum \"/y=z\"; enum été; }",
                   [(s, s) for s in ["e1", "e 2", "it's", 'q"d', "a'b\"c", "[x]", "/y=z", "été"]])
    t["dec64"] = Ty("dec64", "decimal64 { fraction-digits 2; }", [("1.5", 150), ("1.50", 150), ("-0.01", -1), ("0", 0), ("100", 10000), ("3.14", 314), ("+2.0", 200)])
    t["union"] = Ty("union", "union { type int8; type enumeration { enum e1; enum \"x y\"; enum \"it's\"; } type boolean; }",
                    [("5", "i5"), ("-5", "i-5"), ("e1", "e1"), ("x y", "x y"), ("it's", "it's"), ("true", "true"), ("+5", "i5")])
    t["bits"] = Ty("bits", "bits { bit b1; bit b2; bit b3; }", [("b1", 1), ("b2", 2), ("b1 b2", 3), ("b2 b1", 3), ("b3 b1", 5), ("", 0), ("b1 b2 b3", 7)])
    t["identityref"] = Ty("identityref", "identityref { base a:idb; }", [("a:id1", "a1"), ("a:id2", "a2"), ("b:id3", "b3"), ("b:id4", "b4")], needs_ns=True)
    t["instid"] = Ty("instid", "instance-identifier { require-instance false; }",
                     [("/a:tc/a:tl", 1), ("/a:tc", 2), ("/a:tc/a:tl2[.='x']", 3), ("/a:tc/a:tl2[.=\"it's\"]", 4), ("/a:tc/a:tq[a:k='a b']/a:v", 5),
                      ("/a:tc/a:tq[a:k=\"q'\"]", 6), ("/a:tc/a:tq[a:k='d\"q']", 7)], needs_ns=True)
    t["empty"] = Ty("empty", "empty", [("", 0)])
    # boundary-dense additions of the typed-key wave: a range with two parts, the F412 union (a later member's canonical string is
    # taken by an earlier member), an enumeration whose names look like numbers in front of an integer member, many bits
    t["uint8r"] = Ty("uint8r", "uint8 { range \"1..5 | 10..200\"; }", [("1", 1), ("5", 5), ("10", 10), ("200", 200), ("+3", 3), ("003", 3), ("0200", 200), ("199", 199)])
    t["f412u"] = Ty("f412u", "union { type string { length 1; } type int16; }",
                    [("1", "s1"), ("+1", "i1"), ("7", "s7"), ("07", "i7"), ("a", "sa"), ("12", "i12"), ("012", "i12"), ("-3", "i-3"), ("0", "s0"), ("+0", "i0")])
    t["enumint"] = Ty("enumint", "union { type enumeration { enum \"5\"; enum x; enum \"-1\"; } type int8; type boolean; }",
                      [("5", "e5"), ("+5", "i5"), ("x", "ex"), ("-1", "e-1"), ("-01", "i-1"), ("true", "true"), ("42", "i42"), ("042", "i42")])
    t["bits9"] = Ty("bits9", "bits { bit a; bit b { position 7; } bit c { position 8; } bit dd { position 31; } bit e { position 32; } }",
                    [("a", 1), ("e a", 3), ("a e", 3), ("b c", 4), ("c  b", 4), ("dd", 5), ("e dd c b a", 31), ("", 0), ("c", 6)])
    # key types through the C03 models of this wave: hex-string family (upper-case input, lower-case canonical), date-and-time (canonical
    # = the UTC instant), binary (canonical = re-encoded base64), pattern string
    t["hexstr"] = Ty("hexstr", "yang:hex-string", [("ab:cd", "abcd"), ("AB:CD", "abcd"), ("00", "00"), ("0A:0b:0C", "0a0b0c"), ("ff", "ff"), ("0a:0B:0c", "0a0b0c"), ("DE:AD:BE:EF", "deadbeef")])
    t["mac"] = Ty("mac", "yang:mac-address", [("00:11:22:aa:BB:cc", 1), ("00:11:22:AA:bb:CC", 1), ("ff:ff:ff:ff:ff:ff", 2), ("FF:FF:FF:FF:FF:FE", 3), ("01:23:45:67:89:ab", 4)])
    t["uuid"] = Ty("uuid", "yang:uuid", [("F81D4FAE-7DEC-11D0-A765-00A0C91E6BF6", 1), ("f81d4fae-7dec-11d0-a765-00a0c91e6bf6", 1), ("00000000-0000-0000-0000-000000000000", 2),
                                          ("ABCDEFAB-cdef-ABCD-efab-CDEFABCDEFAB", 3)])
    t["dt"] = Ty("dt", "yang:date-and-time", [("2020-01-01T00:00:00Z", 1), ("2020-01-01T01:00:00+01:00", 1), ("2021-06-15T12:30:45.5Z", 2), ("2021-06-15T12:30:45.50Z", 3),
                                               ("1999-12-31T23:59:59-00:00", 4), ("2019-12-31T19:00:00-05:00", 1), ("2000-02-29T23:59:59+00:00", 5)])
    t["bin"] = Ty("bin", "binary { length \"1..6\"; }", [("QQ==", "A"), ("QUI=", "AB"), ("QUJD", "ABC"), ("/+8=", "x"), ("QUJDRA==", "ABCD")])
    t["pstr"] = Ty("pstr", "string { length \"1..4\"; pattern \"[a-c]+\"; pattern \"a.*\" { modifier invert-match; } }", [("b", "b"), ("bc", "bc"), ("cab", "cab"), ("bbbb", "bbbb"), ("c", "c")])
    t["dec64b"] = Ty("dec64b", "decimal64 { fraction-digits 1; range \"-10.0..10.0\"; }",
                     [("1", 10), ("1.0", 10), ("+1.0", 10), ("-0.5", -5), ("-.5", -5), ("10", 100), ("-10.0", -100), ("0.0", 0), ("00.1", 1)])
    return t


TYPES = types()
KEY_TYPES_TYPED = ["string", "qstring", "int8", "uint32", "int64", "boolean", "enum", "dec64", "union", "bits", "identityref", "instid",
                   "uint8r", "f412u", "enumint", "bits9", "dec64b", "int8", "identityref", "hexstr", "mac", "uuid", "dt", "bin", "pstr"]
LEAF_TYPES_TYPED = KEY_TYPES_TYPED + ["empty"]


# ------------------------------------------------------------------------------------------- schema DSL
class SN:
    def __init__(self, kind, name, mod, config=True, typ=None, keys=(), children=None, out_children=None, user=False):
        self.kind = kind            # container list keyless leaflist leaf rpc action notif
        self.name, self.mod, self.config, self.typ = name, mod, config, typ
        self.keys = list(keys)      # names of key leaves (they are the first children)
        self.children = children if children is not None else []
        self.out_children = out_children if out_children is not None else []   # rpc/action output
        self.user = user
        self.in_op = False          # below rpc/action/notification: no config statements

    def is_inner(self):
        return self.kind in ("container", "list", "keyless", "rpc", "action", "notif")


NAMES = ["c", "d", "l", "m", "ll", "sl", "kl", "x", "y", "z", "v", "w", "n1", "a-b", "a.b", "_u", "or", "and", "div", "mod", "node", "text", "self", "child"]
# several of these are prefixes of one another: the duplicate-key / key-name matching of ly_path must compare whole names
KEYN = ["k", "k1", "k2", "id", "name", "kk", "k12", "address", "address-family", "id2", "nam"]


class SchemaGen:
    def __init__(self, rng, typed):
        self.rng, self.typed = rng, typed
        self.uid = 0

    def pick_type(self, for_key):
        if not self.typed:
            return "string" if self.rng.random() < 0.75 else "qstring"
        r = self.rng
        if r.random() < 0.4:
            return "string" if r.random() < 0.6 else "qstring"
        return r.choice(KEY_TYPES_TYPED if for_key else LEAF_TYPES_TYPED)

    def fresh(self, used, pool=NAMES):
        r = self.rng
        for _ in range(50):
            n = r.choice(pool)
            if n not in used:
                used.add(n)
                return n
        self.uid += 1
        n = "g%d" % self.uid
        used.add(n)
        return n

    def children(self, parent_mod, config, in_op, depth, allow_action, used=None):
        """children of an inner node; `used` = (mod,name) pairs already taken among the siblings"""
        r = self.rng
        out = []
        used_by_mod = {"mma": set(), "mmb": set()}
        for (m, n) in (used or ()):
            used_by_mod[m].add(n)
        n_children = r.randrange(1, 5 if depth < 2 else 3)
        for _ in range(n_children):
            mod = parent_mod
            if parent_mod == "mma" and r.random() < 0.25:
                mod = "mmb"            # added by an augment of the second module (whole subtree belongs to mmb)
            # an augmenting child may reuse the name of a base sibling (told apart only by the module)
            if mod == "mmb" and used_by_mod["mma"] and r.random() < 0.4:
                cand = [n for n in used_by_mod["mma"] if n not in used_by_mod["mmb"]]
                name = r.choice(sorted(cand)) if cand else self.fresh(used_by_mod["mmb"])
                used_by_mod["mmb"].add(name)
            else:
                name = self.fresh(used_by_mod[mod])
                # names must be unique per module among siblings; across modules they may coincide
            out.append(self.node(name, mod, config, in_op, depth, allow_action))
        return out

    def node(self, name, mod, config, in_op, depth, allow_action):
        r = self.rng
        kinds = ["leaf", "leaflist", "leaflist", "container", "list", "list", "keyless"]
        if depth >= 3:
            kinds = ["leaf", "leaflist", "leaflist"]
        kind = r.choice(kinds)
        cfg = config and (r.random() < 0.7)
        if kind == "keyless" and not in_op:
            cfg = False
        if kind == "leaf":
            n = SN("leaf", name, mod, cfg, typ=self.pick_type(False))
        elif kind == "leaflist":
            n = SN("leaflist", name, mod, cfg, typ=self.pick_type(True), user=r.random() < 0.3)
            if n.typ == "empty":
                n.typ = "string"
        elif kind == "container":
            n = SN("container", name, mod, cfg)
            n.children = self.children(mod, cfg, in_op, depth + 1, allow_action)
        elif kind == "keyless":
            n = SN("keyless", name, mod, cfg)
            n.children = self.children(mod, cfg, in_op, depth + 1, False)
        else:
            nk = r.choice([1, 1, 2, 3])
            used = set()
            keys = [self.fresh(used, KEYN) for _ in range(nk)]
            n = SN("list", name, mod, cfg, keys=keys, user=r.random() < 0.3)
            kids = [SN("leaf", k, mod, cfg, typ=self.pick_type(True)) for k in keys]
            for k in kids:
                if k.typ == "empty":
                    k.typ = "string"
            rest = self.children(mod, cfg, in_op, depth + 1, allow_action, used=[(mod, k) for k in keys])
            n.children = kids + rest
        n.in_op = in_op
        if allow_action and not in_op and kind in ("container", "list") and r.random() < 0.25:
            a = SN("action", self.fresh({c.name for c in n.children if c.mod == mod}, ["act", "run", "do-it"]), mod)
            a.children = self.children(mod, True, True, 2, False)
            a.out_children = self.children(mod, True, True, 2, False)
            n.children.append(a)
        return n

    def module_set(self):
        r = self.rng
        top = []
        used = {"mma": set(), "mmb": set()}
        for _ in range(r.randrange(2, 5)):
            name = self.fresh(used["mma"])
            top.append(self.node(name, "mma", True, False, 0, True))
        if r.random() < 0.6:
            name = self.fresh(used["mmb"])
            top.append(self.node(name, "mmb", True, False, 1, False))
        # at least one top-level key-less list and state leaf-list now and then (position predicate at the top)
        if r.random() < 0.5:
            n = SN("keyless", self.fresh(used["mma"]), "mma", False)
            n.children = self.children("mma", False, False, 2, False)
            top.append(n)
        if r.random() < 0.5:
            top.append(SN("leaflist", self.fresh(used["mma"]), "mma", False, typ=self.pick_type(True)))
        for _ in range(r.randrange(1, 3)):
            rp = SN("rpc", self.fresh(used["mma"], ["op1", "op2", "get-x", "reset"]), "mma")
            rp.children = self.children("mma", True, True, 1, False)
            rp.out_children = self.children("mma", True, True, 1, False)
            top.append(rp)
        nt = SN("notif", self.fresh(used["mma"], ["ev1", "ev2", "alarm"]), "mma")
        nt.children = self.children("mma", True, True, 1, False)
        top.append(nt)
        for t in top:
            self._mark(t, False)
        return top

    def _mark(self, n, in_op):
        n.in_op = in_op
        below = in_op or n.kind in ("rpc", "action", "notif")
        for c in n.children + n.out_children:
            self._mark(c, below)


# ------------------------------------------------------------------------------------------- YANG rendering
def _ystr(s):
    return '"' + s.replace("\\", "\\\\").replace('"', '\\"') + '"'


def render_node(n, ind, parent_config, only_mod):
    """YANG text of node n (children of another module are left out: they are rendered as augments)"""
    p = "  " * ind
    cfg = ""
    if not n.in_op and n.kind not in ("rpc", "action", "notif") and parent_config and not n.config:
        cfg = p + "  config false;\n"
    kw = {"container": "container", "list": "list", "keyless": "list", "leaflist": "leaf-list", "leaf": "leaf", "rpc": "rpc", "action": "action",
          "notif": "notification"}[n.kind]
    s = "%s%s %s {\n" % (p, kw, n.name)
    if n.kind == "list":
        s += p + "  key %s;\n" % _ystr(" ".join(n.keys))
    s += cfg
    if n.kind in ("list", "leaflist") and n.user and not n.in_op and n.config:
        s += p + "  ordered-by user;\n"
    if n.kind in ("leaf", "leaflist"):
        ty = TYPES[n.typ].yang
        s += p + "  type %s%s\n" % (ty, "" if ty.endswith("}") else ";")
    if n.kind in ("rpc", "action"):
        s += p + "  input {\n" + "".join(render_node(c, ind + 2, True, only_mod) for c in n.children if c.mod == only_mod) + p + "  }\n"
        s += p + "  output {\n" + "".join(render_node(c, ind + 2, True, only_mod) for c in n.out_children if c.mod == only_mod) + p + "  }\n"
    else:
        s += "".join(render_node(c, ind + 1, n.config if not n.in_op else True, only_mod) for c in n.children if c.mod == only_mod)
    return s + p + "}\n"


def _augments(n, spath, out):
    """collect (target schema path, node, target config) for every top-most mmb node below the mma node n"""
    if n.kind in ("rpc", "action"):
        groups = [(n.children, spath + "/a:input"), (n.out_children, spath + "/a:output")]
    else:
        groups = [(n.children, spath)]
    for kids, target in groups:
        for c in kids:
            if c.mod == "mmb":
                out.append((target, c, True if (n.in_op or n.kind in ("rpc", "action", "notif")) else n.config))
            else:
                _augments(c, target + "/a:" + c.name, out)


def render_modules(top):
    a = ["module mma {", "  yang-version 1.1;", "  namespace \"urn:mma\";", "  prefix a;", "  import ietf-yang-types { prefix yang; }",
         "  identity idb;", "  identity id1 { base idb; }", "  identity id2 { base idb; }",
         # fixed targets for instance-identifier values
         "  container tc { leaf tl { type string; } leaf-list tl2 { type string; } list tq { key k; leaf k { type string; } leaf v { type string; } } }"]
    for n in top:
        if n.mod == "mma":
            a.append(render_node(n, 1, True, "mma"))
    a.append("}")
    augs = []
    for n in top:
        if n.mod == "mma":
            _augments(n, "/a:" + n.name, augs)
    b = ["module mmb {", "  yang-version 1.1;", "  namespace \"urn:mmb\";", "  prefix b;", "  import mma { prefix a; }", "  import ietf-yang-types { prefix yang; }",
         "  identity id3 { base a:idb; }", "  identity id4 { base a:idb; }"]
    for n in top:
        if n.mod == "mmb":
            b.append(render_node(n, 1, True, "mmb"))
    for target, node, pcfg in augs:
        b.append("  augment %s {\n%s  }" % (_ystr(target), render_node(node, 2, pcfg, "mmb")))
    b.append("}")
    return "\n".join(a) + "\n", "\n".join(b) + "\n"


# ------------------------------------------------------------------------------------------- instances
class InstGen:
    def __init__(self, rng, value_bias):
        self.rng = rng
        self.bias = value_bias          # extra weight of awkward strings

    def value(self, typ, used):
        """a lexical value whose key is not in `used` (None when the pool is exhausted)"""
        r = self.rng
        pool = [v for v in TYPES[typ].values if v[1] not in used]
        if not pool:
            return None
        lex, key = r.choice(pool)
        used.add(key)
        return lex

    def elem(self, n, pmod, text=None, kids=""):
        ns = ' xmlns="%s"' % NS[n.mod] if n.mod != pmod else ""
        if n.kind in ("leaf", "leaflist") and TYPES[n.typ].needs_ns:
            ns += ' xmlns:a="urn:mma" xmlns:b="urn:mmb"'
        if text is not None:
            return "<%s%s>%s</%s>" % (n.name, ns, xml_text(text), n.name)
        return "<%s%s>%s</%s>" % (n.name, ns, kids, n.name)

    def inst(self, n, pmod, depth, output=False):
        """XML of zero or more instances of schema node n"""
        r = self.rng
        if n.kind in ("rpc", "action", "notif"):
            return ""
        if n.kind == "leaf":
            if r.random() < 0.25:
                return ""
            return self.elem(n, pmod, self.value(n.typ, set()))
        if n.kind == "leaflist":
            cnt = r.choice([0, 1, 2, 3, 3, 5])
            used, out = set(), ""
            dup_ok = not n.config or n.in_op
            for _ in range(cnt):
                v = self.value(n.typ, set() if (dup_ok and r.random() < 0.3) else used)
                if v is None:
                    break
                out += self.elem(n, pmod, v)
            return out
        if n.kind == "container":
            if r.random() < 0.15:
                return ""
            return self.elem(n, pmod, kids=self.kids(n, depth, output))
        if n.kind == "keyless":
            return "".join(self.elem(n, pmod, kids=self.kids(n, depth, output)) for _ in range(r.choice([0, 1, 2, 3, 4])))
        # keyed list
        cnt = r.choice([0, 1, 2, 3, 4])
        seen, out = set(), ""
        for _ in range(cnt):
            kv = []
            for k in n.keys:
                kn = next(c for c in n.children if c.name == k and c.mod == n.mod)
                kv.append((kn, self.value(kn.typ, set())))
            # canonical-ish identity of the key tuple
            ident = tuple(next(key for lex, key in TYPES[kn.typ].values if lex == v) for kn, v in kv)
            if ident in seen or any(v is None for _, v in kv):
                continue
            seen.add(ident)
            body = "".join(self.elem(kn, n.mod, v) for kn, v in kv)
            body += self.kids(n, depth, output, skip=set(n.keys))
            out += self.elem(n, pmod, kids=body)
        return out

    def kids(self, n, depth, output, skip=()):
        cs = n.out_children if (output and n.kind in ("rpc", "action")) else n.children
        return "".join(self.inst(c, n.mod, depth + 1, output) for c in cs if not (c.name in skip and c.mod == n.mod and c.kind == "leaf"))

    def data_tree(self, top):
        return "".join(self.inst(n, None, 0) for n in top)

    def op_tree(self, n, output):
        """rpc / notification n as a whole"""
        return self.elem(n, None, kids=self.kids(n, 0, output))

    def action_tree(self, top, output):
        """find an action, instantiate the way down to it"""
        r = self.rng
        paths = []

        def walk(n, chain):
            if n.kind == "action":
                paths.append(chain + [n])
            if n.kind in ("container", "list"):
                for c in n.children:
                    walk(c, chain + [n])
        for t in top:
            walk(t, [])
        if not paths:
            return None
        chain = r.choice(paths)
        xml, pmod = "", None
        opens = []
        for n in chain[:-1]:
            ns = ' xmlns="%s"' % NS[n.mod] if n.mod != pmod else ""
            xml += "<%s%s>" % (n.name, ns)
            opens.append(n.name)
            if n.kind == "list":
                for k in n.keys:
                    kn = next(c for c in n.children if c.name == k and c.mod == n.mod)
                    xml += self.elem(kn, n.mod, self.value(kn.typ, set()))
            pmod = n.mod
        act = chain[-1]
        xml += self.elem(act, pmod, kids=self.kids(act, 0, output))
        for name in reversed(opens):
            xml += "</%s>" % name
        return xml


# ------------------------------------------------------------------------------------------- tree serialisation (python side)
def parse_ser(s):
    """tree serialisation -> nested lists [mod, name, kind, value, children]"""
    pos = 0
    def nodes():
        nonlocal pos
        out = []
        while pos < len(s) and s[pos] == "(":
            pos += 1
            f = []
            for _ in range(2):
                j = s.index(",", pos); f.append(_unhex(s[pos:j])); pos = j + 1
            kind = s[pos]; pos += 2
            j = s.index(",", pos); val = _unhex(s[pos:j]); pos = j + 1
            ch = nodes()
            assert s[pos] == ")"; pos += 1
            out.append([f[0], f[1], kind, val, ch])
        return out
    if s == "-":
        return []
    r = nodes()
    assert pos == len(s), (pos, len(s))
    return r


def parse_sser(s):
    """schema serialisation -> nested lists [mod, name, kind, children]"""
    pos = 0
    def nodes():
        nonlocal pos
        out = []
        while pos < len(s) and s[pos] == "(":
            pos += 1
            f = []
            for _ in range(2):
                j = s.index(",", pos); f.append(_unhex(s[pos:j])); pos = j + 1
            kind = s[pos]; pos += 2
            ch = nodes()
            assert s[pos] == ")"; pos += 1
            out.append([f[0], f[1], kind, ch])
        return out
    if s == "-":
        return []
    r = nodes()
    assert pos == len(s), (pos, len(s))
    return r


def _unhex(h):
    return b"" if h == "-" else bytes.fromhex(h)


def all_addrs(forest, prefix=()):
    for i, n in enumerate(forest):
        yield prefix + (i,)
        yield from all_addrs(n[4], prefix + (i,))


def node_at(forest, addr):
    n = None
    sibs = forest
    for i in addr:
        n = sibs[i]
        sibs = n[4]
    return n


def chain_of(forest, addr):
    """[(siblings, index, node)] from the top"""
    out, sibs = [], forest
    for i in addr:
        out.append((sibs, i, sibs[i]))
        sibs = sibs[i][4]
    return out


def addr_str(a):
    return ".".join(str(i) for i in a) if a else "-"


# ------------------------------------------------------------------------------------------- path mutations / micro-grammar
def mutate_path(rng, p):
    """one structure-aware mutation of a printed path (bytes)"""
    r = rng
    ops = ["dropPred", "swapPreds", "chgVal", "chgPos", "addPrefix", "dropPrefix", "swapQuote", "ws", "trunc", "dupPred", "numVal", "dotOnLeaf",
           "posOnAny", "star", "chgName", "trailing", "emptyPred", "dropSlash", "dquote", "renameKey", "prefixKey"]
    op = r.choice(ops)
    s = p.decode("utf-8", "surrogateescape")
    import re
    preds = list(re.finditer(r"\[[^\[\]]*\]", s))
    if op == "dropPred" and preds:
        m = r.choice(preds); s = s[:m.start()] + s[m.end():]
    elif op == "swapPreds" and len(preds) >= 2:
        i = r.randrange(len(preds) - 1); a, b = preds[i], preds[i + 1]
        if a.end() == b.start():
            s = s[:a.start()] + b.group(0) + a.group(0) + s[b.end():]
    elif op == "chgVal" and preds:
        m = r.choice(preds); s = s[:m.end() - 2] + r.choice(["x", " ", "", "é"]) + s[m.end() - 2:]
    elif op == "chgPos":
        s = re.sub(r"\[\d+\]", lambda m: "[%s]" % r.choice(["0", "1", "2", "3", "9", "01", "1.5", "1.", ".5", "4294967296", "4294967297",
                                                             "18446744073709551617", "99999999999999999999"]), s, count=1)
    elif op == "addPrefix":
        parts = s.split("/")
        if len(parts) > 2:
            i = r.randrange(2, len(parts))
            if ":" not in parts[i].split("[")[0]:
                parts[i] = r.choice(["mma:", "mmb:", "zz:"]) + parts[i]
            s = "/".join(parts)
    elif op == "dropPrefix":
        s = re.sub(r"/(mm[ab]):", "/", s, count=1)
    elif op == "swapQuote":
        s = s.replace("'", "\x00").replace('"', "'").replace("\x00", '"')
    elif op == "ws":
        i = r.randrange(len(s) + 1); s = s[:i] + r.choice([" ", "\t", "\n", "  "]) + s[i:]
    elif op == "trunc":
        parts = s.split("/")
        if len(parts) > 2:
            s = "/".join(parts[:r.randrange(2, len(parts))])
    elif op == "dupPred" and preds:
        m = r.choice(preds); s = s[:m.end()] + m.group(0) + s[m.end():]
    elif op == "numVal" and preds:
        m = r.choice(preds); s = s[:m.start()] + re.sub(r"=.*\]$", "=" + r.choice(["1", "12", "1.5", ".5"]) + "]", m.group(0)) + s[m.end():]
    elif op == "dotOnLeaf":
        s += r.choice(["[.='a']", "[.=1]", "[. = 'a' ]"])
    elif op == "posOnAny":
        parts = s.split("/")
        i = r.randrange(1, len(parts)); parts[i] = parts[i].split("[")[0] + "[%d]" % r.choice([1, 2, 3]); s = "/".join(parts)
    elif op == "star":
        s = re.sub(r"/([A-Za-z_][\w.-]*)$", "/*", s)
    elif op == "chgName":
        s = re.sub(r"/([A-Za-z_][\w.-]*)(\[|$)", lambda m: "/" + r.choice(NAMES) + m.group(2), s, count=1)
    elif op == "trailing":
        s += r.choice(["/", "//", "/.", "/..", "[", "]", "='x'", " x", "|/a:b"])
    elif op == "emptyPred":
        s += r.choice(["[]", "[ ]", "[k=]", "[='a']", "[k]", "[k='a'", "[1", "[.]"])
    elif op == "dropSlash":
        s = s[1:]
    elif op == "renameKey" and preds:
        m = r.choice(preds); s = s[:m.start()] + re.sub(r"^\[[^=.\d][^=]*=", "[" + r.choice(KEYN + ["zz", "x", "kk"]) + "=", m.group(0)) + s[m.end():]
    elif op == "prefixKey" and preds:
        m = r.choice(preds); s = s[:m.start()] + re.sub(r"^\[([^=.\d][^=]*)=", lambda mm: "[" + r.choice(["mma:", "mmb:", "zz:"]) + mm.group(1) + "=", m.group(0)) + s[m.end():]
    elif op == "dquote":
        s = s.replace("'", '"', 1)
    return s.encode("utf-8", "surrogateescape")


# ------------------------------------------------------------------------------------------- typed predicates
def pred_spans(s):
    """predicates of a printed path (str): [(start, end, step_index, name, quote, body)] for `[name='…']` / `[.="…"]`, quote-aware"""
    out, i, n, step = [], 0, len(s), 0
    while i < n:
        ch = s[i]
        if ch == "/":
            step += 1; i += 1
        elif ch == "[":
            j = s.find("=", i)
            if j < 0 or j + 1 >= n or s[j + 1] not in "'\"" or "]" in s[i:j]:
                k = s.find("]", i)
                i = n if k < 0 else k + 1
                continue
            q = s[j + 1]
            k = s.find(q, j + 2)
            if k < 0 or k + 1 >= n or s[k + 1] != "]":
                i = n
                continue
            out.append((i, k + 2, step, s[i + 1:j], q, s[j + 2:k]))
            i = k + 2
        else:
            i += 1
    return out


def literal_variants(rng, body):
    """non-canonical (or invalid) spellings of a canonical value: sign, leading / trailing zeros, blanks, bit order, identityref prefixes"""
    import re
    v = []
    if re.fullmatch(r"-?\d+", body) and len(body) < 25 and rng.random() < 0.45:
        # spellings whose value depends on the number base the store is asked to use (data: base 10 only)
        n = int(body)
        sg, a = ("-" if n < 0 else ""), abs(n)
        return rng.choice([sg + "0x%x" % a, sg + "0X%X" % a, sg + "0%o" % a, sg + "0" + str(a), sg + "00" + str(a), sg + "0" + str(a) + "0", "+" + str(a) if n >= 0 else "-0" + str(a),
                           sg + "0x0%x" % a, sg + "010", sg + "0x10", sg + "08"])
    if re.fullmatch(r"-?\d+", body):
        neg, digits = body.startswith("-"), body.lstrip("-")
        v += [("-0" if neg else "+0") + digits, ("-" if neg else "+") + digits if not neg else "-00" + digits, "0" + body if not neg else body, body + " ", " " + body,
              "\t" + body + "\n", body + ".0", "0x" + digits, str(int(body) + 1), body + "0", "+" + body, "--" + digits, body + "e0"]
    elif re.fullmatch(r"-?\d+\.\d+", body):
        v += ["+" + body, body + "0", "0" + body.lstrip("-") if not body.startswith("-") else "-0" + body[1:], body + "00", body.rstrip("0"), body.split(".")[0],
              "." + body.split(".")[1], body + " ", body.replace(".", ","), body + "1"]
    elif re.fullmatch(r"[A-Za-z_][\w.-]*:[A-Za-z_][\w.-]*", body):
        m, n = body.split(":", 1)
        v += [n, "a:" + n, "b:" + n, ("mmb:" if m == "mma" else "mma:") + n, m + ":" + n + "x", ":" + n, m + ":", " " + body, body + " ", m.upper() + ":" + n]
    elif re.fullmatch(r"[A-Za-z_][\w.-]*( [A-Za-z_][\w.-]*)+", body):
        parts = body.split(" ")
        v += [" ".join(reversed(parts)), "  ".join(parts), " " + body + " ", body + " " + parts[0], body + " zz", "\t".join(parts), parts[0], " ".join(parts[1:] + parts[:1])]
    elif body in ("true", "false"):
        v += [body.upper(), body + " ", " " + body, "1", "0", body[0], {"true": "false", "false": "true"}[body]]
    v += [body + " ", body.upper(), body.lower(), "", body * 2, "+" + body, "0" + body, body[::-1], body[:-1], "1", "x"]
    return rng.choice(v)


def mutate_typed(rng, p):
    """one mutation of a printed path that keeps its structure and changes how a typed predicate value is written, which key comes first,
    or how a key is named (bytes -> bytes)"""
    import re
    r = rng
    s = p.decode("utf-8", "surrogateescape")
    spans = pred_spans(s)
    if not spans:
        return mutate_path(rng, p)
    op = r.choice(["lit", "lit", "lit", "num", "perm", "perm", "dropkey", "dupkey", "swapval", "prefixkey", "quote", "renamekey", "generic"])
    by_step = {}
    for sp in spans:
        by_step.setdefault(sp[2], []).append(sp)
    multi = [v for v in by_step.values() if len(v) >= 2 and all(a[1] == b[0] for a, b in zip(v, v[1:]))]
    def put(sp, name, q, body):
        if q in body:
            q = "\"" if q == "'" else "'"
        return s[:sp[0]] + "[%s=%s%s%s]" % (name, q, body, q) + s[sp[1]:]
    if op == "lit":
        sp = r.choice(spans)
        return put(sp, sp[3], sp[4], literal_variants(r, sp[5])).encode("utf-8", "surrogateescape")
    if op == "num":
        sp = r.choice(spans)
        body = sp[5] if re.fullmatch(r"\d+(\.\d*)?", sp[5]) and r.random() < 0.6 else r.choice(["1", "7", "07", "1.5", "1.", ".5", "5", "0", "12", "012", "200"])
        return (s[:sp[0]] + "[%s=%s]" % (sp[3], body) + s[sp[1]:]).encode("utf-8", "surrogateescape")
    if op == "perm" and multi:
        grp = r.choice(multi)
        texts = [s[a[0]:a[1]] for a in grp]
        perm = texts[:]
        while perm == texts:
            r.shuffle(perm)
        return (s[:grp[0][0]] + "".join(perm) + s[grp[-1][1]:]).encode("utf-8", "surrogateescape")
    if op == "dropkey" and multi:
        sp = r.choice(r.choice(multi))
        return (s[:sp[0]] + s[sp[1]:]).encode("utf-8", "surrogateescape")
    if op == "dupkey":
        grp = r.choice(list(by_step.values()))
        sp = r.choice(grp)
        at = r.choice(grp)[1]
        return (s[:at] + s[sp[0]:sp[1]] + s[at:]).encode("utf-8", "surrogateescape")
    if op == "swapval" and multi:
        grp = r.choice(multi)
        a, b = r.sample(grp, 2)
        if a[0] > b[0]:
            a, b = b, a
        return (s[:a[0]] + "[%s=%s%s%s]" % (a[3], b[4], b[5], b[4]) + s[a[1]:b[0]] + "[%s=%s%s%s]" % (b[3], a[4], a[5], a[4]) + s[b[1]:]).encode("utf-8", "surrogateescape")
    if op == "prefixkey":
        sp = r.choice(spans)
        if sp[3] != ".":
            return put(sp, r.choice(["mma:", "mmb:", "zz:", "a:"]) + sp[3], sp[4], sp[5]).encode("utf-8", "surrogateescape")
    if op == "renamekey":
        sp = r.choice(spans)
        if sp[3] != ".":
            # a name that is a prefix / an extension of the real one, or another key name of the pool
            name = r.choice([sp[3][:-1] or "k", sp[3] + "k", sp[3] + "2", sp[3] + "-family", r.choice(KEYN)])
            return put(sp, name, sp[4], sp[5]).encode("utf-8", "surrogateescape")
    if op == "quote":
        sp = r.choice(spans)
        q = "\"" if sp[4] == "'" else "'"
        if q not in sp[5]:
            return (s[:sp[0]] + "[%s=%s%s%s]" % (sp[3], q, sp[5], q) + s[sp[1]:]).encode("utf-8", "surrogateescape")
    return mutate_path(rng, p)


def all_key_orders(p):
    """every ordering of the key predicates of every multi-key step of a printed path (the printed order excluded)"""
    s = p.decode("utf-8", "surrogateescape")
    by_step = {}
    for sp in pred_spans(s):
        by_step.setdefault(sp[2], []).append(sp)
    out = []
    for grp in by_step.values():
        if 2 <= len(grp) <= 3 and all(a[1] == b[0] for a, b in zip(grp, grp[1:])):
            texts = [s[a[0]:a[1]] for a in grp]
            for perm in itertools.permutations(texts):
                if list(perm) != texts:
                    out.append((s[:grp[0][0]] + "".join(perm) + s[grp[-1][1]:]).encode("utf-8", "surrogateescape"))
    return out


def value_variants(rng, val):
    if val is None:
        return rng.choice([None, b"x", b""])
    return rng.choice([val, val, literal_variants(rng, val.decode("utf-8", "surrogateescape")).encode("utf-8", "surrogateescape"), b"x", b"", None])


TOKENS_SMALL = [b"/", b"a", b"b:c", b"[", b"]", b"=", b".", b"'x'", b"1", b" ", b"k"]
TOKENS_MORE = [b"\"y\"", b"'", b"\"", b"0", b"1.5", b".5", b"$v", b"$", b"*", b"b:*", b"..", b"//", b"@", b"(", b")", b"|", b"-", b"+", b"!=", b"<", b">=", b",",
               b"or", b"and", b"div", b"::", b"child::a", b":", b"a:", b":a", b"a:b:c", b"\xc3\xa9", b"a\xc3\xa9", b"\xc3\x97", b"\xc2\xb7", b"\xff", b"\x01", b"\t",
               b"4294967296", b"00", b"k2", b"kk", b"a:k", b"9a", b"-a", b"a-", b"a.b", b"'it''s'", b"''", b"\"\""]


def micro_grammar(rng, n_random, exhaustive_len):
    """path strings: all sequences of small tokens up to `exhaustive_len`, then random sequences over the large alphabet and
    grammar-directed near-valid paths"""
    out = []
    for n in range(1, exhaustive_len + 1):
        for t in itertools.product(TOKENS_SMALL, repeat=n):
            out.append(b"".join(t))
    alpha = TOKENS_SMALL + TOKENS_MORE
    for _ in range(n_random):
        k = rng.randrange(1, 9)
        out.append(b"".join(rng.choice(alpha) for _ in range(k)))
    for _ in range(n_random):
        out.append(near_valid_path(rng))
    return out


def near_valid_path(rng):
    r = rng
    def name():
        return r.choice([b"a", b"b:c", b"mma:l", b"x-y", b"_z", b"*", b"b:*", b"\xc3\xa9", b"k", b"or"])
    def lit():
        body = r.choice([b"", b"v", b"a b", b"it's", b"say \"hi\"", b"[1]", b"/", b"=", b"\xe2\x82\xac", b"a'b\"c"])
        q = r.choice([b"'", b"\""])
        return q + body + q
    def ws():
        return r.choice([b"", b"", b"", b" ", b"\t", b"\n "])
    def pred():
        c = r.random()
        if c < 0.45:
            return b"".join(b"[" + ws() + r.choice([b"k", b"k2", b"kk", b"a:k", b"k\xc3\xa9", b"*"]) + ws() + b"=" + ws() + r.choice([lit(), lit(), b"12", b"1.5", b"$v"]) + ws() + b"]"
                            for _ in range(r.randrange(1, 4)))
        if c < 0.65:
            return b"[" + ws() + b"." + ws() + b"=" + ws() + r.choice([lit(), b"7", b"$v"]) + ws() + b"]"
        if c < 0.85:
            return b"[" + ws() + r.choice([b"1", b"2", b"0", b"00", b"010", b"1.5", b".5", b"4294967296", b"8589934592", b"4294967297", b"9223372036854775808",
                                           b"18446744073709551616"]) + ws() + b"]"
        return r.choice([b"[]", b"[k]", b"[k=]", b"[1][2]", b"[.='a'][.='b']", b"[k='a'][1]", b"[1][k='a']", b"['a']", b"[k='a']]"])
    s = b"" if r.random() < 0.15 else b"/"
    for i in range(r.randrange(1, 5)):
        if i:
            s += ws() + b"/" + ws()
        s += name()
        if r.random() < 0.5:
            s += ws() + pred()
    if r.random() < 0.1:
        s += r.choice([b"/", b" x", b"[", b"|a"])
    return s
