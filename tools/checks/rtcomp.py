"""API-level print->parse round trip (C01) and independent-parser conformance (C12) over generated schemas and trees.

Python is the *independent encoder*: instances from vlib.treegen are rendered to XML and to RFC 7951 JSON here, with no
libyang code involved; libyang parses them (`rt`, `cross`), prints them under every option set and re-parses its own output;
expat and Python's json read libyang's output and the recovered structure is compared with the tree libyang reports
(`view`)."""
import json, re, xml.parsers.expat
from vlib import paths
from vlib.proto import hexs, unhex

HARNESS = "api_rt"
FMT = ["xml", "json", "lyb"]
WDN = ["explicit", "trim", "all", "all-tag", "impl-tag"]
# LY_TYPE_* base types (tree.h): 64-bit integers and decimal64 are JSON strings, other numbers and booleans literals
LY_TYPE = {1: "binary", 2: "uint8", 3: "uint16", 4: "uint32", 5: "uint64", 6: "string", 7: "bits", 8: "bool", 9: "dec64", 10: "empty", 11: "enum",
           12: "ident", 13: "inst", 14: "leafref", 15: "union", 16: "int8", 17: "int16", 18: "int32", 19: "int64"}
JSON_NUMBER = {"uint8", "uint16", "uint32", "int8", "int16", "int32"}


def xml_escape(b, attr=False):
    out = b.replace(b"&", b"&amp;").replace(b"<", b"&lt;").replace(b">", b"&gt;").replace(b"\r", b"&#13;")
    if attr:
        out = out.replace(b'"', b"&quot;").replace(b"\t", b"&#9;").replace(b"\n", b"&#10;")
    return out


def render_xml(schema, forest):
    ns = ("urn:verif:%s" % schema.name).encode()
    out = []

    def w(n, top):
        tag = n.sn.name.encode()
        open_ = b"<" + tag + (b' xmlns="' + ns + b'"' if top else b"")
        if n.sn.is_term():
            if n.val == b"" or n.sn.ty.name == "empty":
                out.append(open_ + b"/>")
            else:
                out.append(open_ + b">" + xml_escape(n.val) + b"</" + tag + b">")
        else:
            out.append(open_ + b">")
            for k in n.kids:
                w(k, False)
            out.append(b"</" + tag + b">")
    for n in forest:
        w(n, True)
    return b"".join(out)


def json_value(sn, val):
    t = sn.ty.name
    if t in ("int8", "uint8", "int32", "int16", "uint16", "uint32"):
        return int(val)
    if t == "boolean":
        return val == b"true"
    if t == "empty":
        return [None]
    return val.decode("utf-8")


def render_json(schema, forest):
    def level(nodes, top):
        obj = {}
        for n in nodes:
            name = (schema.name + ":" if top else "") + n.sn.name
            if n.sn.kind == "leaf":
                obj[name] = json_value(n.sn, n.val)
            elif n.sn.kind == "leaflist":
                obj.setdefault(name, []).append(json_value(n.sn, n.val))
            elif n.sn.kind == "list":
                obj.setdefault(name, []).append(level(n.kids, False))
            else:
                obj[name] = level(n.kids, False)
        return obj
    return json.dumps(level(forest, True), ensure_ascii=False).encode("utf-8")


# ---- what independent parsers recover ------------------------------------------------------------
def expat_structure(doc, qname_attrs=()):
    """-> list of (depth, namespace, localname, text, attributes) in document order, or None if not well-formed; the value of
    an attribute named in qname_attrs is a QName: its prefix is replaced by "{namespace in scope}" """
    res, stack, scope = [], [], {}
    p = xml.parsers.expat.ParserCreate("UTF-8", namespace_separator="\x01")
    def nsstart(prefix, uri):
        scope.setdefault(prefix, []).append(uri)
    def nsend(prefix):
        scope[prefix].pop()
    if qname_attrs:
        p.StartNamespaceDeclHandler, p.EndNamespaceDeclHandler = nsstart, nsend
    def start(name, attrs):
        ns, _, ln = name.rpartition("\x01")
        for k in attrs:
            if qname_attrs == "auto":
                # any value that reads as a QName whose prefix is bound in scope
                m = re.match(r"^([A-Za-z_][\w.-]*):([A-Za-z_][\w.-]*)$", attrs[k])
                if m and scope.get(m.group(1)):
                    attrs[k] = "{%s}%s" % (scope[m.group(1)][-1], m.group(2))
            elif k in qname_attrs:
                pfx, _, loc = attrs[k].rpartition(":")
                bound = scope.get(pfx or None) or ["?unbound"]
                attrs[k] = "{%s}%s" % (bound[-1], loc)
        stack.append([len(stack), ns, ln, [], attrs])
        res.append(stack[-1])
    def end(name):
        if qname_attrs == "auto":
            # character data that reads as a QName whose prefix is bound in the scope of the element (its own declarations are
            # still in force here: expat reports their end after the end of the element)
            m = re.match(r"^([A-Za-z_][\w.-]*):([A-Za-z_][\w.-]*)$", "".join(stack[-1][3]).strip())
            if m and scope.get(m.group(1)):
                stack[-1][3][:] = ["{%s}%s" % (scope[m.group(1)][-1], m.group(2))]
        stack.pop()
    def chars(d):
        if stack:
            stack[-1][3].append(d)
    p.StartElementHandler, p.EndElementHandler, p.CharacterDataHandler = start, end, chars
    try:
        p.Parse(b"<root-wrapper>" + doc + b"</root-wrapper>", True)
    except xml.parsers.expat.ExpatError:
        return None
    return [(d - 1, ns, ln, "".join(t), a) for d, ns, ln, t, a in res[1:]]


def toplevel_text(doc):
    out, depth = [], [0]
    p = xml.parsers.expat.ParserCreate("UTF-8")
    def start(name, attrs): depth[0] += 1
    def end(name): depth[0] -= 1
    def chars(d):
        if depth[0] == 1:
            out.append(d)
    p.StartElementHandler, p.EndElementHandler, p.CharacterDataHandler = start, end, chars
    try:
        p.Parse(b"<root-wrapper>" + doc + b"</root-wrapper>", True)
    except xml.parsers.expat.ExpatError:
        return ""
    return "".join(out)


def parse_view(text):
    rows = []
    for l in text.decode("utf-8", "replace").split("\n"):
        t = l.split(" ")
        if len(t) < 8:
            continue
        rows.append({"depth": int(t[0]), "module": t[1], "ns": unhex(t[2]).decode() if t[2] != "-" else "", "name": t[3], "kind": t[4],
                     "basetype": LY_TYPE.get(int(t[5]), "none") if t[5].isdigit() else "none", "dflt": t[6] == "1", "value": unhex(t[7]),
                     "metas": [tuple(m.split(",")) for m in t[8:]]})
    return rows


def expected_json(rows):
    """RFC 7951 encoding of the tree described by the view rows (independent of libyang's printer)."""
    def build(i, depth, parent_mod):
        obj = {}
        while i < len(rows) and rows[i]["depth"] == depth:
            r = rows[i]
            name = (r["module"] + ":" if r["module"] != parent_mod else "") + r["name"]
            if r["kind"] in ("leaf", "leaflist"):
                bt = r["basetype"]
                v = r["value"].decode("utf-8", "surrogateescape")
                if bt in JSON_NUMBER:
                    val = int(v)
                elif bt == "bool":
                    val = v == "true"
                elif bt == "empty":
                    val = [None]
                else:
                    val = v
                i += 1
                if r["kind"] == "leaflist":
                    obj.setdefault(name, []).append(val)
                else:
                    obj[name] = val
            else:
                sub, i = build(i + 1, depth + 1, r["module"])
                if r["kind"] == "list":
                    obj.setdefault(name, []).append(sub)
                else:
                    obj[name] = sub
        return obj, i
    return build(0, 0, None)[0]


def model_xml_print(cx, items, component):
    """(K) tree level: the Lean model of the XML tree printer (LyModel/XmlTree/Model.lean: namespace stack, metadata, escaping)
    applied to the view libyang reports must produce libyang's XML output byte for byte.  items: [(view_bytes, printed_xml)]"""
    reqs = ["%d xmltree print %s" % (i, hexs(v)) for i, (v, _) in enumerate(items)]
    if not reqs:
        return
    rm = cx.run_model(reqs)
    for i, (v, px) in enumerate(items):
        r = rm.get(str(i), ["err", "NoReply"])
        if r[:2] == ["err", "Unsupported"]:
            cx.count(None, False, component + ":xmltree-model:out-of-fragment")
            continue
        cx.count(("xmltree", v), bool(v), component + ":xmltree-model:" + r[0])
        if r[0] != "ok" or unhex(r[1]) != px:
            cx.disagree(component + "-xmltree", reqs[i][:400], ["ok", hexs(px)[:400]], [r[0], (r[1] if len(r) > 1 else "")[:400]])


def spec_xmldoc_vs_expat(cx, docs, component):
    """Guards the Lean document reader (LyModel/XmlTree/Spec.lean) itself: on every XML document at hand (libyang's output and
    the independent renderings, plus broken variants) it must report what expat reports: elements, expanded names, attributes,
    character data - or not well-formed."""
    rng = cx.sub_rng("xmldocguard")
    docs = list(dict.fromkeys(docs))
    broken = []
    for d in docs[:cx.n(150, 3000)]:
        if len(d) > 4:
            k = rng.randrange(1, len(d))
            broken.append(d[:k] + rng.choice([b"<", b"&", b'"', b">", b"</x>", b" a=\"1\" a=\"2\"", b"x:y=\"1\""]) + d[k:])
            broken.append(d[:k])
    alld = docs + broken
    reqs = ["%d xmltree specparse %s" % (i, hexs(d)) for i, d in enumerate(alld)]
    rm = cx.run_model(reqs) if reqs else {}
    for i, d in enumerate(alld):
        r = rm.get(str(i), ["err", "NoReply"])
        st = expat_structure(d)
        if b"<!" in d or b"<?" in d or b"'" in d.split(b">")[0] or any(tok in d for tok in (b"='",)):
            continue        # outside the reader's fragment (comments, PIs, CDATA, single-quoted attributes)
        try:
            if any(ord(ch) in (0xFFFE, 0xFFFF) for ch in d.decode("utf-8")):
                continue
        except UnicodeDecodeError:
            continue
        mine = None
        if r[0] == "ok":
            mine = []
            for tok in ([] if r[1:] == ["-"] else r[1:]):
                dd, ns, nm, tx, at = tok.split("|")
                attrs = sorted((unhex(a.split(":")[0]).decode() + "|" + unhex(a.split(":")[1]).decode(), unhex(a.split(":")[2]).decode("utf-8", "replace")) for a in at.split(",") if a)
                mine.append((int(dd), unhex(ns).decode(), unhex(nm).decode(), unhex(tx).decode("utf-8", "replace"), tuple(attrs)))
        theirs = None
        if st is not None:
            theirs = []
            for j, (dd, ns, ln, text, attrs) in enumerate(st):
                a = sorted(((k.rpartition("\x01")[0] + "|" + k.rpartition("\x01")[2]), v) for k, v in attrs.items())
                theirs.append((dd, ns, ln, text, tuple(a)))
        cx.count(("xmldoc", d), True, component + ":xmldoc-vs-expat:" + ("ok" if theirs is not None else "reject"))
        if mine is None and theirs is not None and toplevel_text(d).strip("") != "":
            continue        # character data between top-level elements: legal only because of the wrapper expat is given
        if mine != theirs:
            # expat accepts some things the strict reader does not need to (white space in end tags etc. are handled); report
            cx.disagree(component + "-xmldoc-spec", reqs[i][:6000], ["expat", str(theirs)[:300]], [r[0], str(mine)[:300]])


def model_json_print(cx, docs, ctxlines, component):
    """(K) tree level: the Lean model of the JSON tree printer (LyModel/JsonTree/Model.lean: comma bookkeeping with level /
    level_printed, open arrays, skipped nodes, metadata objects and leaf-list metadata arrays, value typing from the generated
    table) applied to the printer's view libyang reports must produce libyang's JSON output byte for byte, under with-defaults
    explicit, trim and report-all.  docs: [(ctx_index, fmt, doc)]"""
    lines, meta = [], {}
    last = None
    for ci, fmt, doc in docs:
        if ci != last:
            lines.append("x%d rt ctx %s" % (len(lines), ctxlines[ci]))
            last = ci
        for wd in (0, 1, 2):
            lines.append("%d rt jview %s %s %d" % (len(lines), fmt, hexs(doc), wd))
            meta[len(lines) - 1] = (doc, wd)
    if not lines:
        return
    ri = run_batched(cx, lines, component)
    reqs, back = [], []
    for i, (doc, wd) in meta.items():
        r = ri.get(str(i), ["err", "NoReply"])
        if r[0] != "ok":
            cx.count(None, False, component + ":jsontree-model:" + " ".join(r[:2]))
            continue
        reqs.append("%d jsontree print %s" % (len(back), r[2]))
        reqs.append("s%d jsontree spec %s" % (len(back), r[2]))
        # the independent RFC 8259 document reader of the Lean side (JsonTree/Doc.lean, what Props.C12.json_document_faithful is
        # about) on libyang's real output and on damaged copies of it: must agree with Python's json (acceptance and content)
        pj0 = unhex(r[1])
        # trees with metadata included: the state-free RFC 7951/7952 expectation jsonViewM (JsonTree/MetaView.lean) of the view against
        # the independent reader's result on libyang's own bytes - every annotation on the right instance
        reqs.append("j%d jsontree jcheck %s %s" % (len(back), r[2], hexs(pj0)))
        reqs.append("p%d jsontree docparse %s" % (len(back), hexs(pj0)))
        bad = damage_json(cx, pj0, len(back))
        reqs.append("q%d jsontree docparse %s" % (len(back), hexs(bad)))
        back.append((doc, wd, pj0, r[2], bad))
    rm = cx.run_model(reqs) if reqs else {}
    nj = njm = njok = 0
    for i, (doc, wd, pj, view, bad) in enumerate(back):
        jr = rm.get("j%d" % i, ["err", "NoReply"])
        if jr[:2] == ["err", "Unsupported"]:
            pass
        elif jr[0] != "ok" or len(jr) < 5:
            cx.disagree(component + "-jsonmeta", ("j%d jsontree jcheck %s %s" % (i, view, hexs(pj)))[:6000], ["ok"], jr[:3])
        else:
            hyp, hasm, same, read = jr[1:5]
            nj += 1; njm += hasm == "1"
            cx.count(None, False, component + ":jsonmeta:hyp=%s:metadata=%s:reader on libyang's bytes %s" % (
                hyp, hasm, {"1": "= jsonViewM", "0": "DIFFERENT", "x": "NOT JSON"}.get(read, read)))
            if hyp == "1":
                if read == "1":
                    njok += 1
                else:
                    # the expectation is a specification: a difference is a wrong attachment / layout in the output (or a wrong spec)
                    cx.disagree(component + "-jsonmeta", ("j%d jsontree jcheck %s %s" % (i, view, hexs(pj)))[:6000], ["ok", "reader(libyang) = jsonViewM"], jr[:5])
    if nj:
        cx.rule(component + " jsonmeta: %d JSON views (%d with metadata objects / leaf-list metadata arrays): the independent RFC 8259 reader applied to "
                "libyang's own bytes = the state-free RFC 7951/7952 expectation jsonViewM of the view for %d of them (hypotheses jmetaOk evaluated "
                "by the driver); annotations sit on the right instance by array index" % (nj, njm, njok))
    for i, (doc, wd, pj, view, bad) in enumerate(back):
        for tag, text in (("p", pj), ("q", bad)):
            mine = rm.get("%s%d" % (tag, i), ["err", "NoReply"])
            try:
                text.decode("utf-8")
            except UnicodeDecodeError:
                # the damage broke a multi-byte character: the byte-level reader does not judge UTF-8 well-formedness
                cx.count(None, False, component + ":jsondoc-vs-python:ill-formed-utf8(out-of-fragment)")
                continue
            want = py_json_canon(text)
            cx.count(("jsondoc", text), True, component + ":jsondoc-vs-python:" + ("ok" if want is not None else "reject"))
            got = mine[1] if mine[0] == "ok" else None
            if got != want and mine[:2] != ["err", "NoReply"]:
                cx.disagree(component + "-jsondoc", "jsontree docparse " + text.decode("utf-8", "replace")[:1500], ["pyjson", str(want)[:1500]], mine[:2])
    for i, (doc, wd, pj, view, bad) in enumerate(back):
        # the declarative specification (JsonTree/Spec.lean, what Props.C12.json_tree_refines_spec is about) on the same view
        sp = rm.get("s%d" % i, ["err", "NoReply"])
        if sp[0] == "ok":
            cx.count(("jsontree-spec", view, wd), True, component + ":jsontree-spec:%s" % WDN[wd])
            if unhex(sp[1]) != pj:
                cx.disagree(component + "-jsontree-spec", ("jsontree spec wd=%s " % WDN[wd]) + view[:3000], ["ok", pj.decode("utf-8", "replace")[:1500]],
                            ["ok", unhex(sp[1]).decode("utf-8", "replace")[:1500]])
        r = rm.get(str(i), ["err", "NoReply"])
        if r[:2] == ["err", "Unsupported"]:
            cx.count(None, False, component + ":jsontree-model:out-of-fragment")
            continue
        cx.count(("jsontree", view, wd), True, component + ":jsontree-model:%s:%s" % (WDN[wd], r[0]))
        if r[0] != "ok" or unhex(r[1]) != pj:
            cx.disagree(component + "-jsontree", ("jsontree print wd=%s " % WDN[wd]) + view[:3000], ["ok", pj.decode("utf-8", "replace")[:1500]],
                        [r[0], (unhex(r[1]).decode("utf-8", "replace") if r[0] == "ok" else "")[:1500]])


def damage_json(cx, text, salt):
    """a structurally damaged copy of a JSON text (mostly no longer JSON): guards the reader's rejections"""
    rng = cx.sub_rng("damage%d" % salt)
    if len(text) < 3:
        return text + b","
    k = rng.randrange(8)
    i = rng.randrange(len(text))
    if k == 0:
        return text[:i] + text[i + 1:]
    if k == 1:
        return text[:i] + rng.choice([b",", b":", b"}", b"]", b"{", b"[", b'"', b" ", b"0", b"-", b"e"]) + text[i:]
    if k == 2:
        return text[:i]
    if k == 3:
        return text.replace(b",", b",,", 1)
    if k == 4:
        return text.replace(b":", b" :\t", 1).replace(b",", b" ,\n ", 1)          # insignificant white space: still JSON
    if k == 5:
        return text.replace(b"[", b"[ ", 1).replace(b"{", b"{\r\n", 1) + b" \n"       # still JSON
    if k == 6:
        return text.replace(b":1", b":01", 1).replace(b":-", b":+", 1)
    return text + rng.choice([b"x", b"}", b",", b" ", b"null"])


def py_json_canon(text):
    """Python's json as the external reference: canonical rendering like the driver's `canon`, None if not RFC 8259 JSON"""
    class L(str):
        pass

    def bad(_):
        raise ValueError("constant")
    try:
        t = text.decode("utf-8")
        v = json.loads(t, object_pairs_hook=lambda ps: ("O", ps), parse_int=L, parse_float=L, parse_constant=bad)
    except Exception:
        return None

    def has_surrogate(x):
        return any(0xD800 <= ord(c) <= 0xDFFF for c in x)

    def hx(b):
        return b.hex() or "-"            # the driver's Hex.enc writes "-" for the empty string

    def canon(x):
        if isinstance(x, L):
            return "l" + hx(x.encode())
        if isinstance(x, str):
            if has_surrogate(x):
                raise ValueError("lone surrogate")
            return "s" + hx(x.encode("utf-8"))
        if x is True:
            return "l" + hx(b"true")
        if x is False:
            return "l" + hx(b"false")
        if x is None:
            return "l" + hx(b"null")
        if isinstance(x, tuple) and x[0] == "O":
            for k, _ in x[1]:
                if has_surrogate(k):
                    raise ValueError("lone surrogate")
            return "{" + ",".join(hx(k.encode("utf-8")) + ":" + canon(w) for k, w in x[1]) + "}"
        if isinstance(x, list):
            return "[" + ",".join(canon(w) for w in x) + "]"
        raise ValueError("type")
    try:
        return canon(v)
    except ValueError:
        return None


def classify(component, what, case):
    """recognise the specific known defects / documented limits of the pinned tree (DESIGN.md §6); the decision was
    taken in `triage_cell` from the actual difference between the original and the re-parsed tree"""
    return case.get("triage")


def flat(doc, lists=()):
    """impl-tagged XML print -> Counter of (path, text, is_default) for terminal nodes and presence of inner nodes; elements
    named in `lists` (list nodes) carry their position among the same-named siblings in the path (`l3[2]/l10[1]/ll12`), so
    that equal content in different list instances is told apart"""
    import collections
    st = expat_structure(doc)
    c = collections.Counter()
    if st is None:
        return None
    path, seen = [], [collections.Counter()]
    for i, (d, ns, ln, text, attrs) in enumerate(st):
        del path[d:]
        del seen[d + 1:]
        seg = ln
        if ln in lists:
            seen[d][ln] += 1
            seg = "%s[%d]" % (ln, seen[d][ln])
        path.append(seg)
        seen.append(collections.Counter())
        leafish = not (i + 1 < len(st) and st[i + 1][0] == d + 1)
        dflt = any(k.endswith("default") and v == "true" for k, v in attrs.items())
        c[("/".join(path), text if leafish else None, dflt)] += 1
    return c


def triage_cell(schema, cell, orig_xml, back_xml, err=""):
    """-> finding id when the difference is exactly one of the recorded ones, else None"""
    fo, wd, res = cell
    byname = {n.name: n for n in schema.nodes}
    lists = set(n.name for n in schema.nodes if n.kind == "list")
    def sn(path):
        return byname.get(path.split("/")[-1].split("[")[0])
    a = flat(orig_xml, lists)
    if res == "R" and wd in ("trim", "all-tag") and err.startswith("Mandatory choice") and a is not None:
        # F46 in a mandatory choice: the dropped default-valued leaf was what selected the case
        b = flat(back_xml, lists)
        if b is not None:
            # what the (parse-only) re-read lacks must be exactly default-valued content that selected a case
            import collections
            a2 = collections.Counter((p, t) for (p, t, d) in a.elements())
            b2 = collections.Counter((p, t) for (p, t, d) in b.elements())
            kinds, selects = set(), False
            for (p, t) in (a2 - b2).elements():
                n = sn(p)
                if n is None:
                    return None
                if n.kind in ("container", "list") or t is None:
                    continue          # an inner node that became empty / disappeared with its only content
                if n.kind == "leaflist" and t.encode() in n.dflts:
                    kinds.add("F17")  # an explicit leaf-list instance equal to one of the defaults is treated as default
                    selects = selects or in_nondefault_case(n)
                elif n.kind == "leaf" and n.dflt is not None and t.encode() == n.dflt and in_nondefault_case(n):
                    kinds.add("F46")
                    selects = True
                else:
                    return None
            if not selects:
                return None           # nothing of what was dropped selected a case: the rejection has another cause
            if "F46" in kinds:
                return "F46"
            return "F17" if kinds else None
        for (p, t, d) in a.elements():
            n = sn(p)
            if n is not None and n.kind == "leaf" and n.dflt is not None and t is not None and t.encode() == n.dflt and in_nondefault_case(n):
                return "F46"
        return None
    if res != "!":
        return None
    b = flat(back_xml, lists)
    if a is None or b is None:
        return None
    missing, extra = a - b, b - a
    if wd == "explicit":
        # F44: RFC 6243 explicit mode reports default-valued *state* nodes, untagged: they come back explicit
        m = sorted((p, t) for (p, t, d) in missing.elements() if d)
        e = sorted((p, t) for (p, t, d) in extra.elements() if not d)
        if m and m == e and len(m) == sum(missing.values()) == sum(extra.values()) and all(sn(p) is not None and not sn(p).config for p, _ in m):
            return "F44"
        return None
    if wd in ("trim", "all-tag"):
        import collections
        a2 = collections.Counter((p, t) for (p, t, d) in a.elements())
        b2 = collections.Counter((p, t) for (p, t, d) in b.elements())
        missing2, extra2 = a2 - b2, b2 - a2        # the explicit/implicit distinction itself is allowed to change
        kinds = set()
        for (p, t) in extra2.elements():
            # whatever re-appears must be implicit default content (of the leaf-list itself, or of a now selected default case)
            n = sn(p)
            if t is None or (n is not None and n.kind in ("container", "list")):
                continue          # (an inner node that lost all its content shows up as an empty element)
            if n is None:
                return None
            if n.kind == "leaflist" and t.encode() in n.dflts:
                kinds.add("F17x")
            elif n.kind == "leaf" and n.dflt is not None and t.encode() == n.dflt:
                kinds.add("dfl")
            else:
                return None
        for (p, t) in missing2.elements():
            n = sn(p)
            if t is None or (n is not None and n.kind in ("container", "list")):
                continue          # an ancestor that disappeared with its only content
            if n is None:
                return None
            if n.kind == "leaflist" and t.encode() in n.dflts:
                kinds.add("F17")
            elif n.kind == "leaf" and n.dflt is not None and t.encode() == n.dflt and in_nondefault_case(n):
                kinds.add("F46")
            else:
                return None
        if not missing2 and not extra2:
            # same content, different order: a user-ordered leaf-list whose explicit instances all equal schema defaults was
            # dropped as "default" and re-created in the order of the default statements
            if any(n.kind == "leaflist" and n.dflts and n.userord for n in schema.nodes):
                return "F17"
            return None
        if "F46" in kinds and not ({"F17", "F17x"} & kinds):
            return "F46"
        if {"F17", "F17x"} & kinds:
            return "F17"
        return None
    return None


def in_nondefault_case(n):
    p = n.parent
    while p is not None:
        if p.kind == "case":
            ch = p.parent
            return ch is not None and ch.dflt != p.name
        if p.kind in ("container", "list"):
            p = p.parent
            continue
        p = p.parent
    return False


def run_batched(cx, lines, component, per_batch=12, workers=8):
    """the request stream is a sequence of groups, each starting with a `ctx` request; groups are dealt to several harness
    processes so that no single process runs for long and all cores are used"""
    import concurrent.futures
    groups, cur = [], []
    for l in lines:
        if l.split()[2] == "ctx" and cur:
            groups.append(cur); cur = []
        cur.append(l)
    if cur:
        groups.append(cur)
    batches = [sum(groups[i:i + per_batch], []) for i in range(0, len(groups), per_batch)]
    cx.harness(HARNESS)          # build once, before the pool starts
    res = {}
    with concurrent.futures.ThreadPoolExecutor(max_workers=workers) as ex:
        for r in ex.map(lambda b: cx.run_impl(HARNESS, b, component=component, timeout=1500), batches):
            res.update(r)
    return res


def run_rt(cx, laws=("roundtrip", "independent")):
    from vlib import treegen
    rng = cx.sub_rng("rt")
    searchdir = paths.REPO + "/tests/modules/yang"
    nschema, ntree = cx.n(25, 400), cx.n(12, 40)
    cx.rule("rt: %d random S1 schemas x %d valid trees each (vlib.treegen), rendered independently to XML and RFC 7951 JSON; "
            "matrix = 3 formats x 5 with-defaults modes x shrink; non-trivial = distinct (schema, tree) with at least one data node" % (nschema, ntree))
    lines, meta = [], {}
    jdocs, jctx = [], []
    for si in range(nschema):
        s = treegen.gen_schema(rng, si)
        jctx.append("%s %s" % (hexs(searchdir), hexs(s.yang())))
        lines.append("%d rt ctx %s %s" % (len(lines), hexs(searchdir), hexs(s.yang())))
        meta[len(lines) - 1] = ("ctx", s, None)
        tg = treegen.TreeGen(rng, s)
        for ti in range(ntree):
            f = tg.tree()
            x, j = render_xml(s, f), render_json(s, f)
            jdocs.append((si, "xml", x))
            for fmt, doc in (("xml", x), ("json", j)):
                lines.append("%d rt rt %s %s" % (len(lines), fmt, hexs(doc)))
                meta[len(lines) - 1] = ("rt", s, (fmt, doc, f))
            lines.append("%d rt cross %s %s" % (len(lines), hexs(x), hexs(j)))
            meta[len(lines) - 1] = ("cross", s, (x, j, f))
            lines.append("%d rt leakcheck" % len(lines))
            meta[len(lines) - 1] = ("leak", s, (x, j, f))
    ri = run_batched(cx, lines, "rt")
    pending = []
    xmlitems = []
    for i, l in enumerate(lines):
        kind, s, extra = meta[i]
        r = ri.get(str(i), ["err", "NoReply"])
        if kind == "ctx":
            if r[0] != "ok":
                cx.fail("rt", "generated schema rejected", {"yang": s.yang()})
            continue
        if kind == "leak":
            x, j, f = extra
            cx.count(None, False, "rt:leakcheck:" + " ".join(r[:2]))
            if r != ["ok", "0"]:
                cx.fail("rt", "memory leaked while parsing/printing/re-parsing this instance (LeakSanitizer)",
                        {"yang": s.yang(), "xml": x.decode("utf-8", "replace"), "reply": r})
            continue
        if kind == "cross":
            x, j, f = extra
            cx.count(("cross", x), bool(f), "rt:cross:" + " ".join(r[:2]))
            if "roundtrip" in laws and r != ["ok", "1"]:
                cx.fail("rt", "the same instance encoded independently in XML and in JSON does not parse to equal trees",
                        {"yang": s.yang(), "xml": x.decode("utf-8", "replace"), "json": j.decode("utf-8", "replace"), "reply": r})
            continue
        fmt, doc, f = extra
        cx.count(("rt", fmt, doc), bool(f), "rt:parse-%s:%s" % (fmt, r[0] if r[0] == "ok" else " ".join(r[:3])))
        if r[0] != "ok":
            cx.fail("rt", "valid instance (by construction) rejected by the %s parser" % fmt,
                    {"yang": s.yang(), "doc": doc.decode("utf-8", "replace"), "reply": r})
            continue
        matrix, px, pj, view = r[1], unhex(r[2]), unhex(r[3]), unhex(r[4])
        if fmt == "xml":
            xmlitems.append((view, px))
        if "roundtrip" in laws:
            k = 0
            for fo in FMT:
                for wd in WDN:
                    for sh in ((0,) if fo == "lyb" else (0, 1)):
                        c = matrix[k]; k += 1
                        cx.count(None, False, "rt:cell:%s:%s:%s" % (fo, wd, c))
                        if c in "=-":
                            continue
                        pending.append((s, fmt, doc, (fo, wd, c), sh))
        if "independent" in laws and fmt == "xml":
            rows = parse_view(view)
            # JSON: any RFC 8259 parser, RFC 7951 meaning
            try:
                got = json.loads(pj.decode("utf-8")) if pj.strip() else {}
                okj = True
            except Exception:
                okj, got = False, None
            exp = expected_json(rows)
            cx.count(("indep-json", doc), bool(rows), "rt:pyjson:" + ("ok" if okj else "invalid"))
            if not okj or got != exp:
                cx.fail("rt", "JSON output is not what RFC 8259/7951 readers recover from the tree" if okj else "JSON output is not valid RFC 8259",
                        {"yang": s.yang(), "json_out": pj.decode("utf-8", "replace"), "expected": json.dumps(exp, ensure_ascii=False)[:2000]})
            # XML: expat with namespaces
            st = expat_structure(px)
            cx.count(("indep-xml", doc), bool(rows), "rt:expat:" + ("ok" if st is not None else "not-well-formed"))
            if st is None:
                cx.fail("rt", "XML output is not well-formed", {"yang": s.yang(), "xml_out": px.decode("utf-8", "replace")})
            else:
                a = [(d, ns, ln, t if not any(x[0] == d + 1 for x in st[i + 1:i + 2]) else "") for i, (d, ns, ln, t, at) in enumerate(st)]
                b = [(r_["depth"], r_["ns"], r_["name"], r_["value"].decode("utf-8", "surrogateescape") if r_["kind"] in ("leaf", "leaflist") else "") for r_ in rows]
                a2 = [(d, ns, ln, t if (ln_kind(rows, i) in ("leaf", "leaflist")) else "") for i, (d, ns, ln, t) in enumerate(a)] if len(a) == len(rows) else a
                if a2 != b:
                    cx.fail("rt", "XML output read by an independent parser differs from the tree (elements, namespaces or character data)",
                            {"yang": s.yang(), "xml_out": px.decode("utf-8", "replace"), "first_diff": first_diff(a2, b)})
    model_xml_print(cx, xmlitems, "rt")
    model_json_print(cx, jdocs, jctx, "rt")
    spec_xmldoc_vs_expat(cx, [px for _, px in xmlitems], "rt")
    # failing cells: look at the actual difference (original vs re-parsed, both printed implicit-tagged) before deciding
    FI = {"xml": 0, "json": 1, "lyb": 2}
    WI = {w: i for i, w in enumerate(WDN)}
    reqs, back = [], {}
    for (s, fmt, doc, cell, sh) in pending:
        reqs.append("%d rt ctx %s %s" % (len(reqs), hexs(searchdir), hexs(s.yang())))
        reqs.append("%d rt show %s %s %d %d" % (len(reqs), fmt, hexs(doc), FI[cell[0]], WI[cell[1]]))
        back[len(reqs) - 1] = (s, fmt, doc, cell, sh)
    rs = cx.run_impl(HARNESS, reqs, component="rt", timeout=1200) if reqs else {}
    for i, (s, fmt, doc, cell, sh) in back.items():
        r = rs.get(str(i), ["err", "NoReply"])
        case = {"yang": s.yang(), "doc": doc.decode("utf-8", "replace"), "in_format": fmt, "cell": list(cell), "shrink": sh}
        if r[0] == "ok" and len(r) >= 4:
            case["printed"] = unhex(r[1]).decode("utf-8", "replace")[:4000]
            case["orig_impl_tagged"] = unhex(r[2]).decode("utf-8", "replace")[:4000]
            case["back_impl_tagged"] = unhex(r[3]).decode("utf-8", "replace")[:4000]
            case["reparse_error"] = unhex(r[4]).decode("utf-8", "replace") if len(r) > 4 else ""
            case["triage"] = triage_cell(s, cell, unhex(r[2]), unhex(r[3]), case["reparse_error"])
        fo, wd, c = cell
        cx.fail("rt", "print(%s, with-defaults %s) -> parse does not give back the tree (%s)" % (fo, wd, {"!": "differs", "P": "print failed", "R": "own output rejected", "S": "a top-level tree printed on its own (no WITHSIBLINGS) does not parse back to that tree"}[c]), case)
    if lines:
        cx.sample(lines[1][:400])


def ln_kind(rows, i):
    return rows[i]["kind"] if i < len(rows) else None


def first_diff(a, b):
    for i, (x, y) in enumerate(zip(a, b)):
        if x != y:
            return {"index": i, "parser": x, "tree": y}
    return {"len_parser": len(a), "len_tree": len(b)}
