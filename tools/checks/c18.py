"""C18 — pattern restrictions implement XML Schema regular expressions.

(K) correspondence: the byte-level model `XsdRe.rewriteWith` against the text lys_compile_type_pattern_check() really hands
    to pcre2_compile (captured by the white-box harness wb_re), token for token; the PCRE2 compile options against
    Generated/UBlocks.
(L) laws on the implementation: for every pattern of the generated XSD grammar R1 and every string of the grid, the four
    routes (ly_pattern_match, lyd_value_validate, XPath re-match(), yangre) agree with each other, and their verdict is
    the verdict of the spec matcher (`parseXsd` + derivative matcher, proved equal to the denotation); invert-match
    negates; the rewritten text equals what the repaired rewrite (the variant the full-strength theorems hold for)
    produces.
A failing case is attributed to a listed finding by *experiment*, not by looking at the pattern: PCRE2 itself (trusted
base, reached through the harness' raw ops with libyang's own options) is run on the text the model produces with a set of
repairs switched on; the smallest set that restores the spec verdicts names the findings.  Findings for which the model
has no repair switch (class subtraction, \\i \\c, \\w \\s, \\P{IsX}) are recognised by the feature of the parsed
pattern.  In both cases the oracle is first cross-checked: PCRE2 on the semantics-first translation `toPcre` must agree
with the spec matcher, otherwise the case is reported as unclassified.
"""
import collections, concurrent.futures, functools, itertools, os, re, subprocess, unicodedata

from vlib import paths
from vlib.proto import hexs, unhex

LEAN_TARGETS = ["LyModel.Props.C18", "LyModel.Props.C18Parse", "LyModel.Props.C18Sem"]
AUDIT = "Audit/C18.lean"
GENERATED = ["UBlocks", "XsdUcd"]
ASSUMPTIONS = [
    "PCRE2 (10.x, the library libyang is linked with) implements its documented matching semantics for the syntax the rewriter emits",
    "patterns and strings are NUL-free; strings are valid UTF-8 (YANG strings)",
    "XSD reading: XML Schema Part 2 (2nd ed.) App. F with '{' '}' as metacharacters, '\\$' accepted as a literal, \\i \\c per XML 1.0 5th ed.",
    "Unicode general categories of the oracle come from python unicodedata %s; sampled characters are restricted to ones whose category is "
    "unchanged since Unicode 3.2" % unicodedata.unidata_version,
]
TRUSTED = ["PCRE2", "harness/wb_re.c (pcre2_compile recording wrapper, route drivers)", "tools/extractors/xsdre.py"]

COMP = "xsdre"
HARNESS = "wb_re"
WORKERS = max(2, min(12, (os.cpu_count() or 4) - 2))
FLAG_FINDING = {"f1": "F1", "f25": "F25", "nl": "F10", "f186": "F186", "f190": "F190", "f187": "F187"}
TEXT_FLAGS = ["f1", "f25", "f186", "f190", "f187"]

# ------------------------------------------------------------------------------------------ classify

def classify(component, what, case):
    """A failing case carries the finding the experiment in attribute() arrived at; harness crashes that were not
    predicted by the model and anything else stay unclassified."""
    if not isinstance(case, dict):
        return None
    if case.get("attributed"):
        return case["attributed"]
    return None


# ------------------------------------------------------------------------------------------ process helpers

def _chunks(lines, k):
    if not lines:
        return []
    sz = (len(lines) + k - 1) // k
    return [lines[i:i + sz] for i in range(0, len(lines), sz)]


def par_impl(cx, lines, crash_is_failure=True):
    cx.harness(HARNESS)
    if len(lines) < 32:
        return cx.run_impl(HARNESS, lines, component=COMP, crash_is_failure=crash_is_failure)
    out = {}
    with concurrent.futures.ThreadPoolExecutor(WORKERS) as ex:
        for r in ex.map(lambda ch: cx.run_impl(HARNESS, ch, component=COMP, crash_is_failure=crash_is_failure), _chunks(lines, WORKERS)):
            out.update(r)
    return out


def par_model(cx, lines):
    cx.lydrv()
    if len(lines) < 2000:
        return cx.run_model(lines)
    out = {}
    with concurrent.futures.ThreadPoolExecutor(WORKERS) as ex:
        for r in ex.map(cx.run_model, _chunks(lines, WORKERS)):
            out.update(r)
    return out


# ------------------------------------------------------------------------------------------ grammar R1

ATOMS = ["a", "b", "^", "$", ".", "\\d", "\\^", "\\$", "[ab]", "[^a]", "[a-b]", "[a-[b]]", "-"]
QUANTS = ["*", "+", "?", "{1,2}"]
ALPHABET = b"ab^$\n\r1"


@functools.lru_cache(None)
def pieces(n):
    out = []
    if n == 1: out += ATOMS
    if n == 2: out += [a + q for a in ATOMS for q in QUANTS]
    if n >= 1: out += ["(" + r + ")" for r in res(n - 1)]
    if n >= 2: out += ["(" + r + ")" + q for r in res(n - 2) for q in QUANTS]
    return out


@functools.lru_cache(None)
def branches(n):
    if n == 0:
        return [""]
    out = []
    for k in range(1, n + 1):
        for p in pieces(k):
            for b in branches(n - k):
                out.append(p + b)
    return out


@functools.lru_cache(None)
def res(n):
    """all regExps of R1 with exactly n tokens (an atom, a quantifier, a '|' and a pair of parentheses count 1 each)"""
    out = list(branches(n))
    for k in range(0, n):
        for b in branches(k):
            for r in res(n - 1 - k):
                out.append(b + "|" + r)
    return out


def random_re(rng, n):
    """uniform-ish random member of res(n) without materialising it"""
    def rnd_res(n):
        if n > 0 and rng.random() < 0.25:
            k = rng.randrange(0, n)
            return rnd_branch(k) + "|" + rnd_res(n - 1 - k)
        return rnd_branch(n)

    def rnd_branch(n):
        s = ""
        while n > 0:
            k = rng.randrange(1, min(n, 4) + 1)
            s += rnd_piece(k)
            n -= k
        return s

    def rnd_piece(n):
        if n == 1:
            return rng.choice(ATOMS)
        if n == 2 and rng.random() < 0.7:
            return rng.choice(ATOMS) + rng.choice(QUANTS)
        if rng.random() < 0.5:
            return "(" + rnd_res(n - 1) + ")"
        return "(" + rnd_res(n - 2) + ")" + rng.choice(QUANTS)

    return rnd_res(n)


def nth_string(alpha_chars, maxlen, idx):
    """the idx-th string of the grid (by length, then lexicographic in alphabet order)"""
    k = len(alpha_chars)
    for L in range(0, maxlen + 1):
        cnt = k ** L
        if idx < cnt:
            out = []
            for j in range(L):
                cnt //= k
                out.append(alpha_chars[idx // cnt]); idx %= cnt
            return "".join(out)
        idx -= cnt
    return None


def grid_size(k, maxlen):
    return sum(k ** L for L in range(maxlen + 1))


# ------------------------------------------------------------------------------------------ cases

class Case:
    """one pattern against one set of strings: ('grid', alphabet_bytes, maxlen) or ('list', [bytes...])"""
    __slots__ = ("pat", "kind", "alpha", "maxlen", "strs", "s3", "s4", "salt", "xpfail", "tag", "frag")

    def __init__(self, pat, kind, alpha=b"", maxlen=0, strs=(), s3=1, s4=0, salt=0, xpfail=0, tag="grid"):
        self.pat = pat if isinstance(pat, bytes) else pat.encode()
        self.kind, self.alpha, self.maxlen, self.strs = kind, alpha, maxlen, list(strs)
        self.s3, self.s4, self.salt, self.xpfail, self.tag = s3, s4, salt, xpfail, tag
        self.frag = 0       # 1: the model says the pattern is in the fragment of rewrite_preserves_language (no finding may excuse a failure)

    def n(self):
        return grid_size(len(self.alpha.decode()), self.maxlen) if self.kind == "grid" else len(self.strs)

    def string(self, i):
        if self.kind == "grid":
            return nth_string(list(self.alpha.decode()), self.maxlen, i).encode()
        return self.strs[i]

    def impl_line(self, i, inv=0):
        if self.kind == "grid":
            return "%s %s grid %s %d %s %d %d %d %d %d" % (i, COMP, hexs(self.pat), inv, hexs(self.alpha), self.maxlen, self.s3, self.s4, self.salt, self.xpfail)
        return "%s %s matchn %s %d %s" % (i, COMP, hexs(self.pat), inv, " ".join(hexs(s) for s in self.strs))

    def model_line(self, i, inv=0):
        if self.kind == "grid":
            return "%s %s grid %s %d %s %d" % (i, COMP, hexs(self.pat), inv, hexs(self.alpha), self.maxlen)
        return "%s %s matchn %s %d %s" % (i, COMP, hexs(self.pat), inv, " ".join(hexs(s) for s in self.strs))

    def raw_line(self, i, text, nl):
        if self.kind == "grid":
            return "%s %s rawgrid %s %d %s %d" % (i, COMP, hexs(text), nl, hexs(self.alpha), self.maxlen)
        return "%s %s rawn %s %d %s" % (i, COMP, hexs(text), nl, " ".join(hexs(s) for s in self.strs))

    def payload(self):
        d = {"pattern": self.pat.decode("utf-8", "replace"), "pattern_hex": hexs(self.pat), "kind": self.kind}
        if self.kind == "grid":
            d.update(alphabet_hex=hexs(self.alpha), maxlen=self.maxlen)
        else:
            d.update(strings_hex=[hexs(s) for s in self.strs])
        return d


def field_state(f):
    """'skip' (nothing evaluated) | 'E' (pattern rejected) | 'ok'"""
    ev = [c for c in f if c != "."]
    if f == "-" or not ev:
        return "skip"
    return "E" if all(c == "E" for c in ev) else "ok"


def routes_disagree(fields):
    """None, or a description of the first disagreement between the evaluated routes"""
    st = [(k, field_state(f)) for k, f in enumerate(fields)]
    live = [(k, s) for k, s in st if s != "skip"]
    if len({s for _, s in live}) > 1:
        return "routes disagree on accepting the pattern: " + " ".join("r%d=%s" % (k + 1, s) for k, s in live)
    oks = [k for k, s in live if s == "ok"]
    if len(oks) < 2:
        return None
    base = merged_verdicts([fields[k] for k in oks])
    for k in oks:
        f = fields[k]
        if f == base:
            continue
        for i, (c, b) in enumerate(zip(f, base)):
            if c != "." and c != b:
                seen = {j: fields[j][i] for j in oks if i < len(fields[j]) and fields[j][i] != "."}
                return "routes disagree at string #%d: %s" % (i, " ".join("r%d=%s" % (j + 1, x) for j, x in seen.items()))
    return None


def merged_verdicts(fields):
    """one verdict string of the implementation: first evaluated route per position"""
    oks = [f for f in fields if field_state(f) == "ok"]
    if not oks:
        return None
    for f in oks:
        if "." not in f:
            return f
    n = max(len(f) for f in oks)
    out = []
    for i in range(n):
        c = "."
        for f in oks:
            if i < len(f) and f[i] != ".":
                c = f[i]; break
        out.append(c)
    return "".join(out)


def flip(bits):
    return "".join({"0": "1", "1": "0"}.get(c, c) for c in bits)


# ------------------------------------------------------------------------------------------ the law on a batch of cases

class State:
    def __init__(self):
        self.flags = []         # text repairs the tree already has (probed)
        self.nl = 0             # 1 when `.` already excludes CR (probed)
        self.blocks = []        # names of ublock2urange
        self.negb = 0           # 1 when the tree rewrites \P{IsX} outside a class to [^\p{IsX}] first (probed; fixes/F185.diff)
        self.sub = 0            # 1 when the tree translates class subtraction (probed; fixes/F181.diff)
        self.mce = ""           # XSD multi-character escape letters the tree translates in pass 1 (probed; fixes/F182.diff, F183.diff)


def flagstr(fl):
    return ",".join(sorted(fl)) if fl else "-"


def evaluate(cx, st, cases, inv_every=0):
    """Runs the cases through implementation and spec, evaluates the laws, attributes failures. Returns stats Counter."""
    stats = collections.Counter()
    if not cases:
        return stats
    il = [c.impl_line("g%d" % i) for i, c in enumerate(cases)]
    ml = [c.model_line("g%d" % i) for i, c in enumerate(cases)]
    inv_idx = [i for i in range(len(cases)) if inv_every and i % inv_every == 0]
    il += [cases[i].impl_line("v%d" % i, 1) for i in inv_idx]
    ri = par_impl(cx, il)
    rm = par_model(cx, ml)
    failing = []        # (case, what, detail)
    for i, c in enumerate(cases):
        a = ri.get("g%d" % i, ["err", "NoReply"])
        m = rm.get("g%d" % i, ["err", "NoReply"])
        n = c.n()
        if a[0] != "ok" or len(a) < 5:
            stats["impl-" + " ".join(a[:2])] += 1
            if a[:2] != ["err", "Crash"]:
                cx.fail(COMP, "harness gave no verdicts: " + " ".join(a[:3]), dict(c.payload(), reply=a))
            continue
        if m[0] == "err" and m[1] == "Fuel" or m[0] not in ("ok", "err"):
            raise RuntimeError("spec parser failed on %r: %r" % (c.pat, m))
        fields = a[1:5]
        d = routes_disagree(fields)
        if d:
            stats["route-disagreement"] += 1
            cx.count((c.tag, c.pat, "routes"), True, "xsdre:routes-disagree", n)
            cx.fail(COMP, "the four routes do not agree: " + d.split(":")[0], dict(c.payload(), routes=fields, detail=d))
            continue
        impl = merged_verdicts(fields)      # None: rejected by every route
        spec = m[1] if m[0] == "ok" else None
        if spec is None and impl is None:
            stats["both-reject"] += 1
            cx.count((c.tag, c.pat), False, "xsdre:%s:both-reject" % c.tag, 1)
        elif spec is None:
            stats["lenient"] += 1      # not an XSD regex; libyang/PCRE2 accept it: outside the property
            cx.count((c.tag, c.pat), False, "xsdre:%s:not-xsd-accepted" % c.tag, 1)
        elif impl is None:
            stats["fail-rejected"] += 1
            failing.append((c, "XSD-valid pattern is rejected", {"spec": spec, "impl": "E"}))
        elif "e" in impl or "E" in impl:
            stats["fail-error"] += 1
            cx.fail(COMP, "a route reports an error for a valid string", dict(c.payload(), routes=fields))
        else:
            bad = [k for k in range(min(len(impl), len(spec))) if impl[k] != "." and impl[k] != spec[k]]
            if len(impl) != len(spec):
                raise RuntimeError("verdict vectors differ in length for %r: %d vs %d" % (c.pat, len(impl), len(spec)))
            if bad:
                stats["fail-verdict"] += 1
                k = bad[0]
                failing.append((c, "verdict differs from the XSD language",
                                {"mismatches": len(bad), "first_string_hex": hexs(c.string(k)), "impl_says": impl[k], "spec_says": spec[k], "spec": spec, "impl": impl}))
            else:
                stats["agree"] += 1
                nontrivial = ("1" in spec) and ("0" in spec)
                cx.count((c.tag, c.pat, c.kind, c.maxlen), nontrivial, "xsdre:%s:agree" % c.tag, n)
                if len(cx.samples) < 3 and nontrivial and cx.rng.random() < 0.01:
                    cx.sample(c.impl_line("0"))
    # invert-match: r2/r4 with the modifier = negation of r2 without it (and of the spec)
    for i in inv_idx:
        c = cases[i]
        a = ri.get("g%d" % i, ["err"]); v = ri.get("v%d" % i, ["err"])
        if a[0] != "ok" or v[0] != "ok" or len(v) < 5:
            continue
        plain, inv = a[2], v[2]
        if field_state(plain) != field_state(inv):
            cx.fail(COMP, "invert-match changes whether the pattern is accepted", dict(c.payload(), plain=plain[:80], inverted=inv[:80]))
        elif field_state(plain) == "ok":
            d = routes_disagree([inv, v[4]])
            if inv != flip(plain):
                cx.fail(COMP, "invert-match does not negate the verdict", dict(c.payload(), plain=plain, inverted=inv))
            elif d:
                cx.fail(COMP, "validator and yangre disagree under invert-match", dict(c.payload(), detail=d))
            else:
                stats["invert-ok"] += 1
                cx.count(("inv", c.pat, c.kind, c.maxlen), True, "xsdre:invert-negates", c.n())
    attribute(cx, st, failing, stats)
    return stats


def attribute(cx, st, failing, stats):
    """Decide by experiment which listed finding(s) explain each failing case."""
    if not failing:
        return
    missing_text = [f for f in TEXT_FLAGS if f not in st.flags]
    ml = []
    for i, (c, what, det) in enumerate(failing):
        ml.append("f%d %s features %s" % (i, COMP, hexs(c.pat)))
        ml.append("t%d %s topcre %s" % (i, COMP, hexs(c.pat)))
    rm = par_model(cx, ml)
    # which repairs can matter for this pattern, judged from the parsed pattern
    plans = []
    ml2 = []
    for i, (c, what, det) in enumerate(failing):
        feats = rm.get("f%d" % i, ["err"])
        fs = set(feats[1].split(",")) if feats[0] == "ok" and feats[1] != "-" else set()
        cand = []
        if "pblock" in fs:
            cand += [f for f in ("f1", "f186", "f190", "f187") if f in missing_text]
        if b"\\^" in c.pat or b"\\$" in c.pat:
            cand += [f for f in ("f25",) if f in missing_text]
        nlc = [0] if (st.nl or "dot" not in fs) else [0, 1]
        subsets = []
        for k in range(0, len(cand) + 1):
            for sub in itertools.combinations(cand, k):
                for nl in nlc:
                    subsets.append((sub, nl))
        subsets.sort(key=lambda t: len(t[0]) + t[1])
        plans.append((fs, subsets))
        for j, (sub, nl) in enumerate(subsets):
            ml2.append("w%d_%d %s rewrite %s %s" % (i, j, COMP, flagstr(set(st.flags) | set(sub)), hexs(c.pat)))
    rm2 = par_model(cx, ml2)
    il = []
    for i, (c, what, det) in enumerate(failing):
        t = rm.get("t%d" % i, ["err"])
        if t[0] == "ok":
            il.append(c.raw_line("o%d" % i, unhex(t[1]), 0))
        for j, (sub, nl) in enumerate(plans[i][1]):
            w = rm2.get("w%d_%d" % (i, j), ["err"])
            if w[0] == "ok":
                il.append(c.raw_line("x%d_%d" % (i, j), unhex(w[1]), 1 if (nl or st.nl) else 0))
    ri = par_impl(cx, il)
    for i, (c, what, det) in enumerate(failing):
        fs, subsets = plans[i]
        spec = det.get("spec")
        case = dict(c.payload(), **{k: v for k, v in det.items() if k not in ("spec", "impl")})
        case["features"] = sorted(fs)
        if c.frag:
            # the semantic theorem covers this pattern: whatever the features, a failure is a violation
            stats["fragment-failure"] += 1
            cx.fail(COMP, what + " although the pattern is in the fragment of rewrite_preserves_language", case)
            continue
        # 1. the oracle itself: PCRE2 on the semantics-first translation must give the spec verdicts
        o = ri.get("o%d" % i, ["err", "NoReply"])
        m = spec
        if big_quantifier(c.pat) and what == "XSD-valid pattern is rejected" and o[0] != "ok":
            # PCRE2 cannot serve as the cross-check either: the number is above ITS limit (F451)
            stats["attributed-F451"] += 1
            cx.count((c.tag, c.pat, "F451"), True, "xsdre:%s:known-F451" % c.tag, c.n())
            cx.fail(COMP, what + " [F451]", dict(case, attributed="F451"))
            continue
        if o[0] != "ok" or o[1] != m:
            stats["oracle-crosscheck-failed"] += 1
            cx.fail(COMP, "oracle cross-check failed: PCRE2 on toPcre(pattern) disagrees with the spec matcher",
                    dict(case, toPcre_reply=[str(x)[:120] for x in o[:2]], spec=m[:120]))
            continue
        stats["oracle-crosscheck-ok"] += 1
        # 2. findings without a repair switch, by feature of the parsed pattern
        fid = None
        if escaped_backslash_needle(c.pat):
            fid = "F450"
        elif big_quantifier(c.pat) and what == "XSD-valid pattern is rejected":
            fid = "F451"
        elif "subtraction" in fs and not st.sub:
            fid = "F181"
        elif (fs & {"i", "I", "c", "C"}) - set(st.mce):
            fid = "F182"
        elif (fs & {"w", "W", "s", "S"}) - set(st.mce):
            fid = "F183"
        elif (("in-class:Pblock" in fs) if st.negb else ("Pblock" in fs)) or any(("\\p{Is%s}" % b).encode() in c.pat for b in NONTABLE_BLOCKS):
            fid = "F185"
        if fid:
            stats["attributed-" + fid] += 1
            cx.count((c.tag, c.pat, fid), True, "xsdre:%s:known-%s" % (c.tag, fid), c.n())
            cx.fail(COMP, what + " [%s]" % fid, dict(case, attributed=fid))
            continue
        # 3. repairs the model can switch on: smallest set that restores the spec verdicts
        found = None
        for j, (sub, nl) in enumerate(subsets):
            x = ri.get("x%d_%d" % (i, j), ["err", "NoReply"])
            if x[0] == "ok" and x[1] == m:
                found = (sub, nl)
                break
        if found is None and "f187" in missing_text and b"\\p{IsSpecials}" in c.pat:
            # the switch f187 repairs the length that is copied, not the text of the row (the literal '|' of the unrepaired row
            # is part of the same finding and comes with the table of the source): no experiment can restore the verdicts
            stats["attributed-F187"] += 1
            cx.count((c.tag, c.pat, "F187"), True, "xsdre:%s:known-F187" % c.tag, c.n())
            cx.fail(COMP, what + " [F187]", dict(case, attributed="F187"))
            continue
        if found is None or (not found[0] and not found[1]):
            stats["unattributed"] += 1
            cx.count((c.tag, c.pat, "unattributed"), True, "xsdre:%s:unattributed" % c.tag, c.n())
            cx.fail(COMP, what, dict(case, tried=[flagstr(s) + ("+nl" if n else "") for s, n in subsets],
                                     note="PCRE2 on the model's own rewrite gives the spec verdicts" if found else "no listed repair explains it"))
            continue
        fids = [FLAG_FINDING[f] for f in found[0]] + (["F10"] if found[1] else [])
        for fid in fids:
            stats["attributed-" + fid] += 1
            cx.fail(COMP, what + " [%s]" % fid, dict(case, attributed=fid, repairs="+".join(fids)))
        cx.count((c.tag, c.pat, tuple(fids)), True, "xsdre:%s:known-%s" % (c.tag, "+".join(fids)), c.n())


def escaped_backslash_needle(pat):
    """the text `p{Is` directly behind an ESCAPED backslash (token `\\\\`): pass 2 takes it for a block escape (F450)"""
    i, n = 0, len(pat)
    while i < n:
        if pat[i:i + 1] == b"\\":
            if pat[i + 1:i + 2] == b"\\" and pat[i + 2:i + 6] == b"p{Is":
                return True
            i += 2
        else:
            i += 1
    return False


def big_quantifier(pat):
    """a `{n}` / `{n,}` / `{n,m}` with a number above the PCRE2 limit 65535 (F451)"""
    for m in re.finditer(rb"\{(\d+)(?:,(\d*))?\}", pat):
        if int(m.group(1)) > 65535 or (m.group(2) and int(m.group(2)) > 65535):
            return True
    return False


NONTABLE_BLOCKS = ["HighSurrogates", "HighPrivateUseSurrogates", "LowSurrogates", "OldItalic", "Gothic", "Deseret", "ByzantineMusicalSymbols",
                   "MusicalSymbols", "MathematicalAlphanumericSymbols", "CJKUnifiedIdeographsExtensionB", "CJKCompatibilityIdeographsSupplement", "Tags"]


# ------------------------------------------------------------------------------------------ probe

def table_names():
    p = os.path.join(paths.LEAN, "LyModel", "Generated", "UBlocks.lean")
    try:
        return re.findall(r'^\s*\("([^"]+)", "', open(p).read(), re.M)
    except OSError:
        return []


def generated_len_from_row():
    """the copy-length rule the translator read from the source (Generated/UBlocks.lenFromRow)"""
    p = os.path.join(paths.LEAN, "LyModel", "Generated", "UBlocks.lean")
    try:
        m = re.search(r"^def lenFromRow : Bool := (true|false)", open(p).read(), re.M)
    except OSError:
        m = None
    return None if not m else m.group(1) == "true"


def probe(cx):
    st = State()
    st.blocks = table_names()
    lines = ["p0 %s info" % COMP, "p1 %s rewrite - %s" % (COMP, hexs(b"\\^")), "p2 %s rewrite - %s" % (COMP, hexs(b"\\p{IsGreek}")),
             "p3 %s rewrite - %s" % (COMP, hexs(b"\\p{IsGreekExtended}"))]
    ri = cx.run_impl(HARNESS, lines, component=COMP)
    def txt(k):
        r = ri.get(k, ["err"])
        return unhex(r[1]) if r[0] == "ok" else None
    if txt("p1") == b"\\^":
        st.flags.append("f25")
    if txt("p2") == b"[\\x{0370}-\\x{03FF}]":
        st.flags.append("f1")
        if txt("p3") == b"[\\x{1F00}-\\x{1FFF}]":
            st.flags.append("f186")
        # (only with F1 repaired: while it is present the first of these patterns reads outside the table)
        r2 = cx.run_impl(HARNESS, ["p4 %s rewrite - %s" % (COMP, hexs(b"\\\\[a]\\p{IsGreek}")), "p5 %s rewrite - %s" % (COMP, hexs(b"\\p{IsSpecials}"))],
                         component=COMP)
        ri.update(r2)
        if txt("p4") == b"\\\\[a][\\x{0370}-\\x{03FF}]":
            st.flags.append("f190")
        t5 = txt("p5")
        if t5 is not None and len(t5) > 19 and t5.endswith(b"]"):
            st.flags.append("f187")         # the whole row is copied, whatever its length
        lfr = generated_len_from_row()
        if lfr is not None and lfr != ("f187" in st.flags):
            cx.fail(COMP, "translator and harness disagree on the length the block substitution copies from a row",
                    {"Generated.UBlocks.lenFromRow": lfr, "rewrite_of_IsSpecials": (t5 or b"?").decode("utf-8", "replace")})
    r6 = cx.run_impl(HARNESS, ["m%s %s rewrite - %s" % (ch, COMP, hexs(("\\" + ch).encode())) for ch in "icICwWsS"], component=COMP)
    for ch in "icICwWsS":
        r = r6.get("m" + ch, ["err"])
        if r[0] == "ok" and unhex(r[1]).startswith(b"[") and unhex(r[1]).endswith(b"]"):
            st.mce += ch
    r7 = cx.run_impl(HARNESS, ["sb %s rewrite - %s" % (COMP, hexs(b"[a-[b]]"))], component=COMP).get("sb", ["err"])
    st.sub = 1 if (r7[0] == "ok" and unhex(r7[1]) == b"(?:[a](?<![b]))") else 0
    gs = cx.run_model(["gs %s subtraction" % COMP]).get("gs", ["err"])
    if gs[:2] != ["ok", str(st.sub)]:
        cx.fail(COMP, "translator and harness disagree on whether pass 1 translates class subtraction",
                {"Generated.UBlocks.subtraction": gs, "harness_rewrite_of_[a-[b]]": (unhex(r7[1]).decode("utf-8", "replace") if r7[0] == "ok" else r7)})
    r8 = cx.run_impl(HARNESS, ["nb %s rewrite - %s" % (COMP, hexs(b"\\P{IsGreek}"))], component=COMP).get("nb", ["err"])
    st.negb = 1 if (r8[0] == "ok" and unhex(r8[1]).startswith(b"[^")) else 0
    gn = cx.run_model(["gn %s negblocks" % COMP]).get("gn", ["err"])
    if gn[:2] != ["ok", str(st.negb)]:
        cx.fail(COMP, "translator and harness disagree on whether negated block escapes are rewritten before pass 1",
                {"Generated.UBlocks.negBlocks": gn, "harness_rewrite_of_\\P{IsGreek}": r8[:2]})
    gm = cx.run_model(["gm %s mce" % COMP]).get("gm", ["err"])
    if gm[0] != "ok" or sorted(gm[1] if gm[1] != "-" else "") != sorted(st.mce):
        cx.fail(COMP, "translator and harness disagree on the multi-character escapes pass 1 translates",
                {"Generated.UBlocks.mceTable": gm, "harness": st.mce})
    info = ri.get("p0", ["err"])
    st.nl = 1 if (info[0] == "ok" and info[2] != "2") else 0
    cx.notes.append("tree state probed through the harness: repairs present = %s, multi-character escapes translated = %s, class subtraction translated = %s, newline convention %s, PCRE2 %s"
                    % (flagstr(st.flags) + ("+nl" if st.nl else ""), st.mce or "-", ("yes" if st.sub else "no") + (", \\P{IsX} outside classes rewritten" if st.negb else ""), info[2] if info[0] == "ok" else "?", info[3] if info[0] == "ok" else "?"))
    return st


# ------------------------------------------------------------------------------------------ rewrite correspondence

def rewrite_inputs(cx, st):
    rng = cx.sub_rng("rewrite")
    out = []
    B = [b"\\", b"[", b"]", b"^", b"$", b"a"]
    for n in range(0, cx.n(5, 6) + 1):
        for t in itertools.product(B, repeat=n):
            out.append(b"".join(t))
    # multi-character escapes (F182 / F183: replaced in pass 1 when the source has the table): every byte string of length <= 5
    # over {\ [ ] i w $}
    for n in range(1, 6):
        for t in itertools.product([b"\\", b"[", b"]", b"i", b"w", b"$"], repeat=n):
            out.append(b"".join(t))
    # class subtraction (F181: `-[` inside a class): every byte string of length <= 6 over {\ [ ] - a}, and nestings / garbage
    for n in range(1, 7):
        for t in itertools.product([b"\\", b"[", b"]", b"-", b"a"], repeat=n):
            out.append(b"".join(t))
    SUBP = [b"[a-[b]]", b"[^a-z-[aeiou]]", b"[a-[b-[c]]]", b"[a-[b-[c-[d]]]]", b"-[", b"]]", b"[a-", b"[\\w-[\\d]]", b"+", b"{2}", b"x", b"\\-[", b"[\\]-[a]]", b"[a-[\\]]]",
            b"(", b")", b"|", b"^", b"$", b"[a", b"-", b"\\p{IsGreek}", b"[\\p{IsGreek}-[\\p{IsBasicLatin}]]"]
    for a in SUBP:
        for b in SUBP:
            out.append(a + b)
    for _ in range(cx.n(1500, 8000)):
        out.append(b"".join(rng.choice(SUBP) for _ in range(rng.randrange(2, 6))))
    # negated block escapes (F185: `\P{IsX}` at depth 0 is rewritten to `[^\p{IsX}]` first when the source has the pass)
    NEGP = [b"\\P{IsGreek}", b"\\P{IsSpecials}", b"\\P{IsFoo}", b"\\P{Is", b"\\P{IsGreek", b"\\P{L}", b"\\\\P{IsGreek}", b"[", b"]", b"\\[", b"\\]", b"}", b"{", b"\\", b"a", b"\\p{IsGreek}",
            b"[a", b"^", b"+", b"[^\\P{IsGreek}]", b"\\}", b"P{IsGreek}"]
    for a in NEGP:
        out.append(a)
        for b in NEGP:
            out.append(a + b)
            out.append(a + b + b"\\P{IsBasicLatin}")
    for _ in range(cx.n(1500, 8000)):
        out.append(b"".join(rng.choice(NEGP) for _ in range(rng.randrange(2, 6))))
    out.append(b"[" * 70 + b"a-[b" + b"]" * 72)
    out.append(b"[a" + b"-[a" * 70 + b"]" * 71)
    names = st.blocks or ["BasicLatin", "Greek", "GreekExtended", "Specials"]
    pick = ["BasicLatin", "Latin-1Supplement", "Greek", "GreekExtended", "Cyrillic", "CJKCompatibility", "CJKCompatibilityForms", "Specials", names[-2], names[len(names) // 2]]
    P = [("\\p{Is%s}" % n).encode() for n in pick]
    P += [b"\\P{IsGreek}", b"\\p{IsFoo}", b"\\p{Is}", b"\\p{IsGreek", b"\\p{Is", b"\\p{L}", b"\\p{IsGreekX}", b"\\p{IsBasicLatin }",
          b"\\i", b"\\c", b"\\I", b"\\C", b"\\w", b"\\W", b"\\s", b"\\S", b"\\d", b"i", b"w",
          b"[", b"]", b"\\[", b"\\]", b"\\\\", b"\\", b"^", b"$", b"\\^", b"\\$", b"a", b"-", b"[^", b"}", b"{", b"p{IsGreek}", b"|", b"(", b")", b"*", b"."]
    for a in P:
        out.append(a)
        for b in P:
            out.append(a + b)
    for _ in range(cx.n(4000, 60000)):
        k = rng.randrange(2, 8)
        out.append(b"".join(rng.choice(P) for _ in range(k)))
    for n in names:
        out.append(("\\p{Is%s}" % n).encode())
        out.append(("[\\p{Is%s}]" % n).encode())
        out.append(("[^a\\p{Is%s}b]x" % n).encode())
    for k in list(range(0, 8)) + [40, 81, 82, 83, 84, 85, 100]:
        out.append(b"[" * k + b"\\p{IsGreek}" + b"]" * k)
    out += [b"\\\\[a]\\p{IsGreek}", b"[\\\\]\\p{IsGreek}", b"\\\\[a]\\\\[a]\\p{IsGreek}", b"[\\\\][\\\\]\\p{IsGreek}"]
    out += escaped_bracket_inputs(cx, rng, names)
    # malformed stream: arbitrary bytes (no NUL), sometimes with the needle spliced in
    for _ in range(cx.n(1500, 30000)):
        s = bytes(rng.randrange(1, 256) for _ in range(rng.randrange(1, 14)))
        if rng.random() < 0.3:
            k = rng.randrange(0, len(s) + 1)
            s = s[:k] + rng.choice(P) + s[k:]
        out.append(s)
    out += [b"a\x00b^", b"\x00"]
    return list(dict.fromkeys(out))


# text in front of a block escape that leaves the bracket depth at 0 / that leaves a class open: runs of backslashes in front of
# brackets, escaped brackets, classes with escaped backslashes and brackets (F190: the depth must be the one of the escape tokens)
ESC_CLOSED = [b"", b"\\\\", b"\\\\\\\\", b"\\[", b"\\]", b"\\\\\\[", b"\\\\\\]", b"[a]", b"[^b]", b"[\\\\]", b"[\\]]", b"[\\[]", b"[a\\\\]", b"[\\\\a]", b"\\\\[a]",
              b"\\\\[\\\\]", b"\\\\\\\\[a]", b"\\\\[a\\]]", b"[\\\\\\]]", b"a", b"(", b")", b"|", b"\\^", b"$", b"a*", b"\\\\[^a]+"]
ESC_OPEN = [b"[", b"[^", b"[a", b"[\\\\", b"[\\]", b"[\\[", b"[a\\\\", b"[\\\\\\\\", b"\\\\[", b"\\\\[^", b"\\\\\\\\[", b"[\\\\\\]", b"[a-c", b"\\\\[\\\\"]


def escaped_bracket_pattern(rng, pre_units, names):
    """prefix (depth 0) + block escapes outside and inside classes opened after escaped backslashes"""
    out = b"".join(pre_units)
    for _ in range(rng.randrange(1, 3)):
        blk = ("\\p{Is%s}" % rng.choice(names)).encode()
        if rng.random() < 0.5:
            out += blk + rng.choice([b"", b"", b"+", b"?"])
        else:
            out += rng.choice(ESC_OPEN) + blk + rng.choice([b"", b"a", b"\\\\", b"\\]"]) + b"]" + rng.choice([b"", b"", b"*"])
        out += rng.choice(ESC_CLOSED)
    return out


def escaped_bracket_inputs(cx, rng, names):
    blocks = ["Greek", "Specials", "BasicLatin"]
    out = []
    # exhaustive: every closed prefix (and every pair of the first dozen) x {outside, inside every open text} x three blocks
    pres = [(a,) for a in ESC_CLOSED] + [(a, b) for a in ESC_CLOSED[1:13] for b in ESC_CLOSED[1:13]]
    for pre in pres:
        for n in blocks:
            blk = ("\\p{Is%s}" % n).encode()
            out.append(b"".join(pre) + blk)
            for o in ESC_OPEN:
                out.append(b"".join(pre) + o + blk + b"]")
    for _ in range(cx.n(2500, 30000)):
        k = rng.randrange(0, 4)
        out.append(escaped_bracket_pattern(rng, [rng.choice(ESC_CLOSED) for _ in range(k)], blocks + [rng.choice(names)]))
    return out


def run_rewrite(cx, st):
    pats = rewrite_inputs(cx, st)
    cur = flagstr(st.flags)
    allf = flagstr(TEXT_FLAGS)
    variants = {cur: None, allf: None}
    for f in TEXT_FLAGS:
        if f not in st.flags:
            variants[flagstr(set(st.flags) | {f})] = None
    ml = []
    for v in variants:
        ml += ["%s|%d %s rewrite %s %s" % (v, i, COMP, v, hexs(p)) for i, p in enumerate(pats)]
    rm = par_model(cx, ml)
    get = lambda v, i: rm.get("%s|%d" % (v, i), ["err", "NoReply"])
    # the model predicts a crash (index outside ublock2urange): not sent in bulk
    crash = [i for i in range(len(pats)) if get(cur, i)[:2] == ["err", "Crash"]]
    lines = ["%d %s rewrite %s %s" % (i, COMP, cur, hexs(p)) for i, p in enumerate(pats) if get(cur, i)[:2] != ["err", "Crash"]]
    cx.rule("rewrite: every byte string of length <= %d over {\\ [ ] ^ $ a}, all 1- and 2-sequences and random 2..7-sequences of %d pattern pieces "
            "(block escapes incl. prefix-related, unknown and unterminated names, escaped and plain brackets and anchors), every table name "
            "outside / inside / inside a negated class, nesting depths 0..100, block escapes (Greek, Specials, BasicLatin, random rows) outside and inside "
            "classes behind every one and every pair of %d bracket-neutral texts with escaped backslashes in front of brackets / escaped brackets / classes "
            "holding them and behind %d class-opening texts plus random longer combinations, arbitrary non-NUL bytes with spliced pieces; model-predicted crashes "
            "(F1: table index = bracket depth out of range) are replayed singly" % (cx.n(5, 6), 39, len(ESC_CLOSED), len(ESC_OPEN)))

    def kind(line, reply):
        return "xsdre:rewrite:%s" % (reply[0] if reply[0] == "ok" else reply[1])
    ri, _ = cx.differential(COMP, lines, HARNESS, kind=kind)
    cx.differential(COMP, ["o0 %s opts" % COMP], HARNESS, kind=lambda l, r: "xsdre:opts")
    # law: the implementation's text is the text of the fully repaired rewrite
    for i, p in enumerate(pats):
        a = ri.get(str(i))
        if a is None:
            continue
        ideal = get(allf, i)
        if a == ideal:
            continue
        active = [f for f in TEXT_FLAGS if f not in st.flags and get(flagstr(set(st.flags) | {f}), i) != get(cur, i)]
        if not active:
            active = [f for f in TEXT_FLAGS if f not in st.flags]
        case = {"pattern": p.decode("utf-8", "replace"), "pattern_hex": hexs(p), "impl": a, "repaired_model": ideal}
        if a != get(cur, i):
            cx.fail(COMP, "rewritten text differs from the repaired rewrite (and from the model of the code as it is)", case)
            continue
        for f in active:
            cx.fail(COMP, "rewritten text differs from the repaired rewrite [%s]" % FLAG_FINDING[f], dict(case, attributed=FLAG_FINDING[f]))
        cx.count(("rewrite-law", p), True, "xsdre:rewrite-law:known-" + "+".join(FLAG_FINDING[f] for f in active))
    # crash witnesses (only while F1 is present)
    shown = 0
    for i in crash:
        if shown >= cx.n(3, 8):
            cx.count(("rewrite-crash-skipped", pats[i]), False, "xsdre:rewrite:predicted-crash-not-sent")
            continue
        shown += 1
        line = "c%d %s rewrite %s %s" % (i, COMP, cur, hexs(pats[i]))
        r = cx.run_impl(HARNESS, [line], component=COMP, crash_is_failure=False)
        a = r.get("c%d" % i, ["err", "NoReply"])
        cx.count(("rewrite-crash", pats[i]), True, "xsdre:rewrite:crash-witness")
        if a[:2] == ["err", "Crash"]:
            cx.fail(COMP, "block substitution reads ublock2urange at the bracket depth, which is outside the table (crash) [F1]",
                    {"pattern": pats[i].decode("utf-8", "replace"), "pattern_hex": hexs(pats[i]), "attributed": "F1"})
        else:
            cx.disagree(COMP, line, a, ["err", "Crash"])


# ------------------------------------------------------------------------------------------ pattern sets

def grid_cases(cx, st):
    rng = cx.sub_rng("grid")
    full = cx.n(3, 4)
    maxlen = 3
    pats = []
    for n in range(0, full + 1):
        pats += res(n)
    cases = []
    every4 = cx.n(16, 4)
    for k, p in enumerate(pats):
        s4 = 401 if k % every4 == 0 else 0
        cases.append(Case(p, "grid", ALPHABET, maxlen, s3=cx.n(3, 1), s4=s4, salt=rng.randrange(0, 401), tag="R1<=%d" % full))
    # strings up to length 4 for the smaller patterns (thorough) / a sample (quick)
    small = []
    for n in range(0, cx.n(2, 3) + 1):
        small += res(n)
    for k, p in enumerate(small):
        cases.append(Case(p, "grid", ALPHABET, 4, s3=cx.n(7, 1), s4=0, salt=rng.randrange(0, 7), tag="R1<=%d,len4" % cx.n(2, 3)))
    # beyond the exhaustive bound: random larger members of R1
    seen = set(pats)
    for n, cnt in ((full + 1, cx.n(900, 25000)), (full + 2, cx.n(400, 12000)), (full + 4, cx.n(200, 5000))):
        for _ in range(cnt):
            p = random_re(rng, n)
            if p in seen:
                continue
            seen.add(p)
            cases.append(Case(p, "grid", ALPHABET, 3, s3=cx.n(5, 1), s4=0, salt=rng.randrange(0, 5), tag="R1=%d,sampled" % n))
    # malformed stream: token soup (mostly not XSD); the routes must still agree, and where the spec accepts, so must the verdicts
    TOK = ATOMS + QUANTS + ["(", ")", "|", "[", "]", "{", "}", "\\", "{2}", "{1,}", "{,2}", "{2,1}", "a-", "[a", "b]", "[]", "[^]", "()", "\\p{L}", "\\e", "?"]
    for _ in range(cx.n(1000, 20000)):
        p = "".join(rng.choice(TOK) for _ in range(rng.randrange(1, 6)))
        if p in seen:
            continue
        seen.add(p)
        cases.append(Case(p, "grid", ALPHABET, 2, s3=1, s4=0, tag="token-soup"))
    cx.rule("grid: ALL %d patterns of grammar R1 with <= %d tokens over atoms %s, quantifiers %s, '|', '( )' x ALL %d strings of length <= 3 over "
            "{a b ^ $ LF CR 1} through ly_pattern_match and lyd_value_validate, XPath re-match on every %s string, yangre main() on one string of every %dth pattern; "
            "patterns with <= %d tokens also x all %d strings of length <= 4; %d sampled larger patterns and token-soup (malformed) patterns; non-trivial = pattern whose verdict vector "
            "is not constant" % (len(pats), full, " ".join(ATOMS), " ".join(QUANTS), grid_size(7, 3), cx.n("3rd", ""), every4, cx.n(2, 3), grid_size(7, 4), len(cases) - len(pats) - len(small)))
    return cases, len(pats)


def stable_chars(rng, n):
    out = []
    while len(out) < n:
        cp = rng.choice([rng.randrange(0x20, 0x3000), rng.randrange(0x20, 0x10000), rng.randrange(0x10000, 0x30000)])
        ch = chr(cp)
        k = unicodedata.category(ch)
        if k in ("Cs", "Cn", "Co") or k != unicodedata.ucd_3_2_0.category(ch):
            continue
        if 0xFDD0 <= cp <= 0xFDEF or (cp & 0xFFFE) == 0xFFFE or ch in "'\"":
            continue
        out.append(ch)
    return out


def unicode_cases(cx, st):
    rng = cx.sub_rng("unicode")
    names = st.blocks or ["BasicLatin", "Greek"]
    pats = ["\\p{L}", "\\p{Lu}", "\\p{Ll}+", "\\p{Nd}", "\\p{N}*", "\\P{L}", "\\P{Lu}", "[\\p{L}]", "[^\\p{L}]", "[\\p{Lu}\\p{Nd}]+", "\\p{Sc}", "\\p{Zs}", "\\p{P}",
            "\\p{M}", "\\p{So}", "\\p{Cc}", "[\\p{Lu}-[A]]", "[\\P{L}]",
            "\\p{IsGreek}", "\\p{IsBasicLatin}", "\\p{IsCyrillic}", "\\p{IsGreekExtended}", "[\\p{IsGreek}]", "[^\\p{IsGreek}]", "\\P{IsGreek}",
            "\\p{IsSpecials}", "[\\p{IsGreek}\\p{IsCyrillic}]", "\\p{IsGreek}\\p{IsCyrillic}", "\\p{IsBasicLatin}+", "[\\p{IsBasicLatin}]", "[a\\p{IsGreek}]",
            "\\p{IsLatin-1Supplement}", "\\p{IsCJKCompatibilityIdeographs}", "\\p{IsGothic}", "x\\p{IsGreek}?", "(\\p{IsGreek}|a)*",
            "\\i\\c*", "\\i", "\\c+", "\\I", "\\C", "[\\i]", "\\w", "\\w+", "\\W", "[\\w]", "[\\W]", "\\s", "\\s*", "\\S", "[\\s]", "[^\\s]", "\\d", "\\d+", "\\D", "[\\d]", "[^\\d]", "[\\D]",
            ".", ".*", "[^a]", "[a-z]", "[^a-z]+", "[\\^]", "[a^]", "[$]", "a{2}", "a{2,}", "a{0,2}", "(ab){1,2}", "\\n", "\\t", "\\r", "\\-", "\\.", "\\|", "\\(\\)", "\\{\\}", "\\[\\]", "\\\\", "\\*\\+\\?"]
    for _ in range(cx.n(40, 400)):
        a, b = rng.choice(names), rng.choice(names)
        pats.append(rng.choice(["\\p{Is%s}", "[\\p{Is%s}]", "[^\\p{Is%s}]", "\\p{Is%s}*", "\\p{Is%s}\\p{Is" + b + "}", "[\\p{Is%s}\\p{Is" + b + "}]", "(\\p{Is%s})+"]) % a)
    fixed = ["a", "Z", "1", "_", " ", "$", "+", "-", ":", ".", "\u03b1", "\u03a9", "\u1fc6", "\u042f", "\u00e9", "\u00a0", "\u2003", "\u0663", "\u4e2d",
             "\ufeff", "\ufffd", "\ufff0", "\U00010300", "\t", "\n", "\r", "^", "|", "\\", "{", "[", "]", "\u0300", "\u00b7", "\u203f", "\u2160", "\u00b2", "\u20ac",
             "\u0085", "\u3000", "\u037e", "\u0370", "\u03ff", "\u0400", "\u007f", "\u0080"]
    cases = []
    for p in pats:
        chars = fixed + stable_chars(rng, 12)
        strs = [""] + chars
        for _ in range(8):
            strs.append("".join(rng.choice(chars) for _ in range(rng.randrange(2, 4))))
        strs = [s.encode() for s in dict.fromkeys(strs)][:56]
        cases.append(Case(p, "list", strs=strs, tag="unicode"))
    cx.rule("unicode: %d hand-written and generated patterns with category / block / multi-character escapes, each x <= 56 strings over boundary "
            "characters and random characters whose category is stable since Unicode 3.2, ly_pattern_match, lyd_value_validate and XPath re-match on every string, yangre main() on every 8th" % len(pats))
    return cases


def escape_block_cases(cx, st):
    """block escapes behind escaped backslashes / brackets and the two-range block Specials, outside and inside classes (F190, F187),
    each against ALL strings of length <= 3 over an alphabet that holds the characters the pattern can tell apart"""
    rng = cx.sub_rng("escblock")
    names = st.blocks or ["BasicLatin", "Greek", "Specials"]
    alpha = "\\a\u03b1\ufffd|\ufeff".encode()       # backslash, a, Greek alpha, two characters of Specials, and '|'
    alpha2 = "\\]a\u03b1\ufff0[".encode()
    pats = ["\\\\[a]\\p{IsGreek}", "\\\\[a]\\p{IsSpecials}", "[\\\\]\\p{IsGreek}", "[\\\\\\p{IsGreek}]+", "\\\\[a\\p{IsGreek}]", "\\[\\p{IsGreek}\\]", "\\\\\\[\\p{IsGreek}",
            "\\\\\\\\[a]\\p{IsGreek}", "\\\\[\\\\]\\p{IsGreek}", "\\\\[^a]\\p{IsGreek}?", "(\\\\[a])*\\p{IsGreek}", "[\\]]\\p{IsGreek}", "[\\]\\p{IsGreek}]+", "[a\\\\]*[\\p{IsGreek}a]",
            "\\\\[a]\\p{IsGreek}\\\\[a]\\p{IsGreek}", "\\\\[a]|\\p{IsGreek}", "\\\\[\\p{IsGreek}\\\\]+", "\\\\[a][\\p{IsGreek}]",
            "\\p{IsSpecials}", "[\\p{IsSpecials}]", "[^\\p{IsSpecials}]", "[a\\p{IsSpecials}]+", "\\p{IsSpecials}+a", "(\\p{IsSpecials}|a)*", "[\\p{IsGreek}\\p{IsSpecials}]*",
            "[\\\\\\p{IsSpecials}]*", "\\p{IsSpecials}\\p{IsGreek}", "[\\p{IsSpecials}a]\\p{IsSpecials}?", "\\\\[\\p{IsSpecials}]", "[\\p{IsSpecials}\\p{IsGreek}|]"]
    seen = set(pats)
    blocks = ["Greek", "Specials", "Greek", "Specials", "BasicLatin"]
    for _ in range(cx.n(120, 1500)):
        k = rng.randrange(0, 3)
        p = escaped_bracket_pattern(rng, [rng.choice(ESC_CLOSED) for _ in range(k)], blocks + [rng.choice(names)]).decode()
        p = p.replace("(", "").replace(")", "")      # (unbalanced parentheses only make the pattern invalid)
        if p not in seen:
            seen.add(p); pats.append(p)
    cases = []
    for k, p in enumerate(pats):
        cases.append(Case(p, "grid", alpha if k % 3 else alpha2, 3, s3=cx.n(5, 1), s4=(97 if k % 4 == 0 else 0), salt=rng.randrange(0, 97), tag="escblock"))
        if k < 30:
            cases.append(Case(p, "grid", alpha2 if k % 3 else alpha, 3, s3=cx.n(5, 1), s4=0, salt=rng.randrange(0, 5), tag="escblock"))
    cx.rule("escblock: %d hand-written and generated patterns with block escapes (Greek, Specials, BasicLatin, random rows) outside and inside classes "
            "behind escaped backslashes in front of brackets, escaped brackets and classes holding them, each x ALL %d strings of length <= 3 over "
            "{\\ a alpha U+FFFD | U+FEFF} or {\\ ] a alpha U+FFF0 [}" % (len(pats), grid_size(6, 3)))
    return cases


# ------------------------------------------------------------------------------------------ every construct of the printer

R_PLAIN = ["a", "b", "c", "x", "1", "-", " ", "_", ":", "^", "$", "\u03b1", "\u00e9", "\u4e2d", "A", "Z", "=", "~", "p", "I", "s"]
R_ESCLIT = ["\\.", "\\\\", "\\|", "\\?", "\\*", "\\+", "\\(", "\\)", "\\{", "\\}", "\\[", "\\]", "\\-", "\\^", "\\$", "\\n", "\\r", "\\t"]
R_MULTI = ["\\d", "\\D", "\\w", "\\W", "\\s", "\\S", "\\i", "\\I", "\\c", "\\C"]
R_PROP = ["\\p{Lu}", "\\p{L}", "\\P{L}", "\\p{Nd}", "\\P{Nd}", "\\p{Zs}", "\\p{P}", "\\P{Lu}", "\\p{Sc}", "\\p{IsGreek}", "\\P{IsGreek}", "\\p{IsBasicLatin}",
          "\\p{IsCyrillic}", "\\P{IsBasicLatin}", "\\p{IsLatin-1Supplement}"]
R_QUANT = ["*", "+", "?", "{2}", "{0}", "{1,}", "{0,}", "{2,}", "{0,1}", "{0,2}", "{1,3}", "{2,2}", "{1,1}"]
R_CLSCH = ["a", "b", "c", "x", "1", " ", "|", ".", "?", "*", "+", "(", ")", "}", "$", "\u03b1", "\u03c9", "\u00e9", "A", "{", "p", "I", "s"]
R_CLSESC = ["\\\\", "\\[", "\\]", "\\-", "\\^", "\\n", "\\r", "\\t"]
R_RANGE = ["a-c", "a-z", "0-9", "A-Z", "\u03b1-\u03c9", "b-b", "\\--1", "\\t-\\r", " -~", "a-\\]"]


def gen_class(rng, depth):
    items = []
    for _ in range(rng.randrange(1, 4)):
        k = rng.random()
        if k < 0.35: items.append(rng.choice(R_CLSCH))
        elif k < 0.5: items.append(rng.choice(R_CLSESC))
        elif k < 0.7: items.append(rng.choice(R_RANGE))
        elif k < 0.85: items.append(rng.choice(R_MULTI))
        else: items.append(rng.choice(R_PROP))
    body = ("^" if rng.random() < 0.3 else "") + "".join(items)
    if rng.random() < 0.08: body = "-" + body.lstrip("^") if not body.startswith("^") else body
    if rng.random() < 0.08 and not body.endswith("-"): body += "-"
    if depth > 0 and rng.random() < 0.2:
        body += "-" + gen_class(rng, depth - 1)
    return "[" + body + "]"


def gen_atom(rng, depth):
    k = rng.random()
    if k < 0.28: return rng.choice(R_PLAIN)
    if k < 0.42: return rng.choice(R_ESCLIT)
    if k < 0.47: return "."
    if k < 0.58: return rng.choice(R_MULTI)
    if k < 0.68: return rng.choice(R_PROP)
    if k < 0.86 or depth <= 0: return gen_class(rng, 2)
    return "(" + gen_re(rng, depth - 1) + ")"


def gen_re(rng, depth):
    brs = []
    for _ in range(rng.choice([1, 1, 1, 2, 2, 3])):
        b = ""
        for _ in range(rng.choice([0, 1, 1, 2, 2, 3, 4])):
            b += gen_atom(rng, depth) + (rng.choice(R_QUANT) if rng.random() < 0.35 else "")
        brs.append(b)
    return "|".join(brs)


def render_cases(cx, st):
    """Patterns of a grammar in which every construct of the printer `renderXsd` occurs (and other spellings of the same trees);
    the model parses, prints canonically, parses again (`parse_render_roundtrip` evaluated), and says whether the tree is in
    the fragment of `rewrite_preserves_language`; original and canonical text go through the four routes."""
    rng = cx.sub_rng("render")
    pats = ["a{0,65535}", "[a-c-[b]]", "[^a-[b-[c]]]", "(|a)", "a||b", "()", "[\\{]", "[{]", "\\{Is", "\\\\p\\{Is", "^$", "[$^]", "[a^]", "[\\^a]", "[-a]", "[a-]", "a{3}{2}" ]
    seen = set(pats)
    for _ in range(cx.n(220, 2500)):
        p = gen_re(rng, 2)
        if p not in seen and "\x00" not in p:
            seen.add(p); pats.append(p)
    lines = ["c%d %s canon %s" % (i, COMP, hexs(p.encode())) for i, p in enumerate(pats)]
    rm = par_model(cx, lines)
    dist = collections.Counter()
    alpha = ["a", "b", "c", "x", "z", "1", "9", "-", " ", "_", ":", "^", "$", ".", "|", "\\", "{", "}", "[", "]", "(", ")", "?", "*", "+", "\u03b1", "\u03c9", "\u00e9", "\u4e2d", "A", "Z",
             "\n", "\r", "\t", "=", "~", "\u00a0", "\u0663", "\u0300", "p", "I", "s"]
    cases, texts, nfrag, nrej = [], [], 0, 0
    for i, p in enumerate(pats):
        r = rm.get("c%d" % i, ["err", "NoReply"])
        if r[0] != "ok":
            nrej += 1
            cx.count(("render-reject", p), False, "xsdre:render:not-xsd")
            continue
        canon, back, iscanon, frag, sem, pcre = unhex(r[1]), r[2], r[3], r[4] == "1", r[5], unhex(r[6])
        cons = r[7].split(";") if len(r) > 7 and r[7] else []
        for k in cons:
            dist[k] += 1
        if back != "1" or iscanon != "1":
            cx.fail(COMP, "parse_render_roundtrip / canon_of_parse evaluated on a pattern: the printed text is not read back to the same tree, or the tree is not canonical",
                    {"pattern": p, "pattern_hex": hexs(p.encode()), "canonical": canon.decode("utf-8", "replace"), "roundtrip": back, "canon": iscanon})
            continue
        if frag and sem != "1" and set(TEXT_FLAGS) <= set(st.flags):
            cx.fail(COMP, "rewrite_render evaluated on a pattern of the fragment: the model's rewrite of the canonical XSD text is not the canonical PCRE text",
                    {"pattern": p, "pattern_hex": hexs(p.encode()), "canonical": canon.decode("utf-8", "replace")})
            continue
        nfrag += frag
        chars = alpha[:]
        strs = [""] + chars + ["".join(rng.choice(chars) for _ in range(rng.randrange(2, 5))) for _ in range(14)]
        strs = [x.encode() for x in dict.fromkeys(strs)][:56]
        for txt in dict.fromkeys([p.encode(), canon]):
            c = Case(txt, "list", strs=strs, tag="render")
            c.frag = 1 if frag else 0
            cases.append(c)
        if frag:
            texts.append((canon, pcre))
        cx.count(("render", p), True, "xsdre:render:%s" % ("fragment" if frag else "outside-fragment"))
    # the text libyang hands to PCRE2 for the canonical text of a fragment pattern is the canonical PCRE text (rewrite_render on the code)
    if set(TEXT_FLAGS) <= set(st.flags) and texts:
        ri = par_impl(cx, ["t%d %s rewrite %s %s" % (i, COMP, flagstr(st.flags), hexs(c)) for i, (c, _) in enumerate(texts)])
        for i, (c, pc) in enumerate(texts):
            a = ri.get("t%d" % i, ["err", "NoReply"])
            cx.count(("render-rewrite", c), True, "xsdre:render:rewrite-is-pcre-text")
            if a[0] != "ok" or unhex(a[1]) != pc:
                cx.fail(COMP, "the text handed to pcre2_compile for the canonical text of a fragment pattern is not its canonical PCRE text (rewrite_render)",
                        {"pattern": c.decode("utf-8", "replace"), "pattern_hex": hexs(c), "impl": a[:2], "pcre_text": pc.decode("utf-8", "replace")})
    cx.rule("render: %d generated patterns (%d not XSD) of a grammar over every construct of the printer, in several spellings; each parsed, printed canonically and "
            "parsed again by the model (roundtrip must hold), %d in the fragment of rewrite_preserves_language (failures there are never excused by a finding; the text "
            "handed to PCRE2 must be the canonical PCRE text); original and canonical text x <= 56 strings through the routes. Construct distribution (patterns containing it): %s"
            % (len(pats), nrej, nfrag, ", ".join("%s=%d" % kv for kv in sorted(dist.items()))))
    missing = [k for k in ALL_CONSTRUCTS if not dist.get(k)]
    if missing:
        cx.fail(COMP, "generator gap: constructs of the printer that no generated pattern contains", {"missing": missing})
    return cases


ALL_CONSTRUCTS = ["alt", "cat", "empty-branch", "group", "dot", "chr-plain", "chr-escaped", "chr-nrt", "chr-anchor", "chr-nonascii",
                  "q*", "q+", "q?", "q{n}", "q{n,}", "q{n,m}", "cls-pos", "cls-neg", "cls-subtraction", "cls-range", "cls-chr-plain", "cls-chr-escaped", "cls-chr-nrt",
                  "cls-chr-nonascii", "cls-chr-anchor"] + ["esc-" + x for x in "d D w W s S i I c C pcat Pcat pblock Pblock".split()] + \
                 ["cls-esc-" + x for x in "d D w W s S i I c C pcat Pcat pblock Pblock".split()]


# ------------------------------------------------------------------------------------------ other routes / resources

def run_yangre_binary(cx, st):
    """the installed tool itself (process exit status), a few pairs"""
    exe = cx.tool("yangre")
    if not os.path.exists(exe):
        cx.notes.append("yangre binary not built: %s" % exe)
        return
    pairs = [("a*b", "aab"), ("a*b", "aa"), ("[a-c]{2}", "ab"), ("^", "^"), ("a$", "a$"), ("a", "a\n"), ("\\d+", "12"), ("(a|b)+", "abba"), ("(a|b)+", "abc"),
             ("\\p{Lu}", "A"), ("\\p{Lu}", "a"), ("[^a]", "\n"), (".", "\n"), ("", ""), ("a?", "")]
    if "f1" in st.flags:
        pairs += [("\\\\[a]\\p{IsGreek}", "\\a\u03b1"), ("\\\\[a]\\p{IsGreek}", "\\a"), ("\\p{IsSpecials}", "\ufffd"), ("\\p{IsSpecials}", "|"),
                  ("[a\\p{IsSpecials}]+", "a\ufeff\ufff0")]
    lines = ["y%d %s match %s %s 0" % (i, COMP, hexs(p.encode()), hexs(s.encode())) for i, (p, s) in enumerate(pairs)]
    rm = cx.run_model(lines)
    for i, (p, s) in enumerate(pairs):
        m = rm.get("y%d" % i, ["err"])
        try:
            pr = subprocess.run([exe, "-p", "'" + p + "'", "--", s], stdout=subprocess.PIPE, stderr=subprocess.PIPE, timeout=60)
            rc = pr.returncode
        except subprocess.TimeoutExpired:
            rc = -1
        got = {0: "1", 2: "0"}.get(rc, "E")
        cx.count(("yangre-bin", p, s), True, "xsdre:yangre-binary")
        if m[0] == "ok" and got != m[1]:
            cx.fail(COMP, "yangre exit status differs from the XSD language", {"pattern": p, "string_hex": hexs(s.encode()), "exit": rc, "spec": m[1]})
    if "f1" not in st.flags:
        try:
            pr = subprocess.run([exe, "-p", "'\\\\[a]\\p{IsGreek}'", "--", "x"], stdout=subprocess.PIPE, stderr=subprocess.PIPE, timeout=60)
            if pr.returncode not in (0, 1, 2):
                cx.fail(COMP, "yangre aborts on a pattern (table index = wrapped bracket depth) [F1]",
                        {"pattern": "\\\\[a]\\p{IsGreek}", "exit": pr.returncode, "attributed": "F1"})
        except subprocess.TimeoutExpired:
            pass


def run_xpath_reject_leak(cx, st):
    """XPath re-match() with a pattern that does not compile: verdict route agreement is covered by `xpfail`, here the
    explicit leak check (F184)."""
    bad = ["a**", "(", "[a", "a{2,1}", "\\p{IsFoo}"]
    lines = ["k%d %s grid %s 0 %s 1 1 0 0 1" % (i, COMP, hexs(p.encode()), hexs(b"ab")) for i, p in enumerate(bad)]
    lines.append("kl %s leak" % COMP)
    r = cx.run_impl(HARNESS, lines, component=COMP, crash_is_failure=False)
    for i, p in enumerate(bad):
        a = r.get("k%d" % i, ["err"])
        cx.count(("xpath-reject", p), True, "xsdre:xpath-reject")
        if a[0] != "ok" or [field_state(f) for f in a[1:5]] != ["E", "E", "E", "skip"]:
            cx.fail(COMP, "routes disagree on rejecting an invalid pattern", {"pattern": p, "reply": a})
    lk = r.get("kl", ["err"])
    if lk[:2] == ["ok", "1"]:
        cx.fail(COMP, "re-match() with a pattern that does not compile leaks the pattern record [F184]",
                {"patterns": bad, "attributed": "F184"})
    elif lk[:2] != ["ok", "0"]:
        cx.fail(COMP, "leak check did not run", {"reply": lk})
    # and the same sequence with valid patterns must be leak-free
    good = ["a*", "(a|b)+", "[a-c]"]
    lines = ["q%d %s grid %s 0 %s 2 1 3 0 1" % (i, COMP, hexs(p.encode()), hexs(b"ab")) for i, p in enumerate(good)] + ["ql %s leak" % COMP]
    r = cx.run_impl(HARNESS, lines, component=COMP)
    if r.get("ql", ["err"])[:2] != ["ok", "0"]:
        cx.fail(COMP, "leak after evaluating valid patterns through the four routes", {"patterns": good, "reply": r.get("ql")})


def corpus_cases(cx):
    d = os.path.join(paths.CORPUS, COMP)
    cases = []
    if not os.path.isdir(d):
        return cases
    for f in sorted(os.listdir(d)):
        if not f.endswith(".txt"):
            continue
        for l in open(os.path.join(d, f), encoding="utf-8"):
            l = l.rstrip("\n")
            if not l or l.startswith("#"):
                continue
            t = l.split("\t")
            strs = [unhex(h) for h in t[1:]] or [b"", b"a"]
            cases.append(Case(unhex(t[0]), "list", strs=strs[:56], tag="corpus"))
    return cases


# ------------------------------------------------------------------------------------------ entry points

def run(cx):
    import time
    t0 = time.time()
    marks = []
    def mark(name):
        marks.append("%s %.1fs" % (name, time.time() - t0))
    st = probe(cx)
    # witnesses of the listed findings first
    wit = [Case("\\p{IsGreek}", "list", strs=[b"a", "\u03b1".encode()], tag="witness"),
           Case("\\^", "list", strs=[b"^", b"\\", b"\\^"], tag="witness"),
           Case("\\$", "list", strs=[b"$", b"\\"], tag="witness"),
           Case("\\^*", "list", strs=[b"", b"^^"], tag="witness"),
           Case(".", "list", strs=[b"\r", b"\n", b"a"], tag="witness"),
           Case("[a-[b]]", "list", strs=[b"a", b"b", b"a]"], tag="witness"),
           Case("\\i\\c*", "list", strs=[b"ab", b"1"], tag="witness"),
           Case("\\w", "list", strs=[b"$", b"a", b"_"], tag="witness"),
           Case("\\s", "list", strs=["\u00a0".encode(), b" "], tag="witness"),
           Case("\\P{IsGreek}", "list", strs=[b"a", "\u03b1".encode()], tag="witness"),
           Case("a{0,65536}", "list", strs=[b"a", b"aa"], tag="witness")]
    if "f1" in st.flags:
        wit += [Case("\\\\[a]\\p{IsGreek}", "list", strs=["\\a\u03b1".encode(), b"\\a", "\\a\u03b1]".encode()], tag="witness"),
                Case("\\p{IsSpecials}", "list", strs=["\ufffd".encode(), "\ufeff".encode(), b"|", b"a"], tag="witness"),
                Case("[a\\p{IsSpecials}]", "list", strs=["\ufff0".encode(), b"a", b"|"], tag="witness"),
                Case("[\\\\p{IsBasicLatin}]", "list", strs=[b"p", b"x", b"a"], tag="witness"),
                Case("[\\\\p{Is]", "list", strs=[b"p", b"{", b"a"], tag="witness")]
    tot = collections.Counter()
    tot.update(evaluate(cx, st, wit + corpus_cases(cx)))
    mark("witnesses+corpus")
    run_rewrite(cx, st)
    mark("rewrite")
    cases, nfull = grid_cases(cx, st)
    B = 6000
    for k in range(0, len(cases), B):
        tot.update(evaluate(cx, st, cases[k:k + B], inv_every=cx.n(9, 5)))
    mark("grid")
    tot.update(evaluate(cx, st, unicode_cases(cx, st), inv_every=3))
    mark("unicode")
    tot.update(evaluate(cx, st, escape_block_cases(cx, st), inv_every=4))
    mark("escblock")
    tot.update(evaluate(cx, st, render_cases(cx, st), inv_every=7))
    mark("render")
    run_yangre_binary(cx, st)
    run_xpath_reject_leak(cx, st)
    mark("yangre+leak")
    cx.exhaustive = True
    cx.notes.append("law outcome per pattern: " + ", ".join("%s=%d" % kv for kv in sorted(tot.items())))
    cx.notes.append("cumulative time: " + ", ".join(marks))
    if tot.get("oracle-crosscheck-failed"):
        cx.notes.append("ORACLE SUSPECT: PCRE2 on toPcre(p) disagreed with the spec matcher for %d pattern(s)" % tot["oracle-crosscheck-failed"])


def replay(cx, payload):
    st = probe(cx)
    f = payload.get("failure", {})
    case = f.get("case", {})
    if "pattern_hex" not in case:
        return run(cx)
    pat = unhex(case["pattern_hex"])
    if case.get("kind") == "grid":
        c = Case(pat, "grid", unhex(case["alphabet_hex"]), int(case["maxlen"]), s3=1, s4=0, tag="replay")
        evaluate(cx, st, [c], inv_every=1)
    elif case.get("kind") == "list":
        c = Case(pat, "list", strs=[unhex(h) for h in case["strings_hex"]], tag="replay")
        evaluate(cx, st, [c], inv_every=1)
    else:
        cur = flagstr(st.flags)
        cx.differential(COMP, ["0 %s rewrite %s %s" % (COMP, cur, hexs(pat))], HARNESS)
