"""C08 — XPath evaluation on data follows XPath 1.0 with the YANG data model.

(K) `api_xpath` (lyd_eval_xpath4 / lyd_find_xpath3) against the Lean engine `LyModel.XPath.eval` on generated
    (schema, tree, context node, expression ∈ X1); `wb_xpath` drives set_sort / set_sorted_merge on synthetic sets
    against `LyModel.XPath.Set`.
(L) laws on the implementation: results of the engine with every libyang switch off (= the XPath 1.0 REC) — a difference
    is a failure of the property, attributed to the switches (findings) that explain it; node-sets are duplicate-free and in
    document order; key-predicate expressions select the same nodes as semantically identical forms that defeat the hash
    fast path; must/when verdicts of lyd_validate_all equal the boolean of the same expression.
"""
import itertools, os
from vlib.proto import hexs, unhex
from checks import xpcomp as X
from checks import xpparsecomp

LEAN_TARGETS = ["LyModel.Props.C08", "LyModel.Props.C08Parse", "LyModel.Props.C08Yang"]
AUDIT = "Audit/C08.lean"
GENERATED = ["XpConsts"]
ASSUMPTIONS = [
    "XPath numbers: the engine is parametric in the number type; the driver instantiates IEEE doubles, libyang uses x87 long double — generated numbers "
    "stay on small integers and dyadic fractions where both are exact (DESIGN §3); results are compared in thousandths, NaN/±Inf as tokens",
    "string operands compared with a terminal of a non-string type are canonised by libyang first (set_comp_canonize, deliberate, finding F355): "
    "the engine does the same (switch canonStr) for int*/uint*/decimal64/bits/identityref terminals and leafrefs to them through the value models of "
    "property C03, keyed by `#type` facts; generated strings include valid non-canonical lexical forms (xpcomp.NONCANON_POOL, Gen.noncanon_of); "
    "a union terminal canonises by the first member type that accepts the STRING (value.realtype of a union value is the union type); the canoniser "
    "of an instance-identifier terminal is the identity in the engine: generated strings compared with such a leaf are canonical paths or no paths; "
    "binary / empty terminals are not in the test schema",
    "deref() of an instance-identifier: the engine parses the canonical value of the dump (`/mod:name[key='v']…[.='v']`, no positional predicates) and "
    "walks the XML view; generated values are paths to nodes of the generated tree (with key / value predicates) and dangling paths (F356)",
    "schema facts of the engine (identity DAG, enum values, leafref paths, value types) are derived by python from the YANG text of the test modules "
    "(xpcomp.yang_facts, a statement parser of its own; libyang is not asked) and travel as `#` header lines of the dump in every eval request; "
    "deref() is modelled for leafrefs whose path has no predicate; re-match() patterns stay inside the XSD subset on which the XsdRe model of C18 "
    "and libyang's XSD->PCRE2 rewrite agree (xpcomp.RE_POOL); an unprefixed identity name is generated only when the context node is a data node (F353)",
    "the XML view handed to the engine is libyang's own dump of the parsed tree (module, name, canonical value per node in document order); "
    "parsing, implicit nodes and ordering are not under test here",
    "name() returns `module:name` (LY_VALUE_JSON prefixes); an unprefixed name test matches every module (names defined by two modules under one "
    "parent are always prefixed on the child axis, see F258); the attribute axis is outside the generated fragment (F262)",
    "a deviation recorded as a known finding is switched on in the engine (LyModel.XPath.Quirks) so that everything around it is still compared; "
    "each input on which the switched-on engine differs from the XPath 1.0 engine is reported as a failure of the property and attributed to the "
    "switches that explain it; when a finding's status becomes `fixed` its switch goes off and the XPath 1.0 behaviour is demanded again",
    "generator rules that keep the random streams off not-mirrored findings: `//` only on sets that are antichains and never in front of node()/text() "
    "(F257, F260); numeric predicates and ceiling() arguments are finite by construction (F37); bit-is-set gets a path ending in a name test (F32); "
    "the last top-level node of a generated tree has a child (F259).  Each of these findings has explicit witnesses run on every invocation",
    "corrections made to the machinery while building it (no claim was loosened): bare `/` is parenthesised when it is an operand (REC §3.7 lexing); "
    "`.` is evaluated as the step self::node(); value-aware predicates use integer literals only for digit strings; batches of 12 trees",
    "the expression text reaches the engine through the Lean model of lyxp_expr_parse (LyModel/XPath/Lex.lean, Parse.lean); the model is tied "
    "to xpath.c by the white-box token differential (wb_xpath xplex / xpparse: kind, offset, length, exp->repeat of every token) and by the "
    "extractor of its tables (Generated/XpConsts.lean), not by a C semantics; parse_render_roundtrip is a theorem about that model",
]
TRUSTED = ["harness/api_xpath.c, harness/wb_xpath.c",
           "python AST -> XPath text / prefix form renderers in tools/checks/xpcomp.py (cross-checked on every evaluation: the text parsed by the "
           "model parser and the prefix form must denote the same tree)", "tools/extractors/xpath.py",
           "xpcomp.yang_facts / yang_parse: the YANG statement parser that derives the schema facts of the engine (identity DAG, enum values incl. auto-assigned "
           "ones, bit positions, leafref paths and target types) from the text of the test modules",
           "LyModel/XPath/FloatNum.lean (Float instance of the number type, driver only)"]

HARNESS = "api_xpath"
COMP = "xpath"
ALL = 131071
# Quirks bit -> finding
QBITS = {0: "F38", 1: "F39", 2: "F40", 3: "F41", 4: "F250", 5: "F251", 6: "F252", 7: "F253", 8: "F254", 9: "F255", 10: "F256", 11: "F261", 12: "F264", 13: "F355", 14: "F354", 15: "F353", 16: "F356"}


def classify(component, what, case):
    if not isinstance(case, dict):
        return None
    if case.get("quirk") in QBITS.values():
        return case["quirk"]
    if case.get("witness") in NOT_MIRRORED:
        return case["witness"]
    if case.get("rec37") in ("F350", "F351", "F352"):
        return case["rec37"]      # tokenizer deviations from REC 3.7, replayed by rec37_witnesses()
    if case.get("where") == "s" and case.get("validate") == ["ok", "valid"] and "xpa:s" in (case.get("expr") or "") and \
            any(b[:3] == ["ok", "bool", "0"] for b in case.get("evalb", [])):
        return "F265"        # a when that reaches its own node by a child step is never evaluated
    err = (case.get("stderr", "") or "") + " " + (what or "")
    if case.get("crash"):
        if "outside the range of representable values of type 'long long'" in err:
            return "F37"
        fnname = crash_function(what or "") or ""
        if "null pointer" in err and (fnname == "get_node_pos" or "in get_node_pos" in err):
            return "F259"
        if "null pointer" in err and (fnname in ("xpath_bit_is_set", "xpath_deref", "xpath_enum_value") or "in xpath_bit_is_set" in err):
            return "F32"
        if "null pointer" in err and "lys_module" in err and (fnname == "xpath_derived_" or "in xpath_derived_" in err):
            return "F353"
        if "null pointer" in err and (fnname == "xpath_sum" or "in xpath_sum" in err):
            return "F263"
    return None


def crash_function(what):
    """name of the function of src/xpath.c that contains the source line of a sanitizer report (the report's own frames may be cut off)"""
    import re
    from vlib import paths
    m = re.search(r"src/xpath\.c:(\d+):", what)
    if not m: return None
    line = int(m.group(1))
    try:
        src = open(os.path.join(paths.REPO, "src", "xpath.c"), errors="replace").read().split("\n")
    except OSError:
        return None
    for i in range(min(line, len(src)) - 1, -1, -1):
        mm = re.match(r"^([a-z_][a-z0-9_]*)\(", src[i])
        if mm: return mm.group(1)
    return None


# ----------------------------------------------------------------------------------------------------------------------
def schema_line(i):
    return "%s %s schema %s %s" % (i, COMP, hexs(X.YANG_A), hexs(X.YANG_B))


_REPAIRS = None


def source_repairs():
    """{finding: the source tree already has its repair}, read off xpath.c (tools/extractors/xpath.py: yang_fn_repairs) — the switch of
    such a finding is off even while its status is still `known`, so the check is right with and without the candidate fix."""
    global _REPAIRS
    if _REPAIRS is None:
        import importlib.util, os
        here = os.path.dirname(os.path.dirname(os.path.abspath(__file__)))
        spec = importlib.util.spec_from_file_location("extractors_xpath", os.path.join(here, "extractors", "xpath.py"))
        mod = importlib.util.module_from_spec(spec)
        spec.loader.exec_module(mod)
        _REPAIRS = mod.yang_fn_repairs()
    return _REPAIRS


def live_mask(cx):
    """switches of the engine that stand for a deviation still present in the implementation: findings with status `known`.
    A repaired finding (status `fixed`) turns its switch off, so the engine demands the XPath 1.0 behaviour there again."""
    m = 0
    rep = source_repairs()
    for bit, fid in QBITS.items():
        f = cx.findings.get(fid)
        if f is not None and f.get("status") == "known" and not rep.get(fid, False):
            m |= 1 << bit
    return m


def model_prefix(e):
    """prefix form sent to the model next to the text.  The text of an expression-path without steps, ('path', ('E', x), []), and of a filter without
    predicates is the text of the inner expression x (`current()` for P E F current 0 0): the driver parses the text with the model's own parser and
    cross-checks the result against this prefix form, so the inner expression is the tree both routes must agree on (xpparsecomp.norm)."""
    return X.prefix(xpparsecomp.norm(e))


REC37 = [  # (finding, text, what XPath 1.0 says, reply prefix of libyang that reproduces the finding)
    ("F350", "a orb", "error: the NCName orb in operator position is no OperatorName", "ok 3 "),
    ("F350", "1 mod3", "error: the NCName mod3 in operator position is no OperatorName", "ok 3 "),
    ("F350", "6 div2", "error", "ok 3 "),
    ("F350", "a andb", "error", "ok 3 "),
    ("F351", "child :: a", "the same as child::a", "err Lex"),
    ("F351", "child:: a", "the same as child::a", "err Lex"),
    ("F351", "child ::a", "the same as child::a", "err Lex"),
    ("F352", "*:a", "error: no such NameTest in XPath 1.0", "ok 1 "),
    ("F352", "*:*", "error", "ok 1 "),
]


def rec37_witnesses(cx):
    """the witnesses of lex_opname_disambiguation_fails (F350) and of the two other recorded tokenizer deviations, replayed on
    libyang (wb_xpath xpparse); the model must give the same reply (it mirrors the deviation)."""
    lines = ["r%d %s xpparse %s" % (i, COMP, hexs(t)) for i, (_, t, _, _) in enumerate(REC37)]
    ri = cx.run_impl("wb_xpath", lines)
    rm = cx.run_model(lines)
    seen = set()
    for i, (fid, t, rec, pat) in enumerate(REC37):
        ra, rb = ri.get("r%d" % i, ["err", "NoReply"]), rm.get("r%d" % i, ["err", "NoReply"])
        a, b = " ".join(ra), " ".join(rb)
        cx.count(("rec37", t), nontrivial=True, kind="rec37-witness")
        if a != b:
            cx.disagree(COMP, lines[i], ra, rb)
        elif (a + " ").startswith(pat) and fid not in seen:
            seen.add(fid)
            cx.fail(COMP, "tokenizer deviates from XPath 1.0 section 3.7", {"rec37": fid, "expr": t, "impl": a, "xpath10": rec})
    cx.rule("REC 3.7 witnesses replayed on lyxp_expr_parse: %s" % ", ".join(sorted(seen)))


def run_groups(cx, groups, kind_tag):
    """groups: list of (xml, [(op, ctx, expr_ast, meta)]).  Sends everything through harness and model; returns list of
    (group index, item index, line, impl reply, model reply, dump)."""
    # pass 1 (implementation only): obtain the XML view of every tree
    lines = [schema_line("s")]
    for gi, (xml, items) in enumerate(groups):
        lines.append("t%d %s load x %s" % (gi, COMP, hexs(xml)))
    rep = cx.run_impl(HARNESS, lines, component=COMP)
    dumps = {}
    for gi in range(len(groups)):
        r = rep.get("t%d" % gi, ["err", "NoReply"])
        if r[0] == "ok":
            dumps[gi] = r[1]
        else:
            cx.notes.append("tree %d rejected: %s" % (gi, r))
    # pass 2: same lines to both sides; an evaluation request carries the schema facts (derived by python from the YANG text) in front of the dump
    fdumps = {gi: X.with_facts(d) for gi, d in dumps.items()}
    out = []
    lines, index = [schema_line("s")], {}
    for gi, (xml, items) in enumerate(groups):
        if gi not in dumps: continue
        lines.append("t%d %s tree x %s %s" % (gi, COMP, hexs(xml), dumps[gi]))
        for ii, (op, c, e, meta) in enumerate(items):
            txt = meta.get("text") or X.render(e)
            lid = "e%d_%d" % (gi, ii)
            lines.append("%s %s %s %d %s %s %s %d" % (lid, COMP, op, c, hexs(txt), hexs(model_prefix(e)), fdumps[gi], live_mask(cx)))
            index[lid] = (gi, ii)
    ri = run_impl_stateful(cx, lines)
    rm = cx.run_model(lines)
    for l in lines:
        lid = l.split()[0]
        a, b = ri.get(lid, ["err", "NoReply"]), rm.get(lid, ["err", "NoReply"])
        if lid in index:
            gi, ii = index[lid]
            op, c, e, meta = groups[gi][1][ii]
            k = "%s:%s:%s" % (kind_tag, op, " ".join(a[:2]))
            cx.count((gi, groups[gi][0], c, X.prefix(e), op), a[0] == "ok", k)
            out.append((gi, ii, l, a, b, dumps[gi]))
        if a != b and a[:2] != ["err", "Crash"]:
            cx.disagree(COMP, shorten(l), a, b)
    if lines:
        cx.sample(shorten(lines[cx.rng.randrange(1, len(lines))]))
    return out, dumps


def shorten(l):
    t = l.split()
    return " ".join(x if len(x) < 400 else x[:60] + "…" for x in t)


def run_impl_stateful(cx, lines):
    """The harness keeps the schema and the tree of the preceding `schema` / `tree` lines.  After a crash vcheck restarts it on
    the remaining lines, which then answer `err NoTree`: re-send those with their `schema` and `tree` lines in front."""
    res = cx.run_impl(HARNESS, lines, component=COMP)
    heads = [(l.split(None, 3)[0], l.split(None, 3)[2]) for l in lines]
    for _ in range(400):
        redo, cur_tree, have = [], None, set()
        for l, (lid, op) in zip(lines, heads):
            if op == "tree": cur_tree = l
            r = res.get(lid)
            if r is not None and r[:2] == ["err", "NoTree"] and op in ("eval", "find", "evalb"):
                if cur_tree is not None and id(cur_tree) not in have:
                    have.add(id(cur_tree))
                    redo.append(cur_tree)
                redo.append(l)
        if not redo: break
        r2 = cx.run_impl(HARNESS, [lines[0]] + redo, component=COMP)
        for l in redo:
            i = l.split()[0]
            if i in r2: res[i] = r2[i]
    return res


def rec_law(cx, results):
    """(L) the implementation's result equals the XPath 1.0 result (engine with every switch off); differences are attributed."""
    need = []
    for (gi, ii, l, a, b, dump) in results:
        t = l.split()
        if t[2] != "eval": continue
        if a[0] != "ok" and a[:2] not in (["err", "ArgType"], ["err", "InvalidOp"], ["err", "Inval"], ["err", "Valid"], ["err", "NoModule"]):
            continue
        need.append((l, a, a == b))
    body = lambda l: " ".join(l.split()[3:7])
    lines = ["%s %s evalq 0 %s" % (l.split()[0], COMP, body(l)) for (l, a, agree) in need]
    rm = cx.run_model(lines)
    diff = []
    for (l, a, agree) in need:
        r = rm.get(l.split()[0], ["err", "NoReply"])
        if r != a:
            diff.append((l, a, r, agree))
    # attribution: which single switches, turned off in the live configuration, change the result / turned on alone, explain it
    live = live_mask(cx)
    lines2 = []
    for n, (l, a, r, agree) in enumerate(diff):
        if not agree: continue
        for bit in QBITS:
            if live >> bit & 1:
                lines2.append("a%d_%d %s evalq %d %s" % (n, bit, COMP, live & ~(1 << bit), body(l)))
    ra = cx.run_model(lines2) if lines2 else {}
    for n, (l, a, r, agree) in enumerate(diff):
        t = l.split()
        case = {"line": shorten(l), "expr": unhex(t[4]).decode("utf-8", "replace"), "ctx": t[3], "impl": a, "xpath10": r}
        if not agree:
            # the engine with the recorded deviations does not reproduce this result either: a concrete failing input of the property
            cx.fail(COMP, "result differs from XPath 1.0 and no recorded deviation explains it", case)
            continue
        implicated = [bit for bit in QBITS if live >> bit & 1 and ra.get("a%d_%d" % (n, bit)) != a]
        if not implicated:
            # several deviations each suffice: those that alone already change the XPath 1.0 result
            rb = cx.run_model(["b%d %s evalq %d %s" % (bit, COMP, 1 << bit, body(l)) for bit in QBITS if live >> bit & 1])
            implicated = [bit for bit in QBITS if live >> bit & 1 and rb.get("b%d" % bit) != r]
        if not implicated:
            cx.fail(COMP, "result differs from XPath 1.0 and no recorded deviation explains it", case)
        for bit in implicated:
            cx.fail(COMP, "result differs from XPath 1.0 (%s)" % QBITS[bit], dict(case, quirk=QBITS[bit]))
    cx.dist["law:xpath10:checked"] += len(need)
    cx.dist["law:xpath10:differs"] += len(diff)


def ns_sorted(r):
    return r


def nodeset_law(cx, results):
    """(L) node-sets contain no duplicates and are in document order (lyd_eval_xpath4 returns them in the evaluator's order)."""
    for (gi, ii, l, a, b, dump) in results:
        if a[:2] == ["ok", "ns"]:
            ids = [int(x) for x in a[2:]]
            if len(set(ids)) != len(ids):
                cx.fail(COMP, "node-set with duplicates", {"line": shorten(l), "impl": a, "expr": unhex(l.split()[4]).decode()})
            elif ids != sorted(ids):
                cx.fail(COMP, "node-set not in document order", {"line": shorten(l), "impl": a, "expr": unhex(l.split()[4]).decode()})


def corpus(cx):
    """hand seeds and minimised past disagreements (corpus/xpath/*.json), run first"""
    import json
    from vlib import paths
    d = os.path.join(paths.CORPUS, "xpath")
    by_xml = {}
    for f in sorted(os.listdir(d)) if os.path.isdir(d) else []:
        if not f.endswith(".json"): continue
        for c in json.load(open(os.path.join(d, f))).get("cases", []):
            e = X.ast_from_json(c["ast"])
            by_xml.setdefault(c["xml"], []).append(("eval", c["ctx"], e, {"text": X.render(e)}))
    if by_xml:
        results, dumps = run_groups(cx, list(by_xml.items()), "corpus")
        nodeset_law(cx, results)
        rec_law(cx, results)


def gen_groups(cx, ntrees, nexpr, depth):
    groups = []
    for ti in range(ntrees):
        rng = cx.sub_rng("tree%d" % ti)
        xml, vals = X.gen_tree(rng, X.SCHEMA1, density=rng.choice([0.5, 0.7, 0.9]), maxinst=rng.choice([2, 5, 6]))
        groups.append((xml, vals))
    return groups


def run(cx):
    cx.rule("xpath: fixed schema set (2 modules, lists with 1-2 keys, leaf-lists, nested containers, choice, augment; parents with <4 and >=4 children) x "
            "random trees x random context nodes x type-directed expressions of fragment X1 (12 axes, name/*/node()/text() tests, nested predicates, "
            "operators, core function library); non-trivial = distinct (tree, context, expression) with a non-error result")
    corpus(cx)
    # tokenizer / grammar check of lyxp_expr_parse against the Lean lexer and parser; text <-> AST route of the Lean parser / renderer
    xpparsecomp.run_tokens(cx, extra=xpparsecomp.run_ast_route(cx))
    rec37_witnesses(cx)
    ntrees, nexpr, depth = cx.n(36, 220), cx.n(140, 400), cx.n(3, 4)
    base = gen_groups(cx, ntrees, nexpr, depth)
    # first obtain node counts so that contexts can be chosen: one load pass
    lines = [schema_line("s")] + ["t%d %s load x %s" % (i, COMP, hexs(x)) for i, (x, v) in enumerate(base)]
    rep = cx.run_impl(HARNESS, lines, component=COMP)
    groups = []
    for ti, (xml, vals) in enumerate(base):
        r = rep.get("t%d" % ti, ["err"])
        if r[0] != "ok":
            cx.notes.append("tree rejected %s" % r); continue
        dump = unhex(r[1]).decode() if r[1] != "-" else ""
        nodes = [ln.split() for ln in dump.split("\n") if ln]
        rng = cx.sub_rng("expr%d" % ti)
        g = X.Gen(rng, X.SCHEMA1, vals)
        items = []
        for k in range(nexpr):
            c = rng.randrange(0, len(nodes) + 1) if rng.random() < 0.8 else 0
            cur = cursor_of(nodes, c)
            d = rng.choice([1, 2, depth, depth])
            g.nonroot = c != 0
            e = g.expr("any", d, cur)
            if X.size(e) > 60: continue
            items.append(("eval", c, e, {"text": X.render(e, rng)}))
            if e[0] in ("path", "filter") or (e[0] == "bin" and e[1] == "union"):
                if rng.random() < 0.3:
                    items.append(("find", c, e, {"text": X.render(e, rng)}))
        # RFC 7950 section 10 functions and canonising comparisons, type-directed, from random context nodes
        for k in range(cx.n(60, 160)):
            c = rng.randrange(0, len(nodes) + 1) if nodes else 0
            g.nonroot = c != 0
            y = rng.random()
            e = (g.yang_bool(2, cursor_of(nodes, c)) if y < 0.6 else
                 g.bit_is_set(2, cursor_of(nodes, c)) if y < 0.7 else
                 X.fn("enum-value", g.typed_path([X.ENUM, X.ENUM2, X.INT])[1]) if y < 0.8 else
                 rng.choice([lambda d: d, lambda d: X.fn("count", d), lambda d: ("path", ("E", d), [X.st(X.NODE, "parent"), X.st(X.STAR)])])(g.deref(2, cursor_of(nodes, c))))
            items.append(("eval", c, e, {"text": X.render(e, rng)}))
        # systematic part: every axis x node test x positional predicate from a few context nodes (and one more step behind it)
        for c in sorted(set([0] + [rng.randrange(1, len(nodes) + 1) for _ in range(cx.n(2, 4))])) if nodes else []:
            names = sorted({(n[1], n[2]) for n in nodes})
            for axis in X.AXES_GEN:
                mod, name = rng.choice(names)
                for test in (X.STAR, X.NODE, ("n", mod if rng.random() < 0.5 or name in X.CONFLICT else None, name), ("m", rng.choice([X.A, X.B]))):
                    # (a number-valued predicate need not be constant over the node set: [position()] keeps every node)
                    for preds in ([], [X.num(1)], [X.fn("last")], [X.num(2)], [X.bop("gt", X.fn("position"), X.num(1))], [X.fn("position")],
                                  [X.bop("add", X.bop("sub", X.fn("position"), X.num(1)), X.num(1))],
                                  [X.bop("sub", X.fn("last"), X.bop("sub", X.fn("last"), X.fn("position")))], [X.fn("position"), X.num(2)]):
                        if preds and rng.random() < 0.5: continue
                        steps = [X.st(test, axis, preds)]
                        if rng.random() < 0.3:
                            steps.append(X.st(rng.choice([X.STAR, ("n", None, "k"), X.NODE]), rng.choice(["parent", "self", "ancestor", "descendant", "following-sibling"])))
                        e = X.relp(*steps)
                        if rng.random() < 0.25: e = X.fn("count", e)
                        items.append(("eval", c, e, {"text": X.render(e, rng)}))
        groups.append((xml, items))
        if len(groups) >= 12:
            results, dumps = run_groups(cx, groups, "xpath")
            nodeset_law(cx, results)
            rec_law(cx, results)
            groups = []
    if groups:
        results, dumps = run_groups(cx, groups, "xpath")
        nodeset_law(cx, results)
        rec_law(cx, results)
    fastpath_law(cx, cx.n(30, 300))
    mustwhen_law(cx, cx.n(80, 800))
    witnesses(cx)
    set_ops(cx)


NOT_MIRRORED = ("F257", "F258", "F260", "F262")


def witnesses(cx):
    """Every listed finding is exercised on every run.  Mirrored deviations go through the differential and the XPath 1.0 law; the others are compared
    with the XPath 1.0 result only (the engine does not reproduce them); crash witnesses get one process each."""
    items = [("eval", c, e, {"fid": fid}) for (fid, c, e) in X.WITNESSES if fid not in NOT_MIRRORED]
    results, dumps = run_groups(cx, [(X.WITNESS_XML, items)], "witness")
    nodeset_law(cx, results)
    rec_law(cx, results)
    # not mirrored: implementation vs XPath 1.0
    if 0 in dumps:
        ws = [(fid, c, e) for (fid, c, e) in X.WITNESSES if fid in NOT_MIRRORED]
        lines = [schema_line("s"), "t %s tree x %s %s" % (COMP, hexs(X.WITNESS_XML), dumps[0])]
        for n, (fid, c, e) in enumerate(ws):
            lines.append("w%d %s eval %d %s %s %s" % (n, COMP, c, hexs(X.render(e)), hexs(model_prefix(e)), X.with_facts(dumps[0])))
        ri = run_impl_stateful(cx, lines)
        rm = cx.run_model(["w%d %s evalq 0 %s" % (n, COMP, " ".join(lines[n + 2].split()[3:])) for n in range(len(ws))])
        for n, (fid, c, e) in enumerate(ws):
            a, r = ri.get("w%d" % n, ["err", "NoReply"]), rm.get("w%d" % n, ["err", "NoReply"])
            cx.count(("witness", fid, X.prefix(e)), True, "witness:" + fid)
            if a != r:
                cx.fail(COMP, "result differs from XPath 1.0 (%s)" % fid, {"witness": fid, "expr": X.render(e), "ctx": c, "impl": a, "xpath10": r})
    # F263: compiling a schema whose must expression applies sum() to the root node
    ya = X.YANG_A.replace("container c {", 'container c { must "sum(/) = 0";', 1)
    cx.count(("witness", "F263"), True, "witness:F263")
    cx.run_impl(HARNESS, ["s %s schema %s %s" % (COMP, hexs(ya), hexs(X.YANG_B))], component=COMP)
    for (fid, xml, c, e) in X.CRASH_WITNESSES:
        lines = [schema_line("s"), "t %s load x %s" % (COMP, hexs(xml)), "w %s eval %d %s -" % (COMP, c, hexs(X.render(e)))]
        cx.count(("witness", fid, X.prefix(e)), True, "witness:" + fid)
        ri = cx.run_impl(HARNESS, lines, component=COMP)      # a sanitizer abort is recorded as a failure and classified by its report
        if source_repairs().get(fid) and ri.get("w") is not None and ri.get("w")[:2] != ["err", "Valid"]:
            # repaired source (fixes/F353.diff): a clean LY_EVALID is what the engine with the switch off says (Eval.derivedFn)
            cx.fail(COMP, "repaired xpath_derived_: unprefixed identity without a module must be refused with LY_EVALID",
                    {"witness_repaired": fid, "expr": X.render(e), "impl": ri.get("w")})


# ----------------------------------------------------------------------------------------------------------------------
def parse_dump(dump_hex):
    """[(index, depth, mod, name, kind, value, parent index)]"""
    txt = unhex(dump_hex).decode() if dump_hex != "-" else ""
    out, stack = [], {}
    for i, ln in enumerate([l for l in txt.split("\n") if l]):
        d, mod, name, kind, val, bt = ln.split()
        d = int(d)
        v = unhex(val).decode("utf-8", "replace")
        out.append({"i": i + 1, "d": d, "mod": mod, "name": name, "kind": kind, "v": v, "p": stack.get(d - 1, 0), "bt": bt})
        stack[d] = i + 1
    return out


def lit_or_none(v):
    return None if ("'" in v and '"' in v) else X.lit(v)


def pair_groups(cx, nodes, rng):
    """Key / value predicate expressions, each as a family of semantically identical forms: the first is answered through the children
    hash table (eval_name_test_try_compile_predicates + moveto_node_hash_child), the others defeat that fast path."""
    fams = []
    by_i = {n["i"]: n for n in nodes}

    def kids(i): return [n for n in nodes if n["p"] == i]

    def path_to(i):
        steps = []
        while i:
            n = by_i[i]
            steps.append(n); i = n["p"]
        return list(reversed(steps))

    def key_preds_of(entry):
        """predicate steps that identify this list entry / leaf-list entry on the way down"""
        return None

    lists = [n for n in nodes if n["kind"] == "i" and (n["mod"], n["name"]) in ((X.A, "l1"), (X.A, "l2"), (X.A, "l3"), (X.A, "top"))]
    rng.shuffle(lists)
    keyname = {"l1": ["k"], "l2": ["k1", "k2"], "l3": ["k"], "top": ["id"]}
    for ent in lists[:6]:
        ks = keyname[ent["name"]]
        kv = {k["name"]: k["v"] for k in kids(ent["i"]) if k["name"] in ks and k["mod"] == X.A}
        if len(kv) != len(ks) or any(lit_or_none(v) is None for v in kv.values()): continue
        if rng.random() < 0.25:      # a value that does not occur
            kv[ks[-1]] = rng.choice(["zz", "7", "a"])
        anc = path_to(ent["p"])
        if any(a["name"] in keyname for a in anc):
            # parent list entries are addressed by position-independent key predicates as well
            pass
        base = []
        ok = True
        for a in anc:
            if a["name"] in keyname:
                akv = {k["name"]: k["v"] for k in kids(a["i"]) if k["name"] in keyname[a["name"]]}
                if any(lit_or_none(v) is None for v in akv.values()): ok = False; break
                base.append(X.st(a["name"], preds=[X.bop("eq", X.relp(X.st(k)), X.lit(akv[k])) for k in keyname[a["name"]]]))
            else:
                base.append(X.st(X.nm(a["name"], a["mod"])))
        if not ok: continue
        name = ent["name"]
        eqs = [(k, kv[k]) for k in ks]
        K = lambda k, pfx=X.A: X.relp(X.st(X.nm(k, pfx)))
        forms = [
            [X.st(name, preds=[X.bop("eq", K(k), X.lit(v)) for (k, v) in eqs])],                                  # fast path
            [X.st(name, preds=[X.bop("eq", X.fn("string", K(k)), X.lit(v)) for (k, v) in eqs])],
            [X.st(name, preds=[X.bop("eq", X.lit(v), K(k)) for (k, v) in eqs])],
            [X.st(name, preds=[X.bop("eq", K(k, None), X.lit(v)) for (k, v) in eqs])],                            # unprefixed keys (fast path)
            [X.st(X.STAR, preds=[X.relp(X.st(name, "self"))] + [X.bop("eq", K(k), X.lit(v)) for (k, v) in eqs])],
            [X.st(name, preds=[X.bop("and", X.bop("eq", K(k), X.lit(v)), X.fn("true")) for (k, v) in eqs])],
            [X.st(name, preds=[X.bop("eq", X.fn("normalize-space", X.fn("concat", K(k), X.lit(""))), X.fn("normalize-space", X.lit(v))) for (k, v) in eqs])]
            if all(v == " ".join(v.split()) for (_, v) in eqs) else None,
        ]
        if len(eqs) == 2:
            forms.append([X.st(name, preds=[X.bop("eq", K(k), X.lit(v)) for (k, v) in reversed(eqs)])])             # reordered keys
            forms.append([X.st(name, preds=[X.bop("and", X.bop("eq", K(eqs[0][0]), X.lit(eqs[0][1])), X.bop("eq", K(eqs[1][0]), X.lit(eqs[1][1])))])])
        intv = [(k, v) for (k, v) in eqs if v.lstrip("-").isdigit() and not v.startswith("-")]
        if intv and name in ("l2", "top"):
            forms.append([X.st(name, preds=[X.bop("eq", K(k), (X.num(int(v)) if (k, v) in intv and k in ("k2", "id") else X.lit(v))) for (k, v) in eqs])])
        tails = [[], [X.st(X.nm("v"))], [X.st(X.STAR)], [X.st(X.NODE, "parent")]]
        tail = rng.choice(tails)
        fam = [X.absp(*(base + f + tail)) for f in forms if f]
        fams.append(("list:" + name, 0, fam))
        if any(a["name"] in keyname for a in anc):
            # several parents in the context set: the enclosing list entries are NOT pinned by key predicates, so the keyed lookup runs
            # once per parent and the same key value may (and, by the choice below, often does) occur under more than one of them
            same = [n for n in nodes if n["kind"] == "i" and n["name"] == name and n["mod"] == ent["mod"] and n["i"] != ent["i"]]
            kv2 = dict(kv)
            if same and rng.random() < 0.7:
                o = rng.choice(same)
                okv = {k["name"]: k["v"] for k in kids(o["i"]) if k["name"] in ks and k["mod"] == X.A}
                if len(okv) == len(ks) and all(lit_or_none(v) is not None for v in okv.values()):
                    kv2 = okv
            eqs2 = [(k, kv2[k]) for k in ks]
            base2 = [X.st(X.nm(a["name"], a["mod"])) for a in anc]
            forms2 = [[X.st(name, preds=[X.bop("eq", K(k), X.lit(v)) for (k, v) in eqs2])],
                      [X.st(name, preds=[X.bop("eq", X.fn("string", K(k)), X.lit(v)) for (k, v) in eqs2])],
                      [X.st(name, preds=[X.bop("and", X.bop("eq", K(k), X.lit(v)), X.fn("true")) for (k, v) in eqs2])],
                      [X.st(X.STAR, preds=[X.relp(X.st(name, "self"))] + [X.bop("eq", K(k), X.lit(v)) for (k, v) in eqs2])]]
            fams.append(("list-multiparent:" + name, 0, [X.absp(*(base2 + f + tail)) for f in forms2]))
        # relative from the parent
        if ent["p"]:
            fams.append(("list-rel:" + name, ent["p"], [X.relp(*(f + tail)) for f in forms if f]))
    lls = [n for n in nodes if n["kind"] == "t" and n["name"] in ("ll", "ls", "w", "sl", "z")]
    rng.shuffle(lls)
    for ent in lls[:5]:
        v = ent["v"] if rng.random() < 0.8 else rng.choice(["zz", "1", "a"])
        if lit_or_none(v) is None: continue
        anc = path_to(ent["p"])
        base, ok = [], True
        for a in anc:
            if a["name"] in keyname:
                akv = {k["name"]: k["v"] for k in kids(a["i"]) if k["name"] in keyname[a["name"]]}
                if any(lit_or_none(x) is None for x in akv.values()): ok = False; break
                base.append(X.st(a["name"], preds=[X.bop("eq", X.relp(X.st(k)), X.lit(akv[k])) for k in keyname[a["name"]]]))
            else:
                base.append(X.st(X.nm(a["name"], a["mod"])))
        if not ok: continue
        t = X.nm(ent["name"], ent["mod"])
        forms = [[X.st(t, preds=[X.bop("eq", X.DOT, X.lit(v))])],
                 [X.st(t, preds=[X.bop("eq", X.fn("string", X.DOT), X.lit(v))])],
                 [X.st(t, preds=[X.bop("eq", X.lit(v), X.DOT)])],
                 [X.st(t, preds=[X.bop("eq", X.relp(X.st(X.NODE, "self")), X.lit(v))])],
                 [X.st(X.STAR, preds=[X.relp(X.st(t, "self")), X.bop("eq", X.DOT, X.lit(v))])]]
        if ent["bt"] == "int" and v.isdigit():
            forms.append([X.st(t, preds=[X.bop("eq", X.DOT, X.num(int(v)))])])
        fams.append(("leaflist:" + ent["name"], 0, [X.absp(*(base + f)) for f in forms]))
    # value taken from the context node (current()): any terminal as context
    terms = [n for n in nodes if n["kind"] == "t" and n["bt"] == "string"]
    rng.shuffle(terms)
    for ctxn in terms[:4]:
        cur = X.fn("current")
        fam = [X.absp(X.C_, X.st("l1", preds=[X.bop("eq", X.relp(X.st("k")), cur)])),
               X.absp(X.C_, X.st("l1", preds=[X.bop("eq", X.fn("string", X.relp(X.st("k"))), X.fn("string", cur))])),
               X.absp(X.C_, X.st(X.STAR, preds=[X.relp(X.st("l1", "self")), X.bop("eq", X.relp(X.st("k")), cur)]))]
        fams.append(("current:l1", ctxn["i"], fam))
        fam = [X.absp(X.C_, X.st("ls", preds=[X.bop("eq", X.DOT, cur)])),
               X.absp(X.C_, X.st("ls", preds=[X.bop("eq", X.fn("string", X.DOT), X.fn("string", cur))]))]
        fams.append(("current:ls", ctxn["i"], fam))
    return fams


def fastpath_law(cx, ntrees):
    """(K)+(L): every form goes through the differential; the law on the implementation: all forms of a family select identical node lists."""
    for start in range(0, ntrees, 15):
        fastpath_chunk(cx, range(start, min(ntrees, start + 15)))


def fastpath_chunk(cx, tis):
    base = []
    for ti in tis:
        rng = cx.sub_rng("fp-tree%d" % ti)
        xml, vals = X.gen_tree(rng, X.SCHEMA1, density=rng.choice([0.6, 0.9]), maxinst=rng.choice([2, 3, 6]))
        base.append(xml)
    lines = [schema_line("s")] + ["t%d %s load x %s" % (i, COMP, hexs(x)) for i, x in enumerate(base)]
    rep = cx.run_impl(HARNESS, lines, component=COMP)
    groups, famidx = [], []
    for k, xml in enumerate(base):
        ti = tis[k]
        r = rep.get("t%d" % k, ["err"])
        if r[0] != "ok": continue
        nodes = parse_dump(r[1])
        rng = cx.sub_rng("fp-expr%d" % ti)
        fams = pair_groups(cx, nodes, rng)
        items = []
        for (tag, c, fam) in fams:
            famidx.append((len(groups), tag, c, list(range(len(items), len(items) + len(fam)))))
            for e in fam:
                items.append(("eval", c, e, {"text": X.render(e, rng)}))
        groups.append((xml, items))
    results, dumps = run_groups(cx, groups, "fastpath")
    by = {(gi, ii): (l, a) for (gi, ii, l, a, b, d) in results}
    for (gi, tag, c, idxs) in famidx:
        reps = [by.get((gi, ii)) for ii in idxs]
        if any(r is None for r in reps): continue
        first = reps[0][1]
        cx.count(("fam", gi, tag, c, idxs[0]), first[:2] == ["ok", "ns"] and len(first) > 2, "fastpath:family:" + tag.split(":")[0])
        for (l, a) in reps[1:]:
            if a != first:
                cx.fail(COMP, "key/value predicate answered by lookup selects other nodes than the equivalent generic form",
                        {"family": tag, "ctx": c, "fast": unhex(reps[0][0].split()[4]).decode(), "fast_result": first,
                         "generic": unhex(l.split()[4]).decode(), "generic_result": a})
    nodeset_law(cx, results)
    rec_law(cx, results)


def yang_dq(x):
    return '"' + x.replace("\\", "\\\\").replace('"', '\\"') + '"'


def mustwhen_law(cx, nvar):
    """(L) the must/when decision of lyd_validate_all is the boolean value of the same expression evaluated by lyd_eval_xpath3 at the same node."""
    for vi in range(-1, nvar):
        rng = cx.sub_rng("must%d" % vi)
        xml, vals = X.gen_tree(rng, X.SCHEMA1, density=0.9, maxinst=3)
        g = X.Gen(rng, X.SCHEMA1, vals, always_prefix=True)
        g.nonroot = True
        where = rng.choice(["c", "c", "l1", "s"])
        sch = [n for n in X.SCHEMA1 if n["name"] == "c"]
        cur = sch if where == "c" else sch + [k for k in sch[0]["kids"] if k["name"] == ("l1" if where == "l1" else "s") and k["mod"] == X.A]
        e = g.expr("bool", rng.choice([1, 2, 2]), cur)
        if vi == -1:
            # witness of F265: the when of leaf s reaches s itself through a child step
            where, xml = "s", '<c xmlns="urn:xpa"><s>bx</s><b>false</b></c>'
            e = X.bop("eq", X.fn("count", X.relp(X.st(X.NODE, "parent"), X.st("s"))), X.num(7))
        if X.size(e) > 40: continue
        txt = X.render(e)
        if where == "c":
            ya = X.YANG_A.replace("container c {", "container c { must %s;" % yang_dq(txt), 1)
        elif where == "l1":
            ya = X.YANG_A.replace("list l1 { key k;", "list l1 { key k; must %s;" % yang_dq(txt), 1)
        else:
            ya = X.YANG_A.replace("leaf s { type string; }", "leaf s { when %s; type string; }" % yang_dq(txt), 1)
        assert ya != X.YANG_A
        l0 = ["s %s schema %s %s" % (COMP, hexs(ya), hexs(X.YANG_B)), "t %s load x %s" % (COMP, hexs(xml))]
        r0 = cx.run_impl(HARNESS, l0, component=COMP)
        if r0.get("s", ["err"])[0] != "ok" or r0.get("t", ["err"])[0] != "ok":
            cx.dist["mustwhen:schema-or-tree-rejected"] += 1
            continue
        nodes = parse_dump(r0["t"][1])
        if where == "c": ctxs = [n["i"] for n in nodes if n["name"] == "c" and n["d"] == 0]
        elif where == "l1": ctxs = [n["i"] for n in nodes if n["name"] == "l1" and n["mod"] == X.A and n["d"] == 1]
        else: ctxs = [n["i"] for n in nodes if n["name"] == "s" and n["mod"] == X.A and n["d"] == 1]
        if not ctxs:
            cx.dist["mustwhen:no-instance"] += 1
            continue
        lines = l0 + ["e%d %s evalb %d %s -" % (c, COMP, c, hexs(txt)) for c in ctxs] + ["v %s validate" % COMP]
        r = cx.run_impl(HARNESS, lines, component=COMP)
        bs = [r.get("e%d" % c, ["err"]) for c in ctxs]
        v = r.get("v", ["err"])
        if any(b[:2] != ["ok", "bool"] for b in bs) or v[0] != "ok" or v[1:] == ["invalid", "other"]:
            cx.dist["mustwhen:skipped:%s" % " ".join(v[:3])] += 1
            continue
        want = ["ok", "valid"] if all(b[2] == "1" for b in bs) else ["ok", "invalid", "when" if where == "s" else "must"]
        cx.count(("mustwhen", where, txt, xml), True, "mustwhen:%s:%s" % (where, " ".join(v[1:])))
        if v != want:
            cx.fail(COMP, "must/when decision of lyd_validate_all differs from the boolean value of the same expression",
                    {"where": where, "expr": txt, "xml": xml, "evalb": bs, "validate": v})


def keys_tok(l):
    return ",".join(str(x) for x in l) if l else "-"


def set_ops(cx):
    """(K) wb_xpath: set_sort / set_sorted_merge on synthetic sets against LyModel.XPath.Set; (L) on the implementation's own replies:
    the sort returns a sorted permutation, the merge returns the sorted duplicate-free union and stays inside the allocation."""
    rng = cx.sub_rng("setops")
    cases = []
    # exhaustive: every sequence over {0..3} up to length 4 and every permutation of up to 6 distinct keys
    for n in range(0, 5):
        for t in itertools.product(range(4), repeat=n):
            cases.append("sortk " + keys_tok(t))
    for n in range(2, cx.n(6, 8)):
        for t in itertools.permutations(range(n)):
            cases.append("sortk " + keys_tok(t))
    for _ in range(cx.n(1500, 20000)):
        n = rng.choice([2, 3, 4, 5, 8, 13, 21, 40])
        l = rng.sample(range(3 * n), n)
        if rng.random() < 0.3: l.sort()
        if rng.random() < 0.2: l.sort(reverse=True)
        if rng.random() < 0.15 and n > 2: l[rng.randrange(n)] = l[rng.randrange(n)]
        cases.append("sortk " + keys_tok(l))
    for _ in range(cx.n(800, 8000)):
        n = rng.randrange(0, 9)
        items = ["%d:%d:%s" % (rng.randrange(1, 5), rng.randrange(0, 4), rng.choice("eet")) for _ in range(n)]
        cases.append("sort " + (",".join(items) if items else "-"))
    # merge: all pairs of subsets of {0..5} exhaustively, random larger ones
    m = cx.n(6, 7)
    subsets = [[k for k in range(m) if b >> k & 1] for b in range(1 << m)]
    for a in subsets:
        for b in subsets:
            cases.append("mergek %s %s" % (keys_tok(a), keys_tok(b)))
    for _ in range(cx.n(3000, 40000)):
        u = rng.choice([8, 12, 20, 40, 80])
        a = sorted(rng.sample(range(u), rng.randrange(0, u // 2 + 1)))
        if rng.random() < 0.5:
            b = sorted(rng.sample(range(u), rng.randrange(0, u // 2 + 1)))
        else:       # heavy overlap, runs of duplicates after insertions
            b = sorted(set(rng.sample(a, rng.randrange(0, len(a) + 1)) + rng.sample(range(u), rng.randrange(0, 4))))
        cases.append("mergek %s %s" % (keys_tok(a), keys_tok(b)))
    cases = list(dict.fromkeys(cases))
    lines = ["%d %s %s" % (i, COMP, c) for i, c in enumerate(cases)]

    def kind(l, a):
        return "set:%s:%s" % (l.split()[2], a[0] if a[0] == "ok" else " ".join(a[:2]))
    ri, rm = cx.differential(COMP, lines, "wb_xpath", kind=kind)
    cx.exhaustive = True
    for l in lines:
        t = l.split()
        a = ri.get(t[0])
        if not a or a[0] != "ok": continue
        if t[2] == "sortk":
            inp = [int(x) for x in t[3].split(",")] if t[3] != "-" else []
            out = [int(x) for x in a[2].split(",")] if a[2] != "-" else []
            if sorted(inp) != out:
                cx.fail(COMP, "set_sort does not return the sorted permutation of its input", {"input": inp, "output": out})
        elif t[2] == "mergek":
            x = [int(v) for v in t[3].split(",")] if t[3] != "-" else []
            y = [int(v) for v in t[4].split(",")] if t[4] != "-" else []
            out = [int(v) for v in a[1].split(",")] if a[1] != "-" else []
            if out != sorted(set(x) | set(y)) or a[2] != "1":
                cx.fail(COMP, "set_sorted_merge does not return the sorted duplicate-free union within its allocation", {"trg": x, "src": y, "output": out, "in_bounds": a[2]})


def cursor_of(nodes, c):
    """schema cursor (list of schema nodes) of data node #c from the dump, or [] for the root"""
    if c == 0: return []
    # walk up using depths
    path = []
    d = int(nodes[c - 1][0])
    i = c - 1
    want = d
    while i >= 0 and want >= 0:
        if int(nodes[i][0]) == want:
            path.append((nodes[i][1], nodes[i][2])); want -= 1
        i -= 1
    path.reverse()
    cur, kids = [], X.SCHEMA1
    for (mod, name) in path:
        n = next((k for k in kids if k["mod"] == mod and k["name"] == name), None)
        if n is None: return None
        cur.append(n); kids = n["kids"]
    return cur
