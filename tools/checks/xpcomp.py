"""Shared pieces of component `xpath` (C08): fixed schemas, random data trees, XPath ASTs for fragment X1 with a text
renderer (what libyang gets) and a prefix-form renderer (what the Lean engine gets), type-directed expression generators."""
from vlib.proto import hexs

# ----------------------------------------------------------------------------------------------------------------------
# schemas.  Python structure and YANG text are written side by side; prefix == module name so that the same expression
# text means the same in LY_VALUE_JSON (lyd_eval_xpath*) and in a must/when statement.
# node = (kind, module, name, extra)   kind: c container | l list | L leaf-list | f leaf
STR, INT, BOOL, ENUM, BITS, IDREF, LREF = "string", "int32", "boolean", "enum", "bits", "idref", "leafref"
ENUM2, DEC, U8, IDREF2, LREFI = "enum2", "dec64", "uint8", "idref2", "leafref-int"
IID, IIDR, UN, UB, LBITS = "instid", "instid-req", "union-i8-enum-str", "union-bits-dec", "leafref-bits"


def N(kind, mod, name, typ=None, keys=(), kids=(), userord=False, dflt=None, presence=False, always=False):
    return {"kind": kind, "mod": mod, "name": name, "type": typ, "keys": list(keys), "kids": list(kids), "userord": userord, "dflt": dflt,
            "presence": presence, "always": always}


YANG_A = """module xpa {
  yang-version 1.1; namespace "urn:xpa"; prefix xpa;
  identity base-id; identity id-a { base base-id; } identity id-b { base id-a; } identity id-c { base base-id; }
  identity other; identity id-m { base id-c; base other; }
  container c {
    leaf s { type string; }
    leaf n { type int32; }
    leaf b { type boolean; }
    leaf e { type enumeration { enum one {value 1;} enum two {value 2;} enum ten {value 10;} } }
    leaf bits { type bits { bit x; bit y; bit z; } }
    leaf idr { type identityref { base base-id; } }
    leaf e2 { type enumeration { enum neg {value -5;} enum auto; enum big {value 70000;} enum next; } }
    leaf dec { type decimal64 { fraction-digits 2; } }
    leaf u8 { type uint8; }
    leaf-list idl { type identityref { base base-id; base other; } }
    leaf aref { type leafref { path "/xpa:c/xpa:ll"; require-instance false; } }
    leaf d { type string; default "dflt"; }
    leaf-list ll { type int32; }
    leaf-list ls { type string; ordered-by user; }
    list l1 { key k; leaf k { type string; } leaf v { type int32; } leaf-list w { type string; }
       container in { leaf x { type string; } leaf y {type int32;} leaf t {type string;} } }
    list l2 { key "k1 k2"; leaf k1 { type string; } leaf k2 { type int32; } leaf v { type string; }
       list l3 {key k; leaf k {type string;} leaf v {type string;} leaf t {type string;}} }
    leaf ref { type leafref { path "../l1/k"; require-instance false; } }
    leaf iid { type instance-identifier { require-instance false; } }
    leaf iidr { type instance-identifier; }
    leaf un { type union { type int8; type enumeration { enum one; enum two; } type string; } }
    leaf ub { type union { type bits { bit x; bit y; bit z; } type decimal64 { fraction-digits 2; } } }
    leaf lbits { type leafref { path "../bits"; require-instance false; } }
    leaf-list bl { type bits { bit x; bit y; bit z; } }
    choice ch { case a { leaf ca { type string; } } case b { container cb { leaf x { type string; } } } }
  }
  container small { leaf a {type string;} leaf-list sl {type string;} leaf t {type string;} }
  list top { key id; leaf id {type int32;} leaf v {type string;} leaf t {type string;} container p { presence "p"; leaf q {type int32;} leaf t {type string;} } }
}
"""
YANG_B = """module xpb { yang-version 1.1; namespace "urn:xpb"; prefix xpb; import xpa {prefix xpa;}
  identity idx { base xpa:id-b; } identity other { base xpa:other; }
  augment /xpa:c { leaf v {type string;} leaf s {type string;}  container ext { leaf x {type string;} leaf-list z {type int32;} leaf t {type string;} } }
  augment /xpa:c/xpa:l1 { leaf v {type string;} }
}
"""
A, B = "xpa", "xpb"
SCHEMA1 = [
    N("c", A, "c", kids=[
        N("f", A, "s", STR), N("f", A, "n", INT), N("f", A, "b", BOOL), N("f", A, "e", ENUM), N("f", A, "bits", BITS), N("f", A, "idr", IDREF),
        N("f", A, "e2", ENUM2), N("f", A, "dec", DEC), N("f", A, "u8", U8), N("L", A, "idl", IDREF2), N("f", A, "aref", LREFI),
        N("f", A, "d", STR, dflt="dflt"), N("L", A, "ll", INT), N("L", A, "ls", STR, userord=True),
        N("l", A, "l1", keys=["k"], kids=[N("f", A, "k", STR), N("f", A, "v", INT), N("L", A, "w", STR),
                                          N("c", A, "in", kids=[N("f", A, "x", STR, always=True), N("f", A, "y", INT), N("f", A, "t", STR, always=True)]), N("f", B, "v", STR)]),
        N("l", A, "l2", keys=["k1", "k2"], kids=[N("f", A, "k1", STR), N("f", A, "k2", INT), N("f", A, "v", STR),
                                                N("l", A, "l3", keys=["k"], kids=[N("f", A, "k", STR), N("f", A, "v", STR), N("f", A, "t", STR, always=True)])]),
        N("f", A, "ref", LREF), N("f", A, "iid", IID), N("f", A, "iidr", IIDR), N("f", A, "un", UN), N("f", A, "ub", UB), N("f", A, "lbits", LBITS), N("L", A, "bl", BITS),
        N("f", A, "ca", STR),
        N("f", B, "v", STR), N("f", B, "s", STR), N("c", B, "ext", kids=[N("f", B, "x", STR, always=True), N("L", B, "z", INT), N("f", B, "t", STR, always=True)]),
    ]),
    N("c", A, "small", kids=[N("f", A, "a", STR, always=True), N("L", A, "sl", STR), N("f", A, "t", STR, always=True)]),
    N("l", A, "top", keys=["id"], kids=[N("f", A, "id", INT), N("f", A, "v", STR), N("f", A, "t", STR, always=True), N("c", A, "p", presence=True, kids=[N("f", A, "q", INT, always=True), N("f", A, "t", STR, always=True)])]),
]
NS = {A: "urn:xpa", B: "urn:xpb"}
CONFLICT = {"s", "v"}

# Every inner node of a generated tree has at least two terminal descendants (the `always` leaves): libyang renders the string-value of an
# inner node as an indented block (F255) and canonises a string operand by the type of the node it is compared with (deliberate) — a block
# with a single numeric line would be a valid int32 lexical form with surrounding white space.
# value pools.  STR_POOL holds no valid non-canonical lexical form of a typed leaf; NONCANON_POOL below does (set_comp_canonize is modelled).
STR_POOL = ["a", "b", "c", "ab", "abc", "x y", "5", "10", "-7", "1.5", "true", "dflt", "a b  c", " lead", "trail ", "1e3", "it's", 'say "hi"', "p\tq", "p\nq", "\tr\n", "s \t\n t",
            "a'b\"c", "x", "y", "z", "0", "", "<&>", "A", "bx", "NaN", "Infinity", "ü€x", "añb", "05", "+5", "z x", "1.50", "id-a"]
KEY_POOL = ["a", "b", "c", "ab", "x y", "5", "10", "it's", 'q"q', "a'b\"c", "x", "y", "z", "k 1", "A"]
INT_POOL = [0, 1, 2, 3, 5, 10, -7, 100, 4, 7]
ENUM_POOL = ["one", "two", "ten"]
BITS_POOL = ["x", "x z", "y", "x y z", "z"]
IDREF_POOL = ["id-a", "id-b", "id-c", "id-m", "xpb:idx"]
ENUM2_POOL = ["neg", "auto", "big", "next"]
DEC_POOL = ["1.5", "0.0", "-2.25", "10.0", "3.0", "0.07"]
U8_POOL = [0, 5, 7, 10, 255]
UN_POOL = ["5", "-7", "100", "one", "two", "abc", "x y", "300", "1.5", " 5"]      # int8 | enumeration | string
UB_POOL = ["x z", "y", "x y z", "1.5", "-2.25", "3.0", "10.0"]                       # bits | decimal64
IDREF2_POOL = ["id-m"]      # derived from ALL bases of the type (F410: libyang accepts an identity derived from SOME base)
# valid but NON-canonical lexical forms of the typed leaves (and near misses): libyang canonises a string operand by the type of the node it is
# compared with (set_comp_canonize, F355); the engine does the same through the value models of property C03
NONCANON_POOL = ["05", "+5", " 5", "5 ", "\t10\n", "-07", "+0", "-0", "007", "0x5", "5.0", "1e1", "2147483648", "256", "+255", "0255",
                 "z x", "x  z", " y", "z y x", "x x", "x w", "y\tx", "id-a", "xpa:id-a", "xpb:id-a", "idx", "xpb:idx", ":id-a", "id-m", "nosuch:id-a",
                 "1.50", "+1.5", "01.5", "1.500", "1.505", ".5", "3", "3.", "-2.250", " 10.00 ", "-0.0", "+.07", "0.070", "one", " one", "two ", "-007", "+100", "0300"]


# ----------------------------------------------------------------------------------------------------------------------
# schema facts for the Lean engine, derived from the YANG TEXT above by a small statement parser (independent of libyang):
# header lines of the dump, see lean/LyModel/XPath/Yang.lean
def yang_parse(text):
    """-> (keyword, argument or None, [substatements])"""
    import re
    toks = re.findall(r'"(?:[^"\\]|\\.)*"|\'[^\']*\'|[{};]|[^\s{};"\']+', text)
    pos = [0]

    def arg_of(t):
        if t[0] == '"': return re.sub(r'\\(.)', lambda m: {"n": "\n", "t": "\t"}.get(m.group(1), m.group(1)), t[1:-1])
        if t[0] == "'": return t[1:-1]
        return t

    def stmt():
        kw = toks[pos[0]]; pos[0] += 1
        arg = None
        if toks[pos[0]] not in ("{", ";"):
            arg = arg_of(toks[pos[0]]); pos[0] += 1
        subs = []
        if toks[pos[0]] == "{":
            pos[0] += 1
            while toks[pos[0]] != "}":
                subs.append(stmt())
        pos[0] += 1
        return (kw, arg, subs)
    return stmt()


def yang_facts(texts):
    mods = {}
    for t in texts:
        m = yang_parse(t)
        mods[m[1]] = m
    pmaps = {}
    for name, m in mods.items():
        pm = {}
        for (kw, arg, subs) in m[2]:
            if kw == "prefix": pm[arg] = name
            if kw == "import": pm[[a for (k, a, _) in subs if k == "prefix"][0]] = arg
        pmaps[name] = pm

    def qname(mod, x):
        if ":" in x:
            p, n = x.split(":", 1)
            return pmaps[mod][p] + ":" + n
        return mod + ":" + x
    out = ["#mods " + " ".join(mods)]
    # identities, bases first
    ids = {}
    for name, m in mods.items():
        for (kw, arg, subs) in m[2]:
            if kw == "identity": ids[name + ":" + arg] = [qname(name, a) for (k, a, _) in subs if k == "base"]
    done = []
    while len(done) < len(ids):
        for i, bs in ids.items():
            if i not in done and all(b in done for b in bs): done.append(i)
    out += ["#ident " + " ".join([i] + ids[i]) for i in done]
    # data nodes
    leaves = {}     # schema path -> (module, type statement)

    def walk(mod, stmts, path):
        for (kw, arg, subs) in stmts:
            if kw in ("container", "list"): walk(mod, subs, path + "/" + mod + ":" + arg)
            elif kw in ("choice", "case"): walk(mod, subs, path)
            elif kw in ("leaf", "leaf-list"): leaves[path + "/" + mod + ":" + arg] = (mod, [s for s in subs if s[0] == "type"][0])
    for name, m in mods.items():
        walk(name, m[2], "")
        for (kw, arg, subs) in m[2]:
            if kw == "augment": walk(name, subs, "/" + "/".join(qname(name, x) for x in arg.strip("/").split("/")))

    def lref_path(mod, leafpath, txt):
        """path text with module-name prefixes; schema path of the target"""
        segs = txt.split("/")
        absolute = txt.startswith("/")
        cur = [] if absolute else leafpath.strip("/").split("/")
        outsegs = []
        for sg in segs[1:] if absolute else segs:
            if sg == "..":
                cur = cur[:-1]; outsegs.append("..")
            else:
                q = qname(mod, sg); cur.append(q); outsegs.append(q)
        return ("/" if absolute else "") + "/".join(outsegs), "/" + "/".join(cur)

    def type_desc(path, mod, ty, depth=0):
        (_, tname, subs) = ty
        ints = {"int8": "i8", "int16": "i16", "int32": "i32", "int64": "i64", "uint8": "u8", "uint16": "u16", "uint32": "u32", "uint64": "u64"}
        if tname in ints: return ints[tname]
        if tname == "decimal64": return "d" + [a for (k, a, _) in subs if k == "fraction-digits"][0]
        if tname == "identityref": return "idref:" + ",".join(qname(mod, a) for (k, a, _) in subs if k == "base")
        if tname == "bits":
            items, hi = [], -1
            for (k, a, ss) in subs:
                if k != "bit": continue
                pos = [int(x) for (kk, x, _) in ss if kk == "position"]
                v = pos[0] if pos else hi + 1
                hi = max(hi, v); items.append((v, a))
            return "bits:" + ",".join("%s=%d" % (a.encode().hex(), v) for (v, a) in sorted(items))
        if tname == "leafref" and depth < 8:
            txt = [a for (k, a, _) in subs if k == "path"][0]
            if "[" in txt: return None
            _, target = lref_path(mod, path, txt)
            tm, tt = leaves[target]
            return type_desc(target, tm, tt, depth + 1)
        if tname == "union" and depth < 8:
            # members in the order of the type statements (lyplg_type_store_union tries them in that order); `str` / `enum:` members have no
            # canonical form but still END the search
            ms = []
            for sub_ty in [s for s in subs if s[0] == "type"]:
                if sub_ty[1] == "string": ms.append("str")
                elif sub_ty[1] == "enumeration": ms.append("enum:" + ",".join(a.encode().hex() for (k, a, _) in sub_ty[2] if k == "enum"))
                else:
                    d = type_desc(path, mod, sub_ty, depth + 1)
                    if d is None or d.startswith("union:"): return None
                    ms.append(d)
            return "union:" + "|".join(ms)
        return None       # string, boolean, enumeration: no canonisation; anything else: not modelled
    for path, (mod, ty) in leaves.items():
        (_, tname, subs) = ty
        if tname == "enumeration":
            items, hi = [], None
            for (k, a, ss) in subs:
                if k != "enum": continue
                val = [int(x) for (kk, x, _) in ss if kk == "value"]
                v = val[0] if val else (0 if hi is None else hi + 1)
                hi = v if hi is None else max(hi, v); items.append("%s=%d" % (a, v))
            out.append("#enum %s %s" % (path, " ".join(items)))
        if tname == "leafref":
            txt = [a for (k, a, _) in subs if k == "path"][0]
            if "[" not in txt:
                out.append("#leafref %s %s" % (path, lref_path(mod, path, txt)[0].encode().hex()))
        if tname == "instance-identifier":
            out.append("#inst %s" % path)
        d = type_desc(path, mod, ty)
        if d: out.append("#type %s %s" % (path, d))
    return "\n".join(out) + "\n"


FACTS = yang_facts([YANG_A, YANG_B])


def with_facts(dump_hex):
    """the dump as the engine gets it: the schema facts in front of libyang's XML view"""
    from vlib.proto import unhex
    body = unhex(dump_hex) if dump_hex != "-" else b""
    return hexs(FACTS.encode() + body)


def xml_esc(s):
    return s.replace("&", "&amp;").replace("<", "&lt;").replace(">", "&gt;")


def gen_value(rng, typ, key=False):
    if typ == STR or typ == LREF:
        return rng.choice(KEY_POOL if key else STR_POOL)
    if typ == INT: return str(rng.choice(INT_POOL))
    if typ == BOOL: return rng.choice(["true", "false"])
    if typ == ENUM: return rng.choice(ENUM_POOL)
    if typ == BITS: return rng.choice(BITS_POOL)
    if typ == IDREF: return rng.choice(IDREF_POOL)
    if typ == ENUM2: return rng.choice(ENUM2_POOL)
    if typ == DEC: return rng.choice(DEC_POOL)
    if typ == U8: return str(rng.choice(U8_POOL))
    if typ == IDREF2: return rng.choice(IDREF2_POOL)
    if typ == LREFI: return str(rng.choice(INT_POOL))
    if typ == UN: return rng.choice(UN_POOL)
    if typ == UB: return rng.choice(UB_POOL)
    if typ == LBITS: return rng.choice(BITS_POOL)
    if typ in (IID, IIDR): return rng.choice(IID_STATIC)[1]
    raise ValueError(typ)


def iid_quote(v):
    """predicate value of an instance-identifier: '…' unless the value has a single quote; None = not writable"""
    if "'" not in v: return "'" + v + "'"
    if '"' not in v: return '"' + v + '"'
    return None


# instance-identifier values that may or may not denote a node of the generated tree (XML form, JSON canonical form)
IID_STATIC = [("/xpa:c/xpa:l1[xpa:k='nosuch']", "/xpa:c/l1[k='nosuch']"), ("/xpa:c/xpa:l1[xpa:k='nosuch']/xpa:v", "/xpa:c/l1[k='nosuch']/v"),
              ("/xpa:c/xpa:l1[xpa:k='a']/xpa:in/xpa:y", "/xpa:c/l1[k='a']/in/y"), ("/xpa:c/xpa:l1[xpa:k='a']/xpb:v", "/xpa:c/l1[k='a']/xpb:v"),
              ("/xpa:small/xpa:sl[.='nosuch']", "/xpa:small/sl[.='nosuch']"), ("/xpa:small/xpa:sl[.='x']", "/xpa:small/sl[.='x']"),
              ("/xpa:top[xpa:id='77']/xpa:v", "/xpa:top[id='77']/v"), ("/xpa:top[xpa:id='05']", "/xpa:top[id='5']"), ("/xpa:top[xpa:id='+1']/xpa:p/xpa:q", "/xpa:top[id='1']/p/q"),
              ("/xpa:c/xpb:ext/xpb:z[.='99']", "/xpa:c/xpb:ext/z[.='99']"), ("/xpa:c/xpb:ext/xpb:z[.='5']", "/xpa:c/xpb:ext/z[.='5']"),
              ("/xpa:c/xpa:l2[xpa:k1='a'][xpa:k2='05']/xpa:v", "/xpa:c/l2[k1='a'][k2='5']/v"), ("/xpa:c/xpa:l2[xpa:k1='a'][xpa:k2='1']/xpa:l3[xpa:k='x']", "/xpa:c/l2[k1='a'][k2='1']/l3[k='x']"),
              ("/xpa:c/xpa:ca", "/xpa:c/ca"), ("/xpa:c/xpa:d", "/xpa:c/d"), ("/xpa:c/xpa:ll[.='3']", "/xpa:c/ll[.='3']"), ("/xpa:c/xpa:ll[.='+3']", "/xpa:c/ll[.='3']"),
              ("/xpa:c/xpa:ls[.='x y']", "/xpa:c/ls[.='x y']"), ("/xpa:c", "/xpa:c"), ("/xpa:small", "/xpa:small"), ("/xpa:c/xpa:iid", "/xpa:c/iid")]


def gen_tree(rng, schema, density=0.7, maxinst=5):
    """Random instance as XML text; also returns the list of (path-of-names, value) it wrote (for value-aware predicates).
    instance-identifier leaves are filled in at the end: paths (with key / value predicates) to nodes of the tree that was generated, and, for the
    `require-instance false` leaf, also paths that denote nothing."""
    vals = []
    ipaths = []        # (XML form, JSON canonical form) of every node written
    holes = []         # (placeholder, type, path-of-names)

    def ext(ip, n, pmod, pred_x="", pred_j=""):
        return (ip[0] + "/" + n["mod"] + ":" + n["name"] + pred_x, ip[1] + "/" + (n["mod"] + ":" if n["mod"] != pmod else "") + n["name"] + pred_j)

    def inst(n, parent_mod, path, ip):
        ns = ' xmlns="%s"' % NS[n["mod"]] if n["mod"] != parent_mod else ""
        tag = n["name"]
        p = path + [(n["mod"], n["name"])]
        if n["kind"] == "f":
            if rng.random() > density and not n["always"]: return ""
            if n["type"] in (IID, IIDR):
                ph = "\x00%d\x00" % len(holes)
                holes.append((ph, n["type"], p))
                ipaths.append(ext(ip, n, parent_mod))
                return '<%s%s xmlns:xpa="urn:xpa" xmlns:xpb="urn:xpb">%s</%s>' % (tag, ns, ph, tag)
            v = gen_value(rng, n["type"])
            vals.append((p, v))
            ipaths.append(ext(ip, n, parent_mod))
            return "<%s%s>%s</%s>" % (tag, ns, xml_esc(v), tag)
        if n["kind"] == "L":
            k = rng.choice([0, 1, 2, 3, maxinst]) if rng.random() < 0.8 else 0
            seen, out = set(), ""
            for _ in range(k):
                v = gen_value(rng, n["type"], key=True)
                if v in seen: continue
                seen.add(v)
                vals.append((p, v))
                q = iid_quote(v)
                if q is not None: ipaths.append(ext(ip, n, parent_mod, "[.=%s]" % q, "[.=%s]" % q))
                out += "<%s%s>%s</%s>" % (tag, ns, xml_esc(v), tag)
            return out
        if n["kind"] == "c":
            if rng.random() > density + 0.15 and n["presence"]: return ""
            me = ext(ip, n, parent_mod)
            body = "".join(inst(k, n["mod"], p, me) for k in n["kids"])
            if not body and not n["presence"] and rng.random() < 0.5: return ""
            ipaths.append(me)
            return "<%s%s>%s</%s>" % (tag, ns, body, tag)
        if n["kind"] == "l":
            k = rng.choice([0, 1, 2, 3, 4, maxinst])
            # the last top-level node must have a child, or every reverse-order node-set crashes get_node_pos() (F259, which has its own witness)
            if not path and k == 0: k = 1
            seen, out = set(), ""
            for _ in range(k):
                keykids = [kid for kid in n["kids"] if kid["name"] in n["keys"] and kid["mod"] == n["mod"]]
                kv = tuple(gen_value(rng, kid["type"], key=True) for kid in keykids)
                if kv in seen: continue
                seen.add(kv)
                qs = [iid_quote(v) for v in kv]
                if any(q is None for q in qs): me = None
                else: me = ext(ip, n, parent_mod, "".join("[%s:%s=%s]" % (n["mod"], kid["name"], q) for kid, q in zip(keykids, qs)),
                               "".join("[%s=%s]" % (kid["name"], q) for kid, q in zip(keykids, qs)))
                if me is not None: ipaths.append(me)
                sub = me if me is not None else ("", "")
                body, ki = "", 0
                for kid in n["kids"]:
                    if kid["name"] in n["keys"] and kid["mod"] == n["mod"]:
                        vals.append((p + [(kid["mod"], kid["name"])], kv[ki]))
                        if me is not None: ipaths.append(ext(sub, kid, n["mod"]))
                        body += "<%s>%s</%s>" % (kid["name"], xml_esc(kv[ki]), kid["name"]); ki += 1
                    else:
                        n0 = len(ipaths)
                        body += inst(kid, n["mod"], p, sub)
                        if me is None: del ipaths[n0:]
                out += "<%s%s>%s</%s>" % (tag, ns, body, tag)
            return out
        raise ValueError(n["kind"])

    xml = "".join(inst(n, None, [], ("", "")) for n in schema)
    for (ph, typ, p) in holes:
        x = rng.random()
        if typ == IIDR or x < 0.6: xv, jv = rng.choice(ipaths)
        elif x < 0.9: xv, jv = rng.choice(IID_STATIC)
        else:
            # an existing path with the value of its last predicate changed (77 is a valid string and a valid int32)
            xv, jv = rng.choice(ipaths)
            if xv.endswith("']") and "xpa:bl[" not in xv:
                xv, jv = xv[:xv.rindex("='") + 2] + "77']", jv[:jv.rindex("='") + 2] + "77']"
            else:
                xv, jv = "/xpa:c/xpa:l1[xpa:k='zz']/xpa:w[.='zz']", "/xpa:c/l1[k='zz']/w[.='zz']"
        vals.append((p, jv))
        xml = xml.replace(ph, xml_esc(xv))
    return xml, vals


# ----------------------------------------------------------------------------------------------------------------------
# AST.  ('lit', s) ('num', mant, scale) ('fn', name, [args]) ('bin', op, a, b) ('neg', a) ('path', start, [steps]) ('filter', e, [preds])
# start = 'R' | 'C' | ('E', expr);  step = (axis, test, [preds], dslash);  test = ('n', pfx|None, name) | ('a',) | ('m', pfx) | ('o',) | ('t',) | ('c',)
AXES = ["child", "descendant", "parent", "ancestor", "following-sibling", "preceding-sibling", "following", "preceding", "attribute", "self",
        "descendant-or-self", "ancestor-or-self"]
# the attribute axis is kept out of the generated streams: the data carries no annotations, and libyang's own bookkeeping metadata is visible there (F262)
AXES_GEN = [a for a in AXES if a != "attribute"]
PREC = {"or": 1, "and": 2, "eq": 3, "ne": 3, "lt": 4, "le": 4, "gt": 4, "ge": 4, "add": 5, "sub": 5, "mul": 6, "div": 6, "mod": 6, "union": 8}
OPTXT = {"or": "or", "and": "and", "eq": "=", "ne": "!=", "lt": "<", "le": "<=", "gt": ">", "ge": ">=", "add": "+", "sub": "-", "mul": "*", "div": "div",
         "mod": "mod", "union": "|"}


def render_num(m, sc):
    if sc == 0: return str(m)
    s = str(m).rjust(sc + 1, "0")
    return s[:-sc] + "." + s[-sc:]


def render_lit(s):
    if "'" not in s: return "'" + s + "'"
    if '"' not in s: return '"' + s + '"'
    raise ValueError("literal with both quotes")


def render_test(t):
    if t[0] == "n": return (t[1] + ":" if t[1] else "") + t[2]
    if t[0] == "a": return "*"
    if t[0] == "m": return t[1] + ":*"
    if t[0] == "o": return "node()"
    if t[0] == "c": return "comment()"
    return "text()"


def render_step(st, rng, abbrev):
    axis, test, preds, _ = st
    if abbrev and not preds and test == ("o",) and axis == "self":
        return "."
    if abbrev and not preds and test == ("o",) and axis == "parent":
        return ".."
    if abbrev and axis == "child":
        s = render_test(test)
    else:
        s = axis + "::" + render_test(test)
    return s + "".join("[" + render(p, rng, 0) + "]" for p in preds)


def render(e, rng=None, ctxprec=0):
    """XPath text.  With rng: random choice between abbreviated / unabbreviated syntax and minimal / full parentheses."""
    k = e[0]
    ab = (rng.random() < 0.7) if rng else True
    if k == "lit": return render_lit(e[1])
    if k == "num": return render_num(e[1], e[2])
    if k == "fn" and e[1] == "$": return "$" + e[2][0][1]          # variable reference: ('fn', '$', [('lit', name)]), prefix form `F $ 1 L <hex name>`
    if k == "fn": return e[1] + "(" + ", ".join(render(a, rng, 0) for a in e[2]) + ")"
    if k == "neg":
        a = render(e[1], rng, 0)
        if e[1][0] == "neg" and rng and rng.random() < 0.6:
            return rng.choice(["-", "- "]) + a          # UnaryExpr ::= '-' UnaryExpr: no parentheses needed
        return "-" + ("(" + a + ")" if e[1][0] in ("bin", "neg") or a == "/" else a)
    if k == "bin":
        p = PREC[e[1]]
        full = rng is not None and rng.random() < 0.3
        la = needs_par(e[2], p, False) or (full and e[2][0] in ("bin", "neg"))
        lb = needs_par(e[3], p, True) or (full and e[3][0] in ("bin", "neg"))
        a = render(e[2], rng, 0)
        b = render(e[3], rng, 0)
        # a bare `/` followed by an operator name or `*` would lex as a name test (REC §3.7): parenthesise it
        la = la or a == "/"
        lb = lb or b == "/"
        return ("(" + a + ")" if la else a) + " " + OPTXT[e[1]] + " " + ("(" + b + ")" if lb else b)
    if k == "filter":
        return "(" + render(e[1], rng, 0) + ")" + "".join("[" + render(p, rng, 0) + "]" for p in e[2])
    if k == "path":
        start, steps = e[1], e[2]
        if start == "R":
            if not steps: return "/"
            out = ""
        elif start == "C":
            if not steps: return "."
            out = None
        else:
            inner = start[1]
            out = render(inner, rng, 0)
            if inner[0] != "fn":
                out = "(" + out + ")"
        for i, st in enumerate(steps):
            sep = "//" if st[3] else "/"
            s = render_step(st, rng, ab)
            if out is None:
                # first step of a relative path: `//` cannot start it
                out = ("descendant-or-self::node()/" + s) if st[3] else s
            else:
                out += sep + s
        return out
    raise ValueError(k)


def needs_par(e, p, right):
    if e[0] == "neg":
        return p >= 7
    if e[0] != "bin":
        return False
    q = PREC[e[1]]
    return q < p or (right and q == p)


def prefix_test(t):
    if t[0] == "n": return "n %s %s" % (t[1] or "_", t[2])
    if t[0] == "m": return "m " + t[1]
    return t[0]


def prefix(e):
    """Prefix form for the model (see LyModel/XPath/Drv.lean)."""
    k = e[0]
    if k == "lit": return "L " + hexs(e[1])
    if k == "num": return "N %d %d" % (e[1], e[2])
    if k == "fn": return " ".join(["F", e[1], str(len(e[2]))] + [prefix(a) for a in e[2]])
    if k == "neg": return "M " + prefix(e[1])
    if k == "bin": return "B %s %s %s" % (e[1], prefix(e[2]), prefix(e[3]))
    if k == "filter": return " ".join(["X", prefix(e[1]), str(len(e[2]))] + [prefix(p) for p in e[2]])
    if k == "path":
        start, steps = e[1], e[2]
        st = "R" if start == "R" else "C" if start == "C" else "E " + prefix(start[1])
        out = []
        if start == "C" and not steps:
            out.append("S self o 0")        # `.` is the step self::node()
        for (axis, test, preds, ds) in steps:
            if ds:
                out.append("S descendant-or-self o 0")
            out.append(" ".join(["S", axis, prefix_test(test), str(len(preds))] + [prefix(p) for p in preds]))
        return " ".join(["P", st, str(len(out))] + out)
    raise ValueError(k)


def size(e):
    if e[0] in ("lit", "num"): return 1
    if e[0] == "fn": return 1 + sum(size(a) for a in e[2])
    if e[0] == "neg": return 1 + size(e[1])
    if e[0] == "bin": return 1 + size(e[2]) + size(e[3])
    if e[0] == "filter": return 1 + size(e[1]) + sum(size(p) for p in e[2])
    if e[0] == "path":
        return 1 + (size(e[1][1]) if isinstance(e[1], tuple) else 0) + sum(1 + sum(size(p) for p in st[2]) for st in e[2])
    return 1


# ----------------------------------------------------------------------------------------------------------------------
# type-directed generation
# XSD patterns for re-match(): inside what both libyang's XSD->PCRE2 rewrite and the XsdRe model implement without a recorded deviation;
# the last ones do not compile (LY_EVALID)
RE_POOL = ["[a-z]+", "a.*", "\\d+", "-?\\d+", "(a|b)c?", "x y", ".*", "", "[0-9]{1,2}", ".{2,}", "[^a]*", "\\s*\\S+\\s*", "(xpa|xpb):id-[a-m]", "x( [yz])*",
           "[+-]?[0-9]+(\\.[0-9]+)?", "ü.*", "one|two|ten", "a**", "[a-", "(a"]
NUM_LITS = [(0, 0), (1, 0), (2, 0), (3, 0), (5, 0), (10, 0), (5, 1), (25, 2), (15, 1), (275, 2), (100, 0), (4, 0), (7, 0)]
INT_LITS = [(0, 0), (1, 0), (2, 0), (3, 0), (4, 0), (5, 0)]


class Gen:
    """Expression generator over one schema.  Paths follow the schema most of the time so that results are non-empty."""

    def __init__(self, rng, schema, vals=None, always_prefix=False):
        self.rng, self.schema = rng, schema
        self.always_prefix = always_prefix
        self.vals = vals or []
        self.names = []
        self._collect(schema)
        self.nonroot = False      # the context node of the expression is a data node (an unprefixed identity name then has a module, F353)
        self.leaves = []          # (type, [(mod, name)…]) of every terminal
        self._leaves(schema, [])

    def _leaves(self, nodes, path):
        for n in nodes:
            p = path + [(n["mod"], n["name"])]
            if n["kind"] in ("f", "L"): self.leaves.append((n["type"], p))
            self._leaves(n["kids"], p)

    def typed_path(self, types=None):
        """absolute path to the instances of a terminal of one of the given types (any typed terminal if None)"""
        r = self.rng
        c = [(t, p) for (t, p) in self.leaves if (t in types if types else t not in (STR, BOOL))]
        t, p = r.choice(c)
        return t, ("path", "R", [("child", ("n", m if (r.random() < 0.6 or n in CONFLICT or self.always_prefix) else None, n), [], False) for (m, n) in p])

    def ident_lit(self):
        r = self.rng
        x = r.random()
        if x < 0.70: v = r.choice(["xpa:base-id", "xpa:id-a", "xpa:id-b", "xpa:id-c", "xpa:other", "xpa:id-m", "xpb:idx", "xpb:other"])
        elif x < 0.88:
            v = r.choice(["base-id", "id-a", "id-b", "other", "idx", "id-m"])
            if not self.nonroot: v = "xpa:" + v       # F353: an unprefixed identity at the root context dereferences the NULL module
        else: v = r.choice(["xpa:nosuch", "zzz:id-a", "xpb:id-a", "xpa:", ":id-a", "xpa:id-a:x", "xpa:id", "xpa:id-aa"])
        return ("lit", v)

    def noncanon_of(self, typ):
        """a string that (mostly) is a valid, often non-canonical, lexical form of the type; taken from the tree's own values when possible"""
        r = self.rng
        if r.random() < 0.35: return r.choice(NONCANON_POOL)
        cands = [v for (p, v) in self.vals if p and any(t == typ and q[-1] == p[-1] for (t, q) in self.leaves)]
        v = r.choice(cands) if cands else gen_value(r, typ if typ not in (LREF,) else STR)
        if typ in (INT, U8, LREFI): return r.choice(["0" + v if not v.startswith("-") else "-0" + v[1:], "+" + v, " " + v, v + "\n", v, v + ".0", "0x" + v])
        if typ == DEC: return r.choice([v + "0", "+" + v, "0" + v if not v.startswith("-") else v, v, v.rstrip("0"), v.rstrip("0").rstrip("."), " " + v + " ", v + "1"])
        if typ == BITS: return r.choice([" ".join(reversed(v.split())), v.replace(" ", "  "), " " + v, v + " x", v, v.replace(" ", "\t")])
        if typ in (IDREF, IDREF2): return r.choice([v, v.split(":")[-1], "xpa:" + v.split(":")[-1], "xpb:" + v.split(":")[-1], ":" + v])
        if typ == UN:      # int8 | enumeration {one two} | string: the FIRST member that accepts the string canonises it
            v = v.strip()
            if v.lstrip("-").isdigit(): return r.choice(["0" + v if not v.startswith("-") else "-0" + v[1:], "+" + v, " " + v, v + "\n", v, v + ".0", "0x" + v])
            return r.choice([v, " " + v, v + " ", v.upper(), "one", "two", "05"])
        if typ == UB:      # bits {x y z} | decimal64 fd 2
            if v[:1] in "xyz": return r.choice([" ".join(reversed(v.split())), v.replace(" ", "  "), " " + v, v + " x", v, v + " w", "z y x"])
            return r.choice([v + "0", "+" + v, "0" + v if not v.startswith("-") else v, v, v.rstrip("0"), v.rstrip("0").rstrip("."), " " + v + " ", v + "1"])
        if typ == LBITS: return r.choice([" ".join(reversed(v.split())), v.replace(" ", "  "), " " + v, v + " x", v, v.replace(" ", "\t")])
        # instance-identifier: the canonical JSON form or a string that is no instance-identifier at all (the engine's canoniser of such a node is the
        # identity: non-canonical but valid paths are outside the generated strings)
        return v

    def yang_bool(self, d, cur):
        """boolean-valued function calls of RFC 7950 section 10 and comparisons that exercise set_comp_canonize"""
        r = self.rng
        x = r.random()
        if x < 0.3:
            arg = self.typed_path([IDREF, IDREF2])[1] if r.random() < 0.75 else self.named_path(d, cur)
            idl = self.ident_lit() if r.random() < 0.93 else self.expr("str", d, cur)
            own = [v for (p, v) in self.vals if p and p[-1][1] in ("idr", "idl")]
            if own and r.random() < 0.35:      # the identity a node of the tree holds: derived-from is irreflexive, -or-self is not
                v = r.choice(own)
                idl = ("lit", v if ":" in v else "xpa:" + v)
            return ("fn", r.choice(["derived-from", "derived-from-or-self"]), [arg, idl])
        if x < 0.5:
            a = self.expr("str", d, cur) if r.random() < 0.6 else self.typed_path()[1]
            return ("fn", "re-match", [a, ("lit", r.choice(RE_POOL))])
        if x < 0.9:
            t, p = self.typed_path([r.choice([INT, DEC, BITS, IDREF, IDREF2, U8, LREFI, DEC, BITS, UN, UN, UB, UB, LBITS])])
            op = r.choice(["eq", "eq", "eq", "ne", "lt", "ge"])
            lit = ("lit", self.noncanon_of(t))
            if "'" in lit[1] and '"' in lit[1]: lit = ("lit", "05")
            return ("bin", op, p, lit) if r.random() < 0.7 else ("bin", op, lit, p)
        # node-set x node-set: string-values of the first set are canonised by the types of the second
        return ("bin", r.choice(["eq", "ne"]), self.typed_path()[1] if r.random() < 0.5 else self.path(d, cur)[0], self.typed_path()[1])

    def deref(self, d, cur):
        r = self.rng
        x = r.random()
        arg = (self.typed_path([LREF, LREFI, LBITS])[1] if x < 0.4 else self.typed_path([IID, IIDR])[1] if x < 0.8 else
               self.typed_path([IID, IIDR, LREF, LREFI, UN, STR, INT])[1] if x < 0.88 else self.named_path(d, cur))
        return ("fn", "deref", [arg])

    def bit_is_set(self, d, cur):
        """type-directed bit-is-set(): bits leaves, leafref to bits, union with a bits member (realtype = the union: false), leaf-list of bits and
        unions of those (first-node rule), other terminals; bit names that exist, do not exist, several names, the empty string"""
        r = self.rng
        x = r.random()
        one = lambda: self.typed_path([r.choice([BITS, BITS, LBITS, UB, BITS])])[1]
        if x < 0.45: arg = one()
        elif x < 0.7: arg = ("bin", "union", one(), one())
        elif x < 0.8: arg = absp(st("c"), st(STAR, preds=[bop("or", bop("or", relp(st("bits", "self")), relp(st("bl", "self"))), bop("or", relp(st("lbits", "self")), relp(st("ub", "self"))))]))
        elif x < 0.9: arg = self.typed_path([r.choice([STR, INT, ENUM, UN, IID, DEC])])[1]
        else: arg = self.named_path(d, cur)
        y = r.random()
        name = ("lit", r.choice(["x", "y", "z"])) if y < 0.7 else ("lit", r.choice(["w", "", "x z", "X", " x", "xy"])) if y < 0.9 else self.expr("str", 1, cur)
        return ("fn", "bit-is-set", [arg, name])

    def _collect(self, nodes):
        for n in nodes:
            self.names.append((n["mod"], n["name"]))
            self._collect(n["kids"])

    # ---- schema cursor: None = unknown, [] = root, [n1, n2..] path of schema nodes
    def kids_of(self, cur):
        if cur is None: return None
        if not cur: return self.schema
        return cur[-1]["kids"]

    def lit_str(self):
        r = self.rng
        while True:
            s = r.choice(STR_POOL + KEY_POOL) if r.random() < 0.9 or not self.vals else r.choice(self.vals)[1]
            if not ("'" in s and '"' in s): return ("lit", s)

    def name_test(self, cur, axis):
        r = self.rng
        kids = self.kids_of(cur) if axis in ("child",) else None
        x = r.random()
        if x < 0.08: return ("a",), None
        if x < 0.11: return ("m", r.choice([A, B])), None
        if x < 0.14 and axis != "attribute": return ("o",), None
        if kids and r.random() < 0.9:
            n = r.choice(kids)
        else:
            mod, name = r.choice(self.names)
            n = {"mod": mod, "name": name, "kids": [], "kind": "?", "keys": [], "type": None}
            if r.random() < 0.03: n = dict(n, name="nosuch")
        pfx = n["mod"] if r.random() < 0.5 else None
        if r.random() < 0.03: pfx = B if n["mod"] == A else A
        # an unprefixed name means "the parent's module" on libyang's hash path and "any module" on its generic path (F258):
        # names defined by both modules under one parent always carry a prefix on the child axis
        if pfx is None and axis == "child" and n["name"] in CONFLICT: pfx = n["mod"]
        if self.always_prefix: pfx = n["mod"]
        return ("n", pfx, n["name"]), (cur + [n] if cur is not None and n["kind"] != "?" else None)

    def step(self, cur, depth, allow_ds=True, first=False, axes=None):
        r = self.rng
        x = r.random()
        if axes: axis = r.choice(axes)
        elif x < 0.62: axis = "child"
        else: axis = r.choice(AXES_GEN)
        ds = allow_ds and axis == "child" and r.random() < 0.08
        if axis == "child":
            test, ncur = self.name_test(None if ds else cur, axis)
        elif axis in ("parent",) and cur:
            test, ncur = (("o",) if r.random() < 0.7 else ("a",)), cur[:-1]
            if test == ("a",) and len(cur) == 1: ncur = None
        elif axis == "self":
            test, ncur = (("o",) if r.random() < 0.6 else self.name_test(cur, "self")[0]), cur
        else:
            test, ncur = self.name_test(None, axis)
            if ds and test in (("a",), ("o",)) or (ds and test[0] == "m"):
                pass
            ncur = None
        if axis == "child" and not ds and r.random() < 0.04: test, ncur = ("t",), None
        if ds and test[0] in ("o", "t"): ds = False
        preds = []
        if depth > 0:
            while r.random() < 0.3 and len(preds) < 3:
                preds.append(self.pred(ncur, depth - 1))
        return (axis, test, preds, ds), ncur

    def pred(self, cur, depth):
        r = self.rng
        x = r.random()
        if x < 0.3:
            return self.safe_num(depth, cur)
        if x < 0.55 and cur and cur[-1]["kind"] == "l":
            # key / child value predicate
            kid = r.choice(cur[-1]["kids"])
            if kid["kind"] == "f":
                lhs = ("path", "C", [("child", ("n", kid["mod"] if r.random() < 0.3 else None, kid["name"]), [], False)])
                return ("bin", "eq", lhs, self.value_for(kid))
        if x < 0.62 and cur and cur[-1]["kind"] == "L":
            return ("bin", "eq", ("path", "C", []), self.value_for(cur[-1]))
        return self.expr("bool", depth, cur)

    def value_for(self, kid):
        r = self.rng
        if r.random() < 0.2:
            return self.expr("str", 1, None)
        v = gen_value(r, kid["type"], key=True)
        cands = [val for (p, val) in self.vals if p and p[-1] == (kid["mod"], kid["name"])]
        if cands and r.random() < 0.8: v = r.choice(cands)
        if "'" in v and '"' in v: v = "a"
        if kid["type"] == INT and r.random() < 0.5 and v.isdigit():
            return ("num", int(v), 0)
        return ("lit", v)

    def safe_num(self, depth, cur=None):
        """always finite, small, integer or .5 multiples: usable as predicate and as argument of ceiling()"""
        r = self.rng
        x = r.random()
        if depth <= 0 or x < 0.45:
            y = r.random()
            if y < 0.55: return ("num",) + r.choice(INT_LITS[1:])
            if y < 0.75: return ("fn", "last", [])
            if y < 0.9: return ("fn", "position", [])
            return ("num",) + r.choice(NUM_LITS)
        if x < 0.75:
            return ("bin", r.choice(["add", "sub", "mul"]), self.safe_num(depth - 1, cur), self.safe_num(depth - 1, cur))
        if x < 0.85:
            return ("bin", r.choice(["div", "mod"]), self.safe_num(depth - 1, cur), ("num", r.choice([2, 4]), 0))
        if x < 0.93:
            return ("fn", "count", [self.expr("ns", depth - 1, cur)])
        return ("fn", "string-length", [self.expr("str", depth - 1, cur)])

    def path(self, depth, cur, allow_filter=True):
        """node-set valued path; returns (expr, schema cursor)"""
        r = self.rng
        x = r.random()
        steps = []
        if x < 0.5:
            start, c = "R", []
        elif x < 0.9 or not allow_filter or depth <= 0:
            start, c = "C", cur
        else:
            # filter expression as the start: a union must not be followed by a child/self step (see F257 in c08.py)
            inner = self.expr("ns", depth - 1, cur, no_path=True)
            start, c = ("E", inner), None
            if inner == ("fn", "current", []):
                c = None
            else:
                st, c = self.step(None, depth - 1, allow_ds=False, axes=["descendant", "parent", "ancestor", "descendant-or-self", "ancestor-or-self",
                                                                          "following-sibling", "preceding-sibling"])
                steps.append(st)
        n = r.choice([0, 1, 1, 2, 2, 3, 4]) if start != "R" else r.choice([0, 1, 2, 2, 3, 3, 4])
        # `anti`: no node of the current set is an ancestor of another one.  libyang's `//name` returns duplicates and its child step
        # returns nodes out of document order on sets that are not antichains (F257), so `//` is only generated while `anti` holds, and
        # a wide `//*` must not be followed by a child/self step.
        anti = start in ("R", "C") or (isinstance(start, tuple) and start[1] == ("fn", "current", []))
        for st0 in steps:
            anti = False
        for i in range(n):
            prev = steps[-1] if steps else None
            wide = prev is not None and prev[3] and prev[1][0] in ("a", "m", "o")
            st, c = self.step(c, depth, allow_ds=anti and (start != "C" or i > 0) and not wide, first=(i == 0),
                              axes=(["descendant", "parent", "ancestor", "following-sibling", "preceding-sibling"] if wide else None))
            steps.append(st)
            if st[0] not in ("child", "self", "following-sibling", "preceding-sibling") or (st[3] and st[1][0] in ("a", "m", "o")):
                anti = False
        if start == "C" and not steps and r.random() < 0.5:
            st, c = self.step(cur, depth, allow_ds=False)
            steps.append(st)
        return ("path", start, steps), c

    def named_path(self, depth, cur):
        """path whose last step has a name test (never selects the root node: F32)"""
        for _ in range(50):
            e, c = self.path(depth, cur, allow_filter=False)
            if e[2] and e[2][-1][1][0] == "n": return e
        return ("path", "R", [("child", ("n", A, "c"), [], False), ("child", ("n", A, "bits"), [], False)])

    def expr(self, typ, depth, cur=None, no_path=False):
        r = self.rng
        if typ == "any":
            typ = r.choice(["ns", "str", "num", "bool"])
        # implicit conversions: sometimes put an expression of another type into the slot
        if typ != "ns" and depth > 0 and r.random() < 0.12:
            return self.expr(r.choice(["ns", "str", "num", "bool"]), depth - 1, cur)
        if typ == "ns":
            x = r.random()
            if depth <= 0 or x < 0.7:
                if no_path and depth > 0:
                    x = 0.8
                else:
                    return self.path(depth, cur)[0]
            if x < 0.85:
                return ("bin", "union", self.expr("ns", depth - 1, cur), self.expr("ns", depth - 1, cur))
            if x < 0.93:
                return ("filter", self.expr("ns", depth - 1, cur), [self.pred(None, depth - 1) for _ in range(r.choice([1, 1, 2]))])
            if x < 0.97:
                return self.deref(depth - 1, cur)
            return ("fn", "current", [])
        if typ == "str":
            x = r.random()
            if depth <= 0 or x < 0.3: return self.lit_str()
            d = depth - 1
            if x < 0.42: return ("fn", "string", [self.expr("any", d, cur)] if r.random() < 0.9 else [])
            if x < 0.50: return ("fn", "concat", [self.expr("str", d, cur) for _ in range(r.choice([2, 2, 3]))])
            if x < 0.58: return ("fn", r.choice(["substring-before", "substring-after"]), [self.expr("str", d, cur), self.expr("str", d, cur)])
            if x < 0.68:
                args = [self.expr("str", d, cur), self.expr("num", d, cur)]
                if r.random() < 0.6: args.append(self.expr("num", d, cur))
                return ("fn", "substring", args)
            if x < 0.76: return ("fn", "normalize-space", [self.expr("str", d, cur)] if r.random() < 0.8 else [])
            if x < 0.84: return ("fn", "translate", [self.expr("str", d, cur), self.lit_str(), self.lit_str()])
            if x < 0.94: return ("fn", r.choice(["name", "local-name"]), [self.expr("ns", d, cur)] if r.random() < 0.8 else [])
            return ("path", "C", []) if r.random() < 0.5 else self.path(d, cur)[0]
        if typ == "num":
            x = r.random()
            if depth <= 0 or x < 0.3: return ("num",) + r.choice(NUM_LITS)
            d = depth - 1
            if x < 0.5: return ("bin", r.choice(["add", "sub", "mul"]), self.expr("num", d, cur), self.expr("num", d, cur))
            if x < 0.56: return ("bin", r.choice(["div", "mod"]), self.expr("num", d, cur), ("num", r.choice([2, 4, 0, 8]), 0))
            if x < 0.60: return ("bin", "mod", self.expr("num", d, cur), self.expr("num", d, cur))
            if x < 0.64:
                y = r.random()
                if y < 0.25: return ("neg", ("neg", self.expr(r.choice(["ns", "str", "any"]), d, cur)))
                return ("neg", self.expr("num" if y < 0.8 else "any", d, cur))
            if x < 0.72: return ("fn", "count", [self.expr("ns", d, cur)])
            if x < 0.78: return ("fn", "sum", [self.expr("ns", d, cur)])
            if x < 0.84: return ("fn", "number", [self.expr("any", d, cur)] if r.random() < 0.85 else [])
            if x < 0.89: return ("fn", "string-length", [self.expr("str", d, cur)] if r.random() < 0.85 else [])
            if x < 0.93: return ("fn", r.choice(["floor", "round"]), [self.expr("num", d, cur)])
            if x < 0.95: return ("fn", "ceiling", [self.safe_num(d, cur)])
            if x < 0.98: return ("fn", "enum-value", [self.typed_path([ENUM, ENUM2])[1] if r.random() < 0.8 else self.named_path(d, cur)])
            return ("fn", r.choice(["position", "last"]), [])
        if typ == "bool":
            x = r.random()
            d = depth - 1
            if depth <= 0: return ("fn", r.choice(["true", "false"]), [])
            if x < 0.35:
                t = r.choice(["ns", "ns", "str", "num", "bool", "any"])
                t2 = r.choice(["ns", "str", "num", "num", "bool", "any"])
                return ("bin", r.choice(["eq", "eq", "ne", "lt", "le", "gt", "ge"]), self.expr(t, d, cur), self.expr(t2, d, cur))
            if x < 0.5: return ("bin", r.choice(["and", "or"]), self.expr("bool", d, cur), self.expr("bool", d, cur))
            if x < 0.6: return ("fn", "not", [self.expr("bool", d, cur)])
            if x < 0.7: return ("fn", "boolean", [self.expr("any", d, cur)])
            if x < 0.8: return ("fn", r.choice(["contains", "starts-with"]), [self.expr("str", d, cur), self.expr("str", d, cur)])
            if x < 0.85: return self.bit_is_set(d, cur) if r.random() < 0.5 else ("fn", "bit-is-set", [self.named_path(d, cur), ("lit", r.choice(["x", "y", "z", "w"]))])
            if x < 0.88: return self.path(d, cur)[0]
            if x < 0.98: return self.yang_bool(d, cur)
            return ("fn", r.choice(["true", "false"]), [])
        raise ValueError(typ)


# ----------------------------------------------------------------------------------------------------------------------
# AST construction helpers (witness expressions, fast-path pairs)
def nm(name, pfx=A): return ("n", pfx, name)
def st(test, axis="child", preds=(), ds=False): return (axis, test if isinstance(test, tuple) else nm(test), list(preds), ds)
def absp(*steps): return ("path", "R", [s if isinstance(s, tuple) and len(s) == 4 else st(s) for s in steps])
def relp(*steps): return ("path", "C", [s if isinstance(s, tuple) and len(s) == 4 else st(s) for s in steps])
def fn(name, *args): return ("fn", name, list(args))
def lit(s): return ("lit", s)
def num(m, sc=0): return ("num", m, sc)
def bop(op, a, b): return ("bin", op, a, b)
DOT = ("path", "C", [])
STAR, NODE, TEXT = ("a",), ("o",), ("t",)

WITNESS_XML = ('<c xmlns="urn:xpa"><s>hello</s><n>5</n><b>true</b><e>two</e><bits>x z</bits><ll>3</ll><ll>1</ll><ll>-7</ll><aref>99</aref><ls>b</ls><ls/>'
               '<l1><k>a</k><v>1</v><w>p</w><w>q</w><in><x>ax</x><y>7</y></in></l1>'
               '<l1><k>b</k><v>2</v><in><x>bx</x></in><v xmlns="urn:xpb">bv</v></l1><l1><k>c</k></l1>'
               '<l2><k1>a</k1><k2>1</k2><v>a1</v><l3><k>x</k><v>1</v></l3><l3><k>y</k><v>2</v></l3></l2>'
               '<l2><k1>a</k1><k2>2</k2><v>a2</v><l3><k>x</k><v>3</v></l3></l2>'
               '<ref>b</ref><iid xmlns:xpa="urn:xpa">/xpa:c/xpa:l1[xpa:k=\'zz\']/xpa:v</iid><un>5</un><ub>x z</ub><ca>cc</ca><v xmlns="urn:xpb">bvv</v><s xmlns="urn:xpb">bs</s><ext xmlns="urn:xpb"><x>ex</x></ext></c>'
               '<small xmlns="urn:xpa"><a>sa</a><sl>z</sl><sl>y</sl></small>'
               '<top xmlns="urn:xpa"><id>2</id><v>t2</v></top><top xmlns="urn:xpa"><id>1</id><v>t1</v></top>')
# last top-level node without children (F259)
WITNESS_XML_F59 = '<c xmlns="urn:xpa"><s>a</s><n>1</n></c>'

C_, L1 = st("c"), st("l1")
U_C_L1 = bop("union", absp(C_), absp(C_, L1))
# (finding, tree, context (0 = root), expression).  Mirrored deviations (F38-F41, F250-F256, F261) also occur in the random stream;
# the entries here make sure each is exercised on every run.  F257/F258/F260 are not mirrored by the engine: witness only.
WITNESSES = [
    ("F38", 0, fn("string", num(25, 2))), ("F38", 0, fn("string", num(275, 2))), ("F38", 0, fn("concat", bop("div", num(1), num(4)), lit(""))),
    ("F39", 0, fn("number", lit("12  "))), ("F39", 0, fn("number", lit("1e3"))), ("F39", 0, fn("number", lit("+1"))),
    ("F39", 0, fn("number", lit("0x10"))), ("F39", 0, fn("number", lit("Infinity"))), ("F39", 0, fn("number", lit(" 12"))),
    ("F40", 0, fn("floor", ("neg", num(15, 1)))), ("F40", 0, fn("ceiling", ("neg", num(15, 1)))), ("F40", 0, fn("round", ("neg", num(1)))),
    ("F40", 0, fn("round", ("neg", num(26, 1)))), ("F40", 0, bop("div", num(1), fn("round", num(0)))),
    ("F41", 0, fn("string-length", lit("ü€"))), ("F41", 0, fn("substring", lit("üx"), num(2))), ("F41", 0, fn("translate", lit("ü"), lit("ü"), lit("u"))),
    ("F250", 0, absp(C_, L1, st(STAR, preds=[num(1)]))), ("F250", 0, absp(C_, L1, st(STAR, preds=[fn("last")]))),
    ("F250", 0, absp(C_, L1, st("in"), st(STAR, "ancestor", preds=[num(1)]))),
    ("F251", 0, absp(C_, st("l1", preds=[num(2)]), st("k"), st(STAR, "preceding"))),
    ("F251", 0, absp(C_, st("l1", preds=[num(1)]), st("in"), st("x"), st(STAR, "following"))),
    ("F251", 0, absp(C_, st("l1", preds=[num(2)]), st("c", "preceding"))),
    ("F252", 0, fn("count", absp(C_, st(STAR, "ancestor")))), ("F252", 0, fn("count", absp(C_, st(STAR, "parent")))),
    ("F252", 0, fn("count", absp(C_, st("s"), st(NODE)))),
    ("F253", 0, absp(C_, st("ll", preds=[num(15, 1)]))), ("F253", 0, absp(C_, st("ll", preds=[bop("div", fn("last"), num(2))]))),
    ("F254", 0, fn("count", absp(C_, st(TEXT, "descendant")))), ("F254", 0, fn("count", absp(C_, st("ls", preds=[bop("eq", DOT, lit(""))]), st(TEXT)))),
    ("F255", 0, fn("string", absp(C_, st("l1", preds=[num(1)])))), ("F255", 0, fn("string-length", ("path", "R", []))),
    ("F256", 0, bop("eq", absp(st("nosuch")), fn("false"))), ("F256", 0, bop("ne", absp(st("nosuch")), fn("true"))),
    ("F256", 0, bop("lt", absp(st("nosuch")), fn("true"))), ("F256", 0, bop("gt", fn("false"), absp(C_, st("ll")))),
    ("F261", 0, fn("floor", bop("div", num(1), num(0)))), ("F261", 0, fn("floor", bop("div", num(0), num(0)))),
    ("F264", 0, fn("substring", lit("12345"), ("neg", bop("div", num(1), num(0))))),
    ("F354", 0, fn("count", fn("deref", absp(C_, st("aref"))))), ("F354", 0, fn("deref", absp(C_, st("aref")))),
    ("F356", 0, fn("count", fn("deref", absp(C_, st("iid"))))), ("F356", 0, fn("deref", absp(C_, st("iid")))),
    ("F355", 0, bop("eq", absp(C_, st("un")), lit("05"))), ("F355", 0, bop("eq", absp(C_, st("ub")), lit("z x"))),
    ("F355", 0, bop("eq", absp(C_, st("n")), lit("05"))), ("F355", 0, bop("eq", absp(C_, st("n")), lit(" +5 "))),
    ("F355", 0, bop("eq", absp(C_, st("bits")), lit("z x"))), ("F355", 0, bop("eq", lit("3.0"), absp(C_, st("ll")))),
    ("F355", 0, bop("ne", absp(C_, st("n")), lit("05"))),
    ("F257", 0, ("path", ("E", U_C_L1), [st(STAR)])),
    ("F257", 0, absp(st(STAR, ds=True), st(STAR))),
    ("F257", 0, ("path", ("E", U_C_L1), [st("k", ds=True)])),
    ("F257", 0, fn("count", ("path", ("E", U_C_L1), [st(STAR, ds=True)]))),
    ("F257", 0, ("filter", absp(st(STAR, ds=True), st(STAR)), [num(2)])),
    ("F257", 0, fn("string", ("path", ("E", bop("union", absp(C_, L1, st("in")), absp(C_, st("l1", preds=[num(2)])))), [st(STAR)]))),
    ("F258", 0, absp(C_, L1, st(("n", None, "v")))),
    ("F258", 0, absp(C_, st(STAR, preds=[bop("or", relp(st("l1", "self")), relp(st("l2", "self")))]), st(("n", None, "v")))),
    ("F260", 0, fn("count", absp(st(TEXT, ds=True)))), ("F260", 0, fn("count", absp(st(NODE, ds=True)))),
    ("F262", 0, fn("count", absp(C_, st("l1", preds=[num(1)]), st(STAR, "attribute")))),
    ("F262", 0, fn("name", absp(C_, st("ll", preds=[num(1)]), st(STAR, "attribute")))),
]
# undefined behaviour / crashes: sent to the implementation only, one request per process
CRASH_WITNESSES = [
    ("F37", WITNESS_XML, 0, fn("ceiling", bop("div", num(1), num(0)))),
    ("F37", WITNESS_XML, 0, fn("string", num(100000000000000000000))),
    ("F37", WITNESS_XML, 0, absp(C_, st("ll", preds=[fn("number", lit("x"))]))),
    ("F259", WITNESS_XML_F59, 0, absp(C_, st("d"), st(STAR, "preceding-sibling"))),
    ("F32", WITNESS_XML, 0, fn("bit-is-set", ("path", "R", []), lit("x"))),
    ("F353", WITNESS_XML, 0, fn("derived-from", absp(C_, st("idr")), lit("id-a"))),
    ("F353", WITNESS_XML, 1, fn("derived-from-or-self", absp(C_, st("idr")), lit("*"))),
]


def ast_from_json(j):
    """ASTs stored in corpus/xpath/*.json (JSON turns tuples into lists)"""
    k = j[0]
    if k == "lit": return ("lit", j[1])
    if k == "num": return ("num", j[1], j[2])
    if k == "fn": return ("fn", j[1], [ast_from_json(a) for a in j[2]])
    if k == "neg": return ("neg", ast_from_json(j[1]))
    if k == "bin": return ("bin", j[1], ast_from_json(j[2]), ast_from_json(j[3]))
    if k == "filter": return ("filter", ast_from_json(j[1]), [ast_from_json(p) for p in j[2]])
    if k == "path":
        start = j[1] if isinstance(j[1], str) else ("E", ast_from_json(j[1][1]))
        return ("path", start, [(st_[0], tuple(st_[1]), [ast_from_json(p) for p in st_[2]], bool(st_[3])) for st_ in j[2]])
    raise ValueError(k)
