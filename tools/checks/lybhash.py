"""Independent re-implementation of the LYB schema hash (lyb_generate_hash over lyht_hash_multi) and of the printer's
collision-id assignment, used by the generators to *engineer* sibling sets with truncated-hash collisions offline."""
M32 = 0xFFFFFFFF


def jmulti(h, key):
    if key:
        for b in key:
            c = b - 256 if b >= 128 else b          # plain char is signed on the target
            h = (h + c) & M32
            h = (h + (h << 10)) & M32
            h ^= h >> 6
    else:
        h = (h + (h << 3)) & M32
        h ^= h >> 11
        h = (h + (h << 15)) & M32
    return h


def lyht_hash(key):
    return jmulti(jmulti(0, key), b"")


def gen_hash(mod, name, col):
    h = jmulti(0, mod)
    h = jmulti(h, name)
    if col:
        h = jmulti(h, mod[:min(col, len(mod))])
    h = jmulti(h, b"")
    return ((h & (0x7F >> col)) | (0x80 >> col)) & 0xFF


def hash_siblings(mod, names, bits=8):
    """-> list of collision ids per sibling, or None when lyb_hash_siblings fails (F27)"""
    H = [[gen_hash(mod, n, i) for i in range(bits)] for n in names]
    ht = []   # (node, hash)
    cols = []

    def seqcheck(s, htc, cmp_):
        return any(hv == H[s][htc] and all(H[s][j] == H[n][j] for j in range(cmp_ + 1)) for n, hv in ht)
    for s in range(len(names)):
        got = None
        for i in range(bits):
            if any(seqcheck(s, j, i) for j in range(i)):
                continue
            if not any(hv == H[s][i] for _, hv in ht):
                got = i; break
            if i and not seqcheck(s, i, i):
                got = i; break
        if got is None:
            return None
        ht.append((s, H[s][got])); cols.append(got)
    return cols


if __name__ == "__main__":
    import itertools, string, sys
    mod = (sys.argv[1] if len(sys.argv) > 1 else "mod").encode()
    depth = int(sys.argv[2]) if len(sys.argv) > 2 else 1
    seen = {}
    for n in range(1, 4):
        for t in itertools.product(string.ascii_lowercase, repeat=n):
            nm = "".join(t).encode()
            key = tuple(gen_hash(mod, nm, i) for i in range(depth))
            if key in seen:
                print(seen[key].decode(), nm.decode(), key, hash_siblings(mod, [seen[key], nm]))
                if len(seen) > 50: sys.exit(0)
            else:
                seen[key] = nm
