"""C12 — printed XML and JSON are standard-conformant and mean the same to any parser."""
from checks import textcomp, rtcomp, rtxcomp

LEAN_TARGETS = ["LyModel.Props.C12", "LyModel.XmlTree.OpaqDoc", "LyModel.XmlTree.OpaqOk", "LyModel.XmlTree.OpaqRoundtrip",
                "LyModel.XmlTree.OpaqCheck", "LyModel.XmlTree.OpaqFaithful", "LyModel.XmlTree.DataCheck", "LyModel.XmlTree.DataFaithful", "LyModel.XmlTree.SpecScope", "LyModel.XmlTree.ScopeFaithful", "LyModel.XmlTree.SpecScopeLemmas", "LyModel.JsonTree.MetaView"]
AUDIT = ["Audit/C12.lean", "Audit/C12Fn.lean"]
GENERATED = ["XmlEsc", "JsonEsc", "JsonTyping", "XmlNsFixes"]
LEAN_TARGETS += ["LyModel.Props.C05Fn", "LyModel.Props.C01FnPrint"]; GENERATED += ["FnUtf8", "FnPrint"]     # functions translated from the C source (tools/c2lean.py), bridged in lean/LyModel/Bridge
ASSUMPTIONS = ["UTF-8 well-formedness of the output is judged by expat / Python json in the correspondence run, not by the Lean spec readers",
               "tree-level structure is under theorems for data nodes without metadata (xml_document_faithful, json_document_faithful) and for opaque XML nodes (opaque_document_faithful); for XML data nodes with metadata (xml_document_faithful_meta(_scoped)); JSON metadata is compared with the state-free expectation jsonViewM on every view (no theorem yet); formatted output is covered by the api-level round-trip harness only"]
TRUSTED = ["Python xml.parsers.expat and json as the independent parsers"]


def classify(component, what, case):
    if component == "rt":
        return rtcomp.classify(component, what, case)
    if component == "rtx":
        return rtxcomp.classify(component, what, case)
    return None


def run(cx):
    from checks import fncomp; fncomp.run_fn(cx, ['utf8', 'print'])
    textcomp.run_text(cx, want=("xml", "json"), law=("independent",))
    textcomp.spec_readers_vs_external(cx, textcomp.gen_strings(cx, 3000, 50000))
    rtcomp.run_rt(cx, laws=("independent",))
    rtxcomp.run_rtx(cx, laws=("independent",))
    rtxcomp.run_opaq(cx)
    rtxcomp.run_xmeta(cx)
