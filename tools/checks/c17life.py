"""Runtime half of property C17 (ownership / lifetime): random API histories through harness/api_life.c.

Used by tools/checks/c17.py:   c17life.run_life(cx)   and   c17life.classify(component, what, case);  c17life.FINDINGS lists the
ids this module recognises (entries in findings.d/life.json).

Every request line is one history executed in a fresh context (the harness forks one child per history).  The laws are
evaluated on the harness reply: dictionary (records, sum of refcounts) back at the baseline once all trees are freed, also at
every intermediate all-freed point; no "not freed from the dictionary" warning at ly_ctx_destroy; no LeakSanitizer report
(run when the byte balance of the heap is off, and for a forced sample); a FAILED schema load leaves the dictionary unchanged;
a failing call leaves its output NULL; node links intact after every op.  Sanitizer aborts come back as crashes of the
history's line (reported with the innermost frames in one canonical `VERIF ERROR:` line, which classify() reads).

The schema knowledge of the generator is parsed from the harness' own built-in YANG text (`life schema <n>`), so the two cannot
drift apart.  Streams: main; f19 (lyd_change_term on leaf-list instances / list keys); f111 (lyd_new_path UPDATE on any nodes);
multierr (LYD_VALIDATE_MULTI_ERROR parses, F113); lrlink (LY_CTX_LEAFREF_LINKING, F114); opaq (opaque nodes: LYD_PARSE_OPAQ,
lyd_new_opaq, attributes, NETCONF envelopes - kept away from merge/diff); subval (validated subtree parses, F119).
Left to other properties on purpose (see comments at the generators): XPath string casts / deref() typing / preceding-sibling,
merge and diff of trees with opaque nodes, structural edits of list keys, LYB-format values with undefined bits.
Not done: allocation-failure enumeration (--wrap=malloc, F26).

Development knobs: VERIF_LIFE_N (number of generated histories), VERIF_LIFE_WORKERS, harness env VERIF_LIFE_DEBUG=1|2."""
import base64, concurrent.futures, json, os, re
from vlib.proto import hexs, unhex

HARNESS = "api_life"
# findings this module knows how to recognise (entries in findings.d/life.json)
FINDINGS = ["F19", "F21", "F111", "F112", "F113", "F114", "F115", "F116", "F117", "F118", "F119", "F150", "F151", "F152", "F153", "F154", "F155", "F156", "F157", "F158",
            "F440", "F441", "F442"]
# a leak report is symbolized by an external process per frame batch: keep it short
ENV = {"LSAN_OPTIONS": "exitcode=96:max_leaks=2"}
NSLOT = 6
NSETS = 3
FORCE_LSAN = 0x40000000

# ---------------------------------------------------------------------------------------------------------------
# YANG subset reader (enough for the built-in schema sets)


def _tokens(text):
    i, n = 0, len(text)
    while i < n:
        c = text[i]
        if c.isspace():
            i += 1
        elif c in "{};":
            yield c
            i += 1
        elif c == '"' or c == "'":
            j = i + 1
            buf = []
            while j < n and text[j] != c:
                if c == '"' and text[j] == "\\" and j + 1 < n:
                    buf.append({"n": "\n", "t": "\t"}.get(text[j + 1], text[j + 1]))
                    j += 2
                else:
                    buf.append(text[j])
                    j += 1
            yield ("S", "".join(buf))
            i = j + 1
        else:
            j = i
            while j < n and not text[j].isspace() and text[j] not in "{};":
                j += 1
            yield ("S", text[i:j])
            i = j


class Stmt:
    def __init__(self, kw, arg):
        self.kw, self.arg, self.sub = kw, arg, []

    def all(self, kw):
        return [s for s in self.sub if s.kw == kw]

    def one(self, kw):
        for s in self.sub:
            if s.kw == kw:
                return s
        return None

    def arg_of(self, kw, dflt=None):
        s = self.one(kw)
        return s.arg if s else dflt


def parse_yang(text):
    toks = list(_tokens(text))
    pos = [0]

    def stmt():
        kw = toks[pos[0]][1]
        pos[0] += 1
        arg = None
        if isinstance(toks[pos[0]], tuple):
            arg = toks[pos[0]][1]
            pos[0] += 1
        s = Stmt(kw, arg)
        if toks[pos[0]] == ";":
            pos[0] += 1
        else:
            pos[0] += 1     # {
            while toks[pos[0]] != "}":
                s.sub.append(stmt())
            pos[0] += 1
        return s

    return stmt()


class SNode:
    """compiled-schema-like node: kind in container list leaf leaf-list anydata anyxml choice case rpc action notification input output"""

    def __init__(self, kind, name, mod, parent, st):
        self.kind, self.name, self.mod, self.parent, self.st = kind, name, mod, parent, st
        self.children = []
        self.type = None
        self.keys = []
        self.user = False
        self.config = True

    def data_parent(self):
        p = self.parent
        while p is not None and p.kind in ("choice", "case", "input", "output"):
            p = p.parent
        return p

    def data_children(self, output=False):
        """children as data sees them (choices/cases flattened, input or output of operations)"""
        out = []
        for c in self.children:
            if c.kind in ("choice", "case"):
                out += c.data_children()
            elif c.kind == "input":
                if not output:
                    out += c.data_children()
            elif c.kind == "output":
                if output:
                    out += c.data_children()
            else:
                out.append(c)
        return out

    def qname(self):
        p = self.data_parent()
        if p is None or p.mod is not self.mod:
            return self.mod.name + ":" + self.name
        return self.name

    def spath(self):
        """data-style schema path for lys_find_path (choice / case / input / output are not named)"""
        segs = []
        n = self
        while n is not None:
            if n.kind not in ("choice", "case", "input", "output"):
                segs.append(n.mod.name + ":" + n.name)
            n = n.parent
        return "/" + "/".join(reversed(segs))


class Module:
    def __init__(self, st, text):
        self.st, self.text = st, text
        self.name = st.arg
        self.ns = st.arg_of("namespace")
        self.prefix = st.arg_of("prefix")
        self.imports = {self.prefix: self.name}
        for i in st.all("import"):
            self.imports[i.arg_of("prefix")] = i.arg
        self.identities = {i.arg: [b.arg for b in i.all("base")] for i in st.all("identity")}
        self.typedefs = {t.arg: t.one("type") for t in st.all("typedef")}
        self.features = [f.arg for f in st.all("feature")]
        self.annotations = [s.arg for s in st.sub if s.kw.endswith(":annotation")]
        self.top = []


DATA_KW = ("container", "list", "leaf", "leaf-list", "anydata", "anyxml", "choice", "case", "rpc", "action", "notification", "input", "output")


class Schema:
    """all modules of one context"""

    def __init__(self, texts):
        self.mods = {}
        for t in texts:
            m = Module(parse_yang(t), t)
            self.mods[m.name] = m
        for m in self.mods.values():
            for s in m.st.sub:
                if s.kw in DATA_KW:
                    m.top.append(self._build(s, m, None, True))
        for m in self.mods.values():
            for a in m.st.all("augment"):
                tgt = self._resolve(a.arg, m)
                if tgt is None:
                    continue
                for s in a.sub:
                    if s.kw in DATA_KW:
                        tgt.children.append(self._build(s, m, tgt, tgt.config))
        self.by_kind = {}
        for n in self.walk():
            self.by_kind.setdefault(n.kind, []).append(n)

    def _build(self, s, m, parent, config):
        kind = s.kw
        name = s.arg if s.arg is not None else kind
        n = SNode(kind, name, m, parent, s)
        if s.arg_of("config") == "false":
            config = False
        if kind in ("rpc", "action", "notification"):
            config = False
        n.config = config
        n.user = s.arg_of("ordered-by") == "user"
        if kind in ("leaf", "leaf-list"):
            n.type = s.one("type")
        if kind == "list" and s.one("key"):
            n.keys = s.arg_of("key").split()
        for c in s.sub:
            if c.kw in DATA_KW:
                ch = c
                if kind == "choice" and c.kw != "case":      # shorthand case
                    cs = SNode("case", c.arg, m, n, c)
                    cs.config = config
                    cs.children.append(self._build(c, m, cs, config))
                    n.children.append(cs)
                    continue
                n.children.append(self._build(ch, m, n, config))
        return n

    def _resolve(self, path, m):
        cur, lst = None, None
        for seg in path.strip("/").split("/"):
            pfx, _, nm = seg.rpartition(":")
            mod = self.mods.get(m.imports.get(pfx, m.name)) if pfx else m
            cands = (cur.children if cur is not None else (mod.top if mod else []))
            nxt = None
            stack = list(cands)
            while stack:
                c = stack.pop(0)
                if c.name == nm and c.kind not in ("choice", "case"):
                    nxt = c
                    break
                if c.kind in ("choice", "case"):
                    stack += c.children
            if nxt is None:
                return None
            cur = nxt
        return cur

    def walk(self):
        st = [t for m in self.mods.values() for t in m.top]
        while st:
            n = st.pop()
            yield n
            st += n.children

    def tops(self):
        return [t for m in self.mods.values() for t in m.top]

    def derived(self, mod, base):
        """identities (as (module, name)) derived from mod:base, transitively"""
        res = []
        want = {(mod.name, base)}
        changed = True
        while changed:
            changed = False
            for m in self.mods.values():
                for idn, bases in m.identities.items():
                    if (m.name, idn) in want:
                        continue
                    for b in bases:
                        pfx, _, nm = b.rpartition(":")
                        bm = m.imports.get(pfx, m.name) if pfx else m.name
                        if (bm, nm) in want:
                            want.add((m.name, idn))
                            res.append((m.name, idn))
                            changed = True
                            break
        return res

    def resolve_type(self, tst, mod):
        """follow typedefs to a built-in type statement"""
        guard = 0
        while tst is not None and guard < 8:
            guard += 1
            nm = tst.arg
            pfx, _, base = nm.rpartition(":")
            m = self.mods.get(mod.imports.get(pfx, mod.name)) if pfx else mod
            if m is not None and base in m.typedefs:
                tst, mod = m.typedefs[base], m
                continue
            break
        return tst, mod


# ---------------------------------------------------------------------------------------------------------------
# values per type: (good lexicals, bad lexicals) in the JSON value format of the API (module names as prefixes)

INT_RANGE = {"int8": (-128, 127), "int16": (-32768, 32767), "int32": (-2 ** 31, 2 ** 31 - 1), "int64": (-2 ** 63, 2 ** 63 - 1),
             "uint8": (0, 255), "uint16": (0, 65535), "uint32": (0, 2 ** 32 - 1), "uint64": (0, 2 ** 64 - 1)}
STRINGS = ["a", "b", "x", "on", "off", "abc", "hello", "Zz", "a b", "a&b", "<t>", "x>y", "it's", 'q"q', "ž", "žluťoučký", "日本", "\U0001F600",
           " lead", "trail ", "a\tb", "line\nbreak", "0", "-1", "true", "k1", "long" * 30, "]]>", "a/b", "a:b", "[x]", "{y}", "\\n"]
JUNK = ["", " ", "abc", "-", "1.5.2", "0x1G", "99999999999999999999999", "-99999999999999999999999", "1e3", "\x7f", "nomod:zz", "/", "//", "[", "a b c",
        " ", "+", "--1", "1 2", "nul\x01"]


def _ranges(tst, kw, lo, hi):
    r = tst.arg_of(kw) if tst is not None else None
    if not r:
        return [(lo, hi)]
    out = []
    for part in r.split("|"):
        a, _, b = part.strip().partition("..")
        a, b = a.strip(), (b.strip() or a.strip())
        conv = lambda v: lo if v == "min" else hi if v == "max" else float(v) if "." in v else int(v)
        try:
            out.append((conv(a), conv(b)))
        except ValueError:
            pass
    return out or [(lo, hi)]


class Values:
    def __init__(self, schema):
        self.schema = schema
        self.cache = {}

    def pools(self, node):
        k = id(node)
        if k not in self.cache:
            self.cache[k] = self._pools(node.type, node.mod, node, 0)
        return self.cache[k]

    def base(self, node):
        t, _ = self.schema.resolve_type(node.type, node.mod)
        return t.arg if t is not None else "string"

    def _pools(self, tst, mod, node, depth):
        tst, mod = self.schema.resolve_type(tst, mod)
        b = tst.arg if tst is not None else "string"
        if b in INT_RANGE:
            lo, hi = INT_RANGE[b]
            good, bad = [], [str(lo - 1), str(hi + 1)]
            rs = _ranges(tst, "range", lo, hi)
            for a, z in rs:
                good += [str(a), str(z), str((a + z) // 2)]
                for d in (1, 2, 3, 5, 7, 11):
                    if a + d <= z:
                        good.append(str(a + d))
            if rs != [(lo, hi)]:
                bad += [str(rs[0][0] - 1)] if rs[0][0] > lo else []
                bad += [str(rs[-1][1] + 1)] if rs[-1][1] < hi else []
            if lo < 0:
                good.append("+" + good[0].lstrip("-"))
            return sorted(set(good), key=good.index), bad + JUNK[:10]
        if b == "decimal64":
            fd = int(tst.arg_of("fraction-digits", "2"))
            lim = 10 ** (18 - fd)
            rs = _ranges(tst, "range", -lim, lim)
            good = []
            for a, z in rs:
                for v in (a, z, (a + z) / 2, a + (z - a) / 3, a + (z - a) / 7):
                    good.append(("%.*f" % (fd, v)))
            good += [g.rstrip("0").rstrip(".") or "0" for g in good[:3]]
            good = [g for g in good if len(g) < 20]
            return sorted(set(good), key=good.index), ["1." + "1" * (fd + 1), "1.", ".", "1,5", str(rs[-1][1] + 1)] + JUNK[:9]
        if b == "string":
            ls = _ranges(tst.one("length"), None, 0, 10 ** 6) if False else None
            lr = [(0, 10 ** 6)]
            if tst.one("length") is not None:
                lr = _ranges(tst, "length", 0, 10 ** 6)
            pats = [p.arg for p in tst.all("pattern")]
            ok = lambda s: any(a <= len(s) <= z for a, z in lr)
            if pats:
                cand = ["", "a", "z", "ab", "abc", "abcd", "qwerty", "abcdefgh", "abcdefghi", "zzzzzzzzzzzz"]
                try:
                    cre = [re.compile(p) for p in pats]
                    good = [s for s in cand if ok(s) and all(c.fullmatch(s) for c in cre)]
                    bad = [s for s in cand + STRINGS if not (ok(s) and all(c.fullmatch(s) for c in cre))]
                except re.error:
                    good, bad = [s for s in cand if ok(s)], ["A1"]
            else:
                good = [s for s in STRINGS if ok(s)]
                bad = [s for s in STRINGS + ["", "x" * 40] if not ok(s)]
            return good or ["a"], bad[:12] or ["\x01"]
        if b == "boolean":
            return ["true", "false"], ["True", "FALSE", "1", "0", "", " true", "yes", "truefalse"]
        if b == "empty":
            return [""], ["x", " ", "null", "[null]"]
        if b == "enumeration":
            names = [e.arg for e in tst.all("enum")]
            return names, [names[0] + " ", names[0].upper(), "", "nope", "0", names[0] + names[-1]]
        if b == "bits":
            names = [e.arg for e in tst.all("bit")]
            good = [""] + names + [" ".join(names)] + [" ".join(names[i:i + 2]) for i in range(len(names))] + [" ".join(reversed(names))]
            return sorted(set(good), key=good.index), [names[0] + " " + names[0], "nope", names[0] + ",", names[0] + " nope", names[0].upper()]
        if b == "binary":
            lr = _ranges(tst, "length", 0, 64) if tst.one("length") is not None else [(0, 64)]
            good = []
            for n in (0, 1, 2, 3, 4, 7, 16, 33):
                if any(a <= n <= z for a, z in lr):
                    good.append(base64.b64encode(bytes((i * 37 + n) & 0xFF for i in range(n))).decode())
            return good or ["QQ=="], ["!", "QQ", "QQ=", "Q===", "QUJD=", "====", "QQ==QQ==", "QU JD", base64.b64encode(b"x" * 70).decode()]
        if b == "identityref":
            good = []
            for bs in tst.all("base"):
                pfx, _, nm = bs.arg.rpartition(":")
                bm = self.schema.mods.get(mod.imports.get(pfx, mod.name)) if pfx else mod
                if bm is None:
                    continue
                for (m, i) in self.schema.derived(bm, nm):
                    good.append(m + ":" + i)
                bad0 = bm.name + ":" + nm
            return good or ["x:y"], [bad0, "nomod:" + good[0].split(":")[1] if good else "a:b", "nope", "", ":", good[0] + " " if good else "q", "lfa:", ":id-a"]
        if b == "instance-identifier":
            return self._iids(), ["", "/", "lfa:c", "/nomod:x", "/lfa:c/zz", "/lfa:c/li[k=", "/lfa:c/li[k='a'", "/lfa:c/sl[.=3]x", "//lfa:c", "/lfa:c/", "c/a", "/lfa:c/li[zz='1']"]
        if b == "leafref":
            tgt = self._leafref_target(tst, node)
            if tgt is not None and depth < 3 and tgt.type is not None:
                g, bd = self._pools(tgt.type, tgt.mod, tgt, depth + 1)
                return g, bd
            return STRINGS[:8], JUNK[:6]
        if b == "union":
            good, bad = [], []
            for mt in tst.all("type"):
                g, bd = self._pools(mt, mod, node, depth + 1)
                good += g[:6]
                bad += bd[:3]
            return sorted(set(good), key=good.index), sorted(set(bad), key=bad.index) + ["\x01"]
        return STRINGS[:10], JUNK[:5]

    def _leafref_target(self, tst, node):
        path = tst.arg_of("path")
        if not path or node is None:
            return None
        cur = node
        segs = path.split("/")
        if path.startswith("/"):
            cur = None
            segs = segs[1:]
        for seg in segs:
            seg = re.sub(r"\[.*?\]", "", seg)
            if seg == "..":
                cur = cur.data_parent() if cur is not None else None
                continue
            nm = seg.rpartition(":")[2]
            cands = cur.data_children() if cur is not None else self.schema.tops()
            cur = next((c for c in cands if c.name == nm), None)
            if cur is None:
                return None
        return cur

    def _iids(self):
        out = []
        for t in self.schema.tops():
            if t.kind == "container":
                out.append("/" + t.mod.name + ":" + t.name)
                for c in t.data_children()[:14]:
                    q = "/" + t.mod.name + ":" + t.name + "/" + (c.name if c.mod is t.mod else c.mod.name + ":" + c.name)
                    if c.kind == "leaf":
                        out.append(q)
                    elif c.kind == "leaf-list":
                        out.append(q + "[.='1']")
                    elif c.kind == "list" and len(c.keys) == 1:
                        out.append(q + "[" + c.keys[0] + "='a']")
            elif t.kind == "leaf":
                out.append("/" + t.mod.name + ":" + t.name)
        return out or ["/a:b"]


# ---------------------------------------------------------------------------------------------------------------
# instance trees, documents, paths


class Inst:
    def __init__(self, sn, value=None):
        self.sn, self.value, self.children, self.parent = sn, value, [], None
        self.anyval = None

    def add(self, c):
        c.parent = self
        self.children.append(c)
        return c


def _quote(v):
    return "'" + v + "'" if "'" not in v else '"' + v + '"' if '"' not in v else None


def inst_path(i):
    """data path of an instance, None when its keys cannot be written as a predicate"""
    segs = []
    while i is not None:
        sn = i.sn
        seg = sn.qname() if i.parent is not None else sn.mod.name + ":" + sn.name
        if sn.kind == "list":
            if sn.keys:
                for k in sn.keys:
                    kv = next((c.value for c in i.children if c.sn.name == k), None)
                    q = _quote(kv) if kv is not None else None
                    if q is None:
                        return None
                    seg += "[%s=%s]" % (k, q)
            else:
                sibs = [c for c in (i.parent.children if i.parent else [i]) if c.sn is sn]
                seg += "[%d]" % (sibs.index(i) + 1)
        elif sn.kind == "leaf-list":
            q = _quote(i.value)
            if q is None:
                return None
            seg += "[.=%s]" % q
        segs.append(seg)
        i = i.parent
    return "/" + "/".join(reversed(segs))


def all_insts(tops):
    st = list(tops)
    while st:
        i = st.pop()
        yield i
        st += i.children


class TreeGen:
    def __init__(self, schema, values, rng):
        self.schema, self.values, self.rng = schema, values, rng

    def value(self, sn, p_bad=0.0):
        g, b = self.values.pools(sn)
        if self.rng.random() < p_bad and b:
            return self.rng.choice(b)
        # small pools first: collisions between histories' values are wanted (same instance created twice, merged, ...)
        return self.rng.choice(g[:6]) if self.rng.random() < 0.6 else self.rng.choice(g)

    def children(self, parent_inst, sn_children, depth, p_bad, density):
        rng = self.rng
        out = []
        chosen_case = {}
        for sn in sn_children:
            # one case per choice (sometimes two: invalid)
            cs = sn.parent
            if cs is not None and cs.kind == "case":
                ch = cs.parent
                if id(ch) not in chosen_case:
                    chosen_case[id(ch)] = rng.choice(ch.children) if rng.random() < 0.8 else None
                if chosen_case[id(ch)] is not cs and rng.random() > 0.04:
                    continue
            if sn.kind == "leaf":
                if rng.random() < density or sn.name in (sn.data_parent().keys if sn.data_parent() is not None else ()):
                    out.append(Inst(sn, self.value(sn, p_bad)))
            elif sn.kind == "leaf-list":
                if rng.random() < density:
                    n = rng.choice((1, 2, 2, 3, 4, 6))
                    vals = []
                    for _ in range(n):
                        v = self.value(sn, p_bad)
                        if v not in vals or rng.random() < 0.05:
                            vals.append(v)
                    out += [Inst(sn, v) for v in vals]
            elif sn.kind == "list":
                if rng.random() < density and depth < 4:
                    seen = set()
                    for _ in range(rng.choice((1, 1, 2, 3, 4))):
                        li = Inst(sn)
                        kids = self.children(li, sn.data_children(), depth + 1, p_bad, density * 0.8)
                        # keys first, in key order
                        keys = []
                        for k in sn.keys:
                            ki = next((c for c in kids if c.sn.name == k), None)
                            if ki is not None:
                                keys.append(ki)
                        kt = tuple(k.value for k in keys)
                        if sn.keys and kt in seen and rng.random() > 0.05:
                            continue
                        seen.add(kt)
                        for c in keys + [c for c in kids if c not in keys]:
                            li.add(c)
                        out.append(li)
            elif sn.kind == "container":
                if rng.random() < density + 0.2 and depth < 5:
                    ci = Inst(sn)
                    for c in self.children(ci, sn.data_children(), depth + 1, p_bad, density):
                        ci.add(c)
                    out.append(ci)
            elif sn.kind in ("anydata", "anyxml"):
                if rng.random() < density * 0.6:
                    a = Inst(sn)
                    a.anyval = rng.choice(("empty", "text", "tree", "modeled"))
                    out.append(a)
        return out

    def data_tops(self, p_bad=0.0, density=0.45, only=None):
        tops = [t for t in self.schema.tops() if t.kind in ("container", "list", "leaf", "leaf-list")]
        if only is not None:
            tops = [t for t in tops if t in only]
        res = []
        for _ in range(4):
            res = self.children(None, tops, 0, p_bad, max(density, 0.6))
            if res:
                break
        return res

    def op_tree(self, kind, p_bad=0.0):
        """instance of an rpc / action / notification with all its data parents; returns (top instance, op instance)"""
        cands = [n for n in self.schema.walk() if n.kind == kind]
        if not cands:
            return None, None
        sn = self.rng.choice(cands)
        chain = []
        p = sn
        while p is not None:
            if p.kind not in ("choice", "case", "input", "output"):
                chain.append(p)
            p = p.parent
        chain.reverse()
        top = cur = None
        for c in chain:
            i = Inst(c)
            if c.kind == "list":
                for k in c.keys:
                    ksn = next(x for x in c.data_children() if x.name == k)
                    i.add(Inst(ksn, self.value(ksn, p_bad)))
            if cur is None:
                top = i
            else:
                cur.add(i)
            cur = i
        return top, cur

    def fill_op(self, op, output=False, p_bad=0.0):
        for c in self.children(op, op.sn.data_children(output), 1, p_bad, 0.7):
            op.add(c)


# ---- XML -------------------------------------------------------------------------------------------------------

def xml_esc(v, rng=None):
    out = []
    for ch in v:
        if ch == "&":
            out.append("&amp;")
        elif ch == "<":
            out.append("&lt;")
        elif ch == ">":
            out.append("&gt;")
        elif rng is not None and rng.random() < 0.06 and ord(ch) >= 0x20:
            out.append("&#x%x;" % ord(ch) if rng.random() < 0.5 else "&#%d;" % ord(ch))
        else:
            out.append(ch)
    return "".join(out)


class Doc:
    def __init__(self, schema, values, rng):
        self.schema, self.values, self.rng = schema, values, rng

    # prefixed values (identityref, instance-identifier): JSON form "mod:name" -> XML prefixes with declarations
    def _xml_value(self, sn, v):
        base = self.values.base(sn)
        decl = ""
        if base in ("identityref", "instance-identifier", "union", "leafref"):
            mods = set(re.findall(r"([A-Za-z_][\w.-]*):", v)) & set(self.schema.mods)
            if base == "instance-identifier" or (base in ("union", "leafref") and v.startswith("/")):
                # every node of an XML instance-identifier needs a prefix
                def seg(m):
                    return m.group(0)
                cur = [None]

                def fix(m):
                    nm = m.group(2)
                    if m.group(1):
                        cur[0] = m.group(1)[:-1]
                    return "/" + (cur[0] + ":" if cur[0] else "") + nm
                v = re.sub(r"/(?:([A-Za-z_][\w.-]*:))?([A-Za-z_][\w.-]*)", fix, v)
            for i, m in enumerate(sorted(mods)):
                decl += ' xmlns:%s="%s"' % (m, self.schema.mods[m].ns)
        cdata = self.rng.random() < 0.03 and "]]>" not in v
        return decl, ("<![CDATA[" + v + "]]>" if cdata else xml_esc(v, self.rng))

    def xml(self, i, top=True, ns_parent=None, meta=None):
        sn = i.sn
        ns = sn.mod.ns
        attrs = ' xmlns="%s"' % ns if ns != ns_parent else ""
        if meta:
            attrs += meta
        if sn.kind in ("leaf", "leaf-list"):
            decl, txt = self._xml_value(sn, i.value)
            if txt == "" and self.rng.random() < 0.5:
                return "<%s%s%s/>" % (sn.name, attrs, decl)
            return "<%s%s%s>%s</%s>" % (sn.name, attrs, decl, txt, sn.name)
        if sn.kind in ("anydata", "anyxml"):
            body = {"empty": "", "text": "some &amp; text" if sn.kind == "anyxml" else "", "tree": "<x><y>1</y><z/></x>",
                    "modeled": self._modeled_xml()}.get(i.anyval, "")
            return "<%s%s>%s</%s>" % (sn.name, attrs, body, sn.name)
        body = "".join(self.xml(c, False, ns) for c in i.children)
        return "<%s%s>%s</%s>" % (sn.name, attrs, body, sn.name)

    def _modeled_xml(self):
        for t in self.schema.tops():
            if t.kind == "leaf":
                return '<%s xmlns="%s">v</%s>' % (t.name, t.mod.ns, t.name)
        return "<q/>"

    def xml_doc(self, tops):
        return "".join(self.xml(t) for t in tops)

    # ---- JSON ----
    def _json_value(self, sn, v):
        base = self.values.base(sn)
        if base in ("int8", "int16", "int32", "uint8", "uint16", "uint32") and re.fullmatch(r"-?\d+", v):
            return v
        if base == "boolean" and v in ("true", "false"):
            return v
        if base == "empty" and v == "":
            return "[null]"
        if base == "union" and re.fullmatch(r"-?\d{1,3}", v) and self.rng.random() < 0.5:
            return v
        s = json.dumps(v, ensure_ascii=self.rng.random() < 0.15)
        return s

    def json_members(self, insts, parent_mod):
        groups = []
        for i in insts:
            for g in groups:
                if g[0].sn is i.sn:
                    g.append(i)
                    break
            else:
                groups.append([i])
        parts = []
        for g in groups:
            sn = g[0].sn
            name = sn.name if sn.mod is parent_mod else sn.mod.name + ":" + sn.name
            if sn.kind == "leaf":
                parts.append("%s:%s" % (json.dumps(name), self._json_value(sn, g[0].value)))
            elif sn.kind == "leaf-list":
                parts.append("%s:[%s]" % (json.dumps(name), ",".join(self._json_value(sn, x.value) for x in g)))
            elif sn.kind == "list":
                parts.append("%s:[%s]" % (json.dumps(name), ",".join("{" + self.json_members(x.children, sn.mod) + "}" for x in g)))
            elif sn.kind in ("anydata", "anyxml"):
                body = {"empty": "{}", "text": '"txt"' if sn.kind == "anyxml" else "{}", "tree": '{"x":{"y":1,"z":[null]}}',
                        "modeled": self._modeled_json()}.get(g[0].anyval, "{}")
                parts.append("%s:%s" % (json.dumps(name), body))
            else:
                parts.append("%s:{%s}" % (json.dumps(name), self.json_members(g[0].children, sn.mod)))
        return ",".join(parts)

    def _modeled_json(self):
        for t in self.schema.tops():
            if t.kind == "leaf":
                return '{"%s:%s":"v"}' % (t.mod.name, t.name)
        return "{}"

    def json_doc(self, tops):
        return "{" + self.json_members(tops, None) + "}"


def corrupt(rng, doc, fmt):
    """malformed stream: truncation, byte edits, structural damage"""
    if not doc:
        return "<" if fmt == 0 else "{"
    k = rng.randrange(9)
    n = len(doc)
    if k == 0:
        return doc[:rng.randrange(n)]
    if k == 1:
        p = rng.randrange(n)
        return doc[:p] + doc[p + 1:]
    if k == 2:
        p = rng.randrange(n)
        return doc[:p] + rng.choice("<>&\"'{}[],:/=\\ \x01?!") + doc[p + 1:]
    if k == 3:
        a = rng.randrange(n)
        b = min(n, a + rng.randrange(1, 30))
        return doc[:b] + doc[a:b] + doc[b:]
    if k == 4:
        if fmt == 0:
            tags = re.findall(r"</([\w-]+)>", doc)
            if tags:
                t = rng.choice(tags)
                return doc.replace("</%s>" % t, "</%sx>" % t, 1)
        return doc.replace(":", "", 1)
    if k == 5:
        if fmt == 0:
            return re.sub(r'xmlns="([^"]*)"', 'xmlns="urn:nosuch"', doc, count=1)
        return re.sub(r'"(\w+):', '"nosuch:', doc, count=1)
    if k == 6:
        p = rng.randrange(n)
        ins = rng.choice(["<unknown>1</unknown>", "<a><b></a></b>", "&bogus;", "<!-- c -->", "<?pi x?>", "<![CDATA[", "&#xFFFF;", "&#0;"]) if fmt == 0 else \
            rng.choice([',"unknown":1', "null", "[[", '"a":', "\\u12", ',,', '{"x":', "1e999", '"\\ud800"'])
        return doc[:p] + ins + doc[p:]
    if k == 7:
        return doc + (doc if rng.random() < 0.5 else rng.choice(["<", "}", "]", "garbage", "\x00x"]))
    return doc[:n // 2].encode("utf-8")[: max(1, n // 2 - 1)].decode("utf-8", "ignore") + "\xff\xfe".encode("latin1").decode("latin1") + doc[n // 2:]


# ---------------------------------------------------------------------------------------------------------------
# histories

P_ONLY, P_STRICT, P_OPAQ, P_NOSTATE, P_WHEN_TRUE, P_NO_NEW, P_STORE_ONLY, P_JSON_NULL = 0x10000, 0x20000, 0x40000, 0x80000, 0x800000, 0x1000000, 0x2010000, 0x4000000
V_NOSTATE, V_PRESENT, V_MULTI, V_OPER, V_NODFLT, V_NOTFINAL = 1, 2, 4, 8, 0x10, 0x20
NP_OUTPUT, NP_STORE_ONLY, NP_UPDATE, NP_OPAQ, NP_WITH_OPAQ = 0x01, 0x02, 0x20, 0x40, 0x80
NC_RPC = "urn:ietf:params:xml:ns:netconf:base:1.0"
# internal modules whose YIN print parses back; `yang` is the F20/F21 witness and is used only by the hand seed
YIN_SAFE = ["ietf-yang-metadata", "ietf-inet-types", "ietf-yang-types", "ietf-datastores"]


def O(name, *args):
    out = [name]
    for a in args:
        if a is None:
            out.append("~")
        elif isinstance(a, bool):
            out.append("1" if a else "0")
        elif isinstance(a, int):
            out.append(str(a))
        else:
            out.append(hexs(a))
    return ":".join(out)


def repair(tops, schema, values, rng):
    """make a generated tree (mostly) valid: leafref / instance-identifier targets, when, must, mandatory, unique, if-feature"""
    insts = list(all_insts(tops))
    by_sn = {}
    for i in insts:
        by_sn.setdefault(id(i.sn), []).append(i)

    def drop(i):
        lst = i.parent.children if i.parent is not None else tops
        if i in lst:
            lst.remove(i)

    for i in insts:
        sn = i.sn
        st = sn.st
        if st.one("if-feature") is not None:
            drop(i)
            continue
        if sn.kind in ("leaf", "leaf-list"):
            t, _ = schema.resolve_type(sn.type, sn.mod)
            if t.arg == "leafref" and t.arg_of("require-instance") != "false":
                tgt = values._leafref_target(t, sn)
                cands = [x.value for x in by_sn.get(id(tgt), [])] if tgt is not None else []
                if cands:
                    i.value = rng.choice(cands)
                else:
                    drop(i)
                    continue
            if t.arg == "instance-identifier" and t.arg_of("require-instance") != "false":
                ps = [p for p in (inst_path(x) for x in insts if x.sn.kind in ("leaf", "container") and x is not i) if p]
                if ps:
                    i.value = rng.choice(ps)
                else:
                    drop(i)
                    continue
        w = st.arg_of("when")
        if w and i.parent is not None:
            m = re.fullmatch(r"\.\./([\w:-]+) = '(\w+)'", w)
            m2 = re.fullmatch(r"\.\./([\w:-]+)", w)
            nm = (m or m2).group(1).rpartition(":")[2] if (m or m2) else None
            sib = next((c for c in i.parent.children if c.sn.name == nm), None) if nm else None
            if m and sib is not None:
                sib.value = m.group(2)
            elif not (m2 and sib is not None):
                drop(i)
                continue
        mu = st.arg_of("must")
        if mu and i.parent is not None:
            m = re.fullmatch(r"\. != \.\./([\w:-]+)", mu)
            sib = next((c for c in i.parent.children if m and c.sn.name == m.group(1)), None)
            if sib is not None and sib.value == i.value:
                drop(i)
                continue
    # mandatory leaves / choices, unique
    for i in list(all_insts(tops)):
        sn = i.sn
        if sn.kind not in ("container", "list"):
            continue
        for c in sn.children:
            if c.kind == "leaf" and c.st.arg_of("mandatory") == "true" and not any(x.sn is c for x in i.children):
                i.add(Inst(c, rng.choice(values.pools(c)[0])))
            if c.kind == "choice" and c.st.arg_of("mandatory") == "true":
                members = c.data_children()
                if not any(x.sn in members for x in i.children):
                    lf = next((m for m in members if m.kind == "leaf"), None)
                    if lf is not None:
                        i.add(Inst(lf, rng.choice(values.pools(lf)[0])))
        u = sn.st.arg_of("unique")
        if u and i.parent is not None:
            seen = set()
            for x in [x for x in i.parent.children if x.sn is sn]:
                for c in list(x.children):
                    if c.sn.name == u:
                        if c.value in seen:
                            x.children.remove(c)
                        seen.add(c.value)
    return tops


class HistGen:
    def __init__(self, rng, schemas, texts, yin_texts, tier_thorough=False):
        self.rng = rng
        self.schemas = schemas          # list of (Schema, Values) per built-in set
        self.texts = texts              # list of lists of module YANG text per set
        self.yin = yin_texts            # same printed as YIN
        self.thorough = tier_thorough

    # ---- helpers --------------------------------------------------------------------------------------------
    def begin(self, set_idx, stream):
        self.set = set_idx
        self.schema, self.values = self.schemas[set_idx]
        self.tg = TreeGen(self.schema, self.values, self.rng)
        self.doc = Doc(self.schema, self.values, self.rng)
        self.known = {}                 # slot -> list of top instances (our best knowledge)
        self.stream = stream            # "main" | "f19" | "f111"
        self.ops = []
        self.kinds = []

    def emit(self, kind, opstr):
        self.ops.append(opstr)
        self.kinds.append(kind)

    def slot(self, live=None):
        rng = self.rng
        if live is True and self.known:
            return rng.choice(list(self.known))
        if live is False:
            free = [s for s in range(NSLOT) if s not in self.known]
            if free:
                return rng.choice(free)
        return rng.randrange(NSLOT)

    def nsel(self, s, pred=None, kindch="#", p_path=0.65):
        rng = self.rng
        tops = self.known.get(s)
        if tops and rng.random() < p_path:
            c = [i for i in all_insts(tops) if pred is None or pred(i)]
            if c:
                p = inst_path(rng.choice(c))
                if p:
                    return p
        return "%s%d" % (kindch, rng.randrange(60))

    def rand_sn(self, kinds):
        c = [n for k in kinds for n in self.schema.by_kind.get(k, [])]
        return self.rng.choice(c) if c else None

    def schema_data_path(self, sn, p_bad=0.0, last_pred=True):
        """a data path to (an instance of) schema node sn with generated predicates"""
        rng = self.rng
        chain = []
        n = sn
        while n is not None:
            if n.kind not in ("choice", "case", "input", "output"):
                chain.append(n)
            n = n.parent
        chain.reverse()
        segs = []
        prev = None
        for n in chain:
            seg = n.name if (prev is not None and prev.mod is n.mod) else n.mod.name + ":" + n.name
            if n.kind == "list" and (n is not sn or last_pred):
                if n.keys:
                    for k in n.keys:
                        ksn = next(x for x in n.data_children() if x.name == k)
                        q = _quote(self.tg.value(ksn, p_bad))
                        seg += "[%s=%s]" % (k, q or "'a'")
                else:
                    seg += "[%d]" % rng.randrange(1, 4)
            elif n.kind == "leaf-list" and n is sn and last_pred and rng.random() < 0.7:
                q = _quote(self.tg.value(n, p_bad))
                seg += "[.=%s]" % (q or "'1'")
            segs.append(seg)
            prev = n
        return "/" + "/".join(segs)

    def bad_path(self, good):
        rng = self.rng
        k = rng.randrange(8)
        if k == 0:
            return good + "/nosuch"
        if k == 1:
            return good.replace(":", "", 1)
        if k == 2:
            return good[:max(1, rng.randrange(len(good)))]
        if k == 3:
            return good + "["
        if k == 4:
            return "/nomod:" + good.split(":", 1)[-1]
        if k == 5:
            return good.lstrip("/")
        if k == 6:
            return re.sub(r"='[^']*'", "='", good, count=1) if "='" in good else good + "[.='"
        return rng.choice(["", "/", "//", "/a:", "[1]", "/lfa:c/li[k='a'][k='b']", "/lfa:c/li[zz='1']", "/*", "/lfa:c/.."])

    # ---- op families ------------------------------------------------------------------------------------------
    def g_parse(self):
        rng = self.rng
        s = self.slot(live=False) if rng.random() < 0.7 else self.slot()
        fmt = rng.randrange(2)
        validating = rng.random() < 0.5
        p_bad = 0.0 if rng.random() < 0.7 else 0.15
        if self.stream == "whendel":
            validating, p_bad = rng.random() < 0.9, 0.0
        tops = self.tg.data_tops(p_bad=p_bad, density=rng.choice((0.25, 0.45, 0.7)) if self.stream != "whendel" else rng.choice((0.7, 0.9)))
        if validating or rng.random() < 0.5:
            repair(tops, self.schema, self.values, rng)
        if validating:
            popts = rng.choice((0, 0, P_STRICT, P_OPAQ, P_NOSTATE, P_WHEN_TRUE, P_NO_NEW, P_JSON_NULL, P_STRICT | P_NOSTATE))
            vopts = rng.choice((V_PRESENT, V_PRESENT, V_PRESENT | V_MULTI, 0, V_PRESENT | V_NOSTATE, V_PRESENT | V_OPER, V_PRESENT | V_NODFLT, V_PRESENT | V_NOTFINAL))
        else:
            popts = rng.choice((P_ONLY, P_ONLY, P_ONLY | P_OPAQ, P_ONLY | P_STRICT, P_STORE_ONLY, P_ONLY | P_JSON_NULL, P_STORE_ONLY | P_OPAQ))
            vopts = 0 if rng.random() < 0.95 else V_PRESENT
        if self.stream != "opaq":
            popts &= ~P_OPAQ
        if self.stream != "multierr":
            vopts &= ~V_MULTI
        elif validating:
            vopts |= V_MULTI
        d = self.doc.json_doc(tops) if fmt else self.doc.xml_doc(tops)
        bad = rng.random() < (0.22 if self.stream != "multierr" else 0.5) and self.stream != "whendel"
        if bad:
            d = corrupt(rng, d, fmt)
        self.emit("parse:%s:%s" % ("json" if fmt else "xml", "malformed" if bad else ("invalid-values" if p_bad else "valid")),
                  O(rng.choice(("px", "pin")), s, fmt, popts, vopts, d.encode("utf-8", "surrogateescape") if d else ""))
        if not bad and p_bad == 0.0:
            self.known[s] = tops
        elif s in self.known and rng.random() < 0.5:
            pass

    def g_parse_sub(self):
        rng = self.rng
        s = self.slot(live=True)
        tops = self.known.get(s)
        par = None
        if tops:
            c = [i for i in all_insts(tops) if i.sn.kind in ("container", "list")]
            par = rng.choice(c) if c else None
        if par is None:
            return self.g_parse()
        fmt = rng.randrange(2)
        kids = self.tg.children(par, par.sn.data_children(), 2, 0.05, 0.5)
        kids = [k for k in kids if k.sn.name not in par.sn.keys]
        if fmt:
            d = "{" + self.doc.json_members(kids, None) + "}"
        else:
            d = "".join(self.doc.xml(k) for k in kids)
        if rng.random() < 0.2:
            d = corrupt(rng, d, fmt)
        popts = rng.choice((P_ONLY, 0, P_ONLY | P_OPAQ, P_STRICT))
        if self.stream != "opaq":
            popts &= ~P_OPAQ
        # F115 / F119: validation of a subtree parse (leaks implicit top-level nodes when it fails; goes on with an auto-deleted first
        # child): full validation only in the seed, LYD_VALIDATE_PRESENT only in the "subval" stream
        if self.stream != "subval":
            popts |= P_ONLY
        vopts = 0 if popts & P_ONLY == P_ONLY else V_PRESENT
        extra = []
        if self.stream == "subval":
            # the repaired lyd_parse() validates the children of the parent whatever the options: also full validation (F115) and
            # no output pointer (F440)
            if vopts and rng.random() < 0.4:
                vopts = 0
            if rng.random() < 0.3:
                extra = [1]
        self.emit("parse:subtree", O("pinp", s, inst_path(par) or "@%d" % rng.randrange(20), fmt, popts, vopts, d.encode("utf-8", "surrogateescape"), *extra))

    def g_roundtrip(self):
        rng = self.rng
        s, d = self.slot(live=True), self.slot(live=False)
        fmt = rng.randrange(3)
        popts = rng.choice((P_ONLY, 0, P_STRICT, P_ONLY | P_OPAQ))
        if self.stream != "opaq":
            popts &= ~P_OPAQ
        self.emit("roundtrip:%s" % ("xml", "json", "lyb")[fmt], O("rt", s, d, fmt, rng.choice((0, 2, 0x20, 0x10, 4)), popts, rng.choice((0, V_PRESENT))))
        if s in self.known and s != d:
            self.known[d] = self.known[s]

    def g_parse_op(self):
        rng = self.rng
        kind = rng.choice(("rpc", "action", "notification"))
        top, op = self.tg.op_tree(kind, p_bad=0.05)
        if top is None:
            return self.g_parse()
        dt = rng.choice((1, 3, 4)) if kind != "notification" else rng.choice((2, 5))
        if self.stream != "opaq" and dt >= 4:
            dt = 1 if dt == 4 else 2
        self.tg.fill_op(op, output=(dt == 3), p_bad=0.05)
        s = self.slot(live=False)
        fmt = 0 if dt >= 4 else rng.randrange(2)
        if fmt:
            d = self.doc.json_doc([top])
        else:
            d = self.doc.xml(top)
            if dt == 4:
                if kind == "action":
                    d = '<action xmlns="urn:ietf:params:xml:ns:yang:1">' + d + "</action>"
                d = '<rpc xmlns="%s" message-id="%d">%s</rpc>' % (NC_RPC, rng.randrange(100), d)
            elif dt == 5:
                d = '<notification xmlns="urn:ietf:params:xml:ns:netconf:notification:1.0"><eventTime>2024-01-01T00:00:0%dZ</eventTime>%s</notification>' % (rng.randrange(10), d)
        if rng.random() < 0.25:
            d = corrupt(rng, d, fmt)
        self.emit("parse:op:%d" % dt, O("pop", s, fmt, dt, d.encode("utf-8", "surrogateescape")))
        self.known[s] = [top]
        if rng.random() < 0.4:
            self.emit("validate:op", O("vo", s, inst_path(op) or "#0", self.slot(), min(dt, 3) if dt < 4 else (1 if dt == 4 else 2), rng.randrange(2)))

    def g_new_path(self):
        rng = self.rng
        s = self.slot(live=True) if rng.random() < 0.75 else self.slot()
        sn = self.rand_sn(("leaf", "leaf", "leaf-list", "container", "list", "anydata", "anyxml"))
        bad_val = rng.random() < 0.2
        path = self.schema_data_path(sn, p_bad=0.1 if rng.random() < 0.2 else 0.0)
        if rng.random() < 0.12:
            path = self.bad_path(path)
        val = None
        if sn.kind in ("leaf", "leaf-list"):
            val = self.tg.value(sn, 1.0 if bad_val else 0.0)
        elif sn.kind in ("anydata", "anyxml"):
            val = rng.choice(("txt", "<x>1</x>", '{"x":1}', "", "<a><b>", '{"lfa:top":"q"}'))
        opts = rng.choice((0, 0, 0, NP_UPDATE, NP_UPDATE, NP_OPAQ, NP_UPDATE | NP_OPAQ, NP_STORE_ONLY, NP_WITH_OPAQ, NP_OUTPUT))
        if self.stream != "opaq":
            opts &= ~(NP_OPAQ | NP_WITH_OPAQ)
        if sn.kind in ("anydata", "anyxml") and self.stream != "f111":
            opts &= ~NP_UPDATE          # F111: updating an existing any node keeps the caller's pointer
        if self.stream == "f111" and sn.kind in ("anydata", "anyxml"):
            opts |= NP_UPDATE
        if rng.random() < 0.8 or sn.kind in ("container", "list"):
            self.emit("new_path:%s:%s" % (sn.kind, "badval" if bad_val else "ok"), O("np", s, opts, path, val))
        else:
            par = self.nsel(s) if s in self.known else None
            dp = sn.data_parent()
            if dp is not None and rng.random() < 0.5:
                # relative path from an instance of the schema parent
                par = self.nsel(s, lambda i: i.sn is dp, "@")
                path = path.rsplit("/", 1)[1] if "/" in path else path
            self.emit("new_path2:%s" % sn.kind, O("np2", s, par, opts, path, val if val is not None else "", rng.randrange(1, 4)))
        self.known.setdefault(s, self.known.get(s, []))

    def _parent_for(self, s, child_kinds):
        """(selector, parent schema node) of an inner node in slot s, or (None, None) = top level"""
        rng = self.rng
        tops = self.known.get(s)
        if tops and rng.random() < 0.8:
            c = [i for i in all_insts(tops) if i.sn.kind in ("container", "list", "rpc", "action", "notification")
                 and any(x.kind in child_kinds for x in i.sn.data_children())]
            if c:
                i = rng.choice(c)
                p = inst_path(i)
                if p:
                    return p, i.sn
        return None, None

    def g_new_node(self):
        rng = self.rng
        s = self.slot(live=True) if rng.random() < 0.8 else self.slot()
        fam = rng.choice(("ni", "nl", "nlv", "nt", "nt", "nt", "ntb", "na", "nad", "no"))
        if fam == "no" and self.stream != "opaq":
            fam = "nt"
        kinds = {"ni": ("container", "rpc", "notification", "action"), "nl": ("list",), "nlv": ("list",), "nt": ("leaf", "leaf-list"), "ntb": ("leaf", "leaf-list"),
                 "na": ("anydata", "anyxml"), "nad": ("anydata", "anyxml"), "no": ("leaf", "container")}[fam]
        psel, psn = self._parent_for(s, kinds)
        if psn is not None:
            cands = [x for x in psn.data_children() if x.kind in kinds]
        else:
            cands = [x for x in self.schema.tops() if x.kind in kinds]
            if not cands:
                psel, cands = "@%d" % rng.randrange(30), [n for k in kinds for n in self.schema.by_kind.get(k, [])]
        if not cands:
            return self.g_new_path()
        sn = rng.choice(cands)
        name = sn.name
        mod = sn.mod.name if (psel is None or rng.random() < 0.5) else None
        wrong = rng.random() < 0.08
        if wrong:
            name = rng.choice(("nosuch", "", sn.name + "x", (self.rand_sn(("container", "leaf", "list")) or sn).name))
        if rng.random() < 0.04:
            mod = "nomod"
        bad = rng.random() < 0.25
        kd = "new:%s:%s" % (fam, "wrongname" if wrong else ("bad" if bad else "ok"))
        if fam == "ni":
            self.emit(kd, O("ni", s, psel, mod, name, rng.random() < 0.1))
        elif fam == "nl":
            pred = ""
            for k in sn.keys:
                ksn = next(x for x in sn.data_children() if x.name == k)
                pred += "[%s=%s]" % (k, _quote(self.tg.value(ksn, 0.7 if bad else 0.0)) or "'a'")
            if bad and rng.random() < 0.4:
                pred = rng.choice(("", "[", pred + "[zz='1']", pred[:-1], "[.='a']", pred + pred))
            self.emit(kd, O("nl", s, psel, mod, name, rng.choice((0, 0, 2)), pred if sn.keys or bad else None))
        elif fam == "nlv":
            ks = []
            for k in sn.keys[:3]:
                ksn = next(x for x in sn.data_children() if x.name == k)
                ks.append(self.tg.value(ksn, 0.7 if bad else 0.0))
            self.emit(kd, O("nlv", s, psel, mod, name, rng.choice((0, 0, 2)), *ks))
        elif fam == "nt":
            self.emit(kd, O("nt", s, psel, mod, name, rng.choice((0, 0, 0, 2, 1)), self.tg.value(sn, 1.0 if bad else 0.0) if not (bad and rng.random() < 0.1) else None))
        elif fam == "ntb":
            v = self.lyb_value(sn, bad)
            if v is None:
                self.emit(kd.replace(":ntb:", ":nt:"), O("nt", s, psel, mod, name, 0, self.tg.value(sn, 1.0 if bad else 0.0)))
            else:
                # lyd_new_term + LYD_NEW_VAL_BIN takes the length by strlen: only for values without a zero byte
                self.emit(kd, O("ntb", s, psel, mod, name, rng.choice((0, 0, 2)), v, rng.random() < 0.15 and b"\x00" not in v and len(v) > 0))
        elif fam == "na":
            v = rng.choice(("plain text", "<x xmlns=\"urn:q\"><y>1</y></x>", '{"x":{"y":[1,2]}}', "", "<a><b></a>", '{"x":', '{"%s:top":"v"}' % self.schema.tops()[0].mod.name, "&bogus;"))
            self.emit(kd, O("na", s, psel, mod, name, rng.randrange(1, 4), rng.random() < 0.6, v))
        elif fam == "nad":
            self.emit(kd, O("nad", s, psel, mod, name, rng.random() < 0.6, self.slot(live=True)))
        else:
            self.emit(kd, O("no", s, psel if rng.random() < 0.7 else None, sn.mod.name if rng.random() < 0.8 else "unknown-mod", name if rng.random() < 0.6 else "opq",
                            rng.choice((None, "", "v", "a&b")), rng.choice((None, sn.mod.name, "pfx")), rng.random() < 0.4))

    def lyb_value(self, sn, bad):
        """value in the binary (LYB) value format of lyd_new_term_bin / lyd_change_term_bin.  The format is trusted by the
        type plugins (undefined bit positions, embedded NULs are not checked), so "bad" only means a wrong size."""
        rng = self.rng
        t, _ = self.schema.resolve_type(sn.type, sn.mod)
        base = t.arg
        v = self.tg.value(sn, 0.0)
        sized = True
        try:
            if base in INT_RANGE:
                size = {"8": 1, "6": 2, "2": 4, "4": 8}[base[-1]]
                b = int(v).to_bytes(size, "little", signed=base.startswith("int"))
            elif base == "boolean":
                b = b"\x01" if v == "true" else b"\x00"
            elif base == "binary":
                b, sized = base64.b64decode(v), False
            elif base == "empty":
                b = b""
            elif base == "bits":
                pos, nxt, bitmap = {}, 0, 0
                for bst in t.all("bit"):
                    p = int(bst.arg_of("position", str(nxt)))
                    pos[bst.arg] = p
                    nxt = p + 1
                for name in v.split():
                    bitmap |= 1 << pos[name]
                b = bitmap.to_bytes(max(1, (max(pos.values()) // 8) + 1), "little")
            elif base == "enumeration":
                val, nxt = {}, 0
                for est in t.all("enum"):
                    x = int(est.arg_of("value", str(nxt)))
                    val[est.arg] = x
                    nxt = x + 1
                b = val[v].to_bytes(4, "little", signed=True)
            elif base == "decimal64":
                fd = int(t.arg_of("fraction-digits", "2"))
                b = int(round(float(v) * 10 ** fd)).to_bytes(8, "little", signed=True)
            elif base in ("string", "identityref", "instance-identifier"):
                b, sized = v.encode(), False
            else:
                return None     # union / leafref: own encodings, not generated
        except Exception:
            return None
        if bad:
            if sized:
                b = rng.choice((b + b"\x01", b[:-1], b"", b + b))
            else:
                b = rng.choice((b + b"!", b[:-1], b"", b * 3))
        return b

    def g_meta(self):
        rng = self.rng
        s = self.slot(live=True)
        k = rng.randrange(6 if self.stream == "opaq" else 5)
        anns = [(m.name, a) for m in self.schema.mods.values() for a in m.annotations]
        if k <= 2:
            if anns and rng.random() < 0.8:
                m, a = rng.choice(anns)
                val = rng.choice(("n", "5", "300", "", "text", "-1")) if a != "cnt" else rng.choice(("1", "255", "256", "x", ""))
            else:
                m, a, val = rng.choice((("yang", "operation", "create"), ("yang", "operation", "bogus"), ("yang", "insert", "first"), ("nomod", "x", "1"), ("yang", "nosuch", "1"), ("yang", "orig-default", "true")))
            style = rng.randrange(3)
            self.emit("meta:new", O("nm", s, self.nsel(s), m if style != 1 else None, a if style == 0 else m + ":" + a, val, rng.choice((0, 0, 0x10, 2))))
        elif k == 3:
            self.emit("meta:change", O("cm", s, self.nsel(s, kindch="^", p_path=0.2), rng.randrange(4), rng.choice(("n2", "7", "999", "", "delete", "none", "x y"))))
        elif k == 4:
            self.emit("meta:free", O("fm", s, self.nsel(s, kindch="^", p_path=0.2), rng.randrange(4)))
        else:
            self.emit("attr:new", O("nat", s, "%s%d" % (rng.choice("%%%#"), rng.randrange(30)), rng.choice((None, "lfa", "urn:x", "nomod")),
                                    rng.choice(("at", "p:at", "xml:lang", "", "a:b:c", "1x")), rng.choice((None, "", "v", "p:v")), rng.random() < 0.4))

    def g_change(self):
        rng = self.rng
        s = self.slot(live=True)
        f19 = self.stream == "f19" and rng.random() < 0.7
        tops = self.known.get(s)
        target, sn = None, None
        if tops and rng.random() < 0.75:
            if f19:
                c = [i for i in all_insts(tops) if i.sn.kind == "leaf-list" or (i.sn.kind == "leaf" and i.parent is not None and i.sn.name in i.parent.sn.keys)]
            else:
                c = [i for i in all_insts(tops) if i.sn.kind == "leaf" and not (i.parent is not None and i.sn.name in i.parent.sn.keys)]
            if self.stream == "whendel" and rng.random() < 0.7:
                # a leaf that a sibling's `when` reads
                dep = [i for i in c if i.parent is not None and any(
                    re.search(r"\.\./(?:[\w-]+:)?%s\b" % re.escape(i.sn.name), x.sn.st.arg_of("when") or "") for x in i.parent.children)]
                c = dep or c
            if c:
                i = rng.choice(c)
                target, sn = inst_path(i), i.sn
        if target is None:
            target = "%s%d" % ("*" if f19 else "$", rng.randrange(40))
        bad = rng.random() < 0.25
        if sn is not None:
            val = self.tg.value(sn, 1.0 if bad else 0.0)
        else:
            val = rng.choice(("1", "2", "3", "5", "7", "a", "b", "x", "true", "one", "q", "lfa:id-a", "", "zz", "300", "-1", "hi", "p", "lo", "k1", "lfd:k2", "1.5"))
        lv = self.lyb_value(sn, bad) if (sn is not None and rng.random() < 0.12) else None
        if lv is not None:
            self.emit("change_term_bin:%s" % ("llist-or-key" if f19 else "leaf"), O("ctb", s, target, lv, f19))
        else:
            self.emit("change_term:%s:%s" % ("llist-or-key" if f19 else "leaf", "bad" if bad else "ok"), O("ct", s, target, val, f19))

    def g_dup(self):
        rng = self.rng
        a = self.slot(live=True)
        opts = rng.choice((0, 1, 1, 1, 1 | 8, 1 | 2, 4, 1 | 4, 1 | 4 | 8, 1 | 0x40, 1 | 0x10, 1 | 0x20, 8))
        nsel = self.nsel(a)
        if rng.random() < 0.55:
            b = self.slot(live=False)
            self.emit("dup:%s:noparent" % "single", O(rng.choice(("ds", "ds", "dd")), a, nsel, b, None, opts))
            if a in self.known and nsel.startswith("/") and nsel.count("/") == 1:
                self.known.setdefault(b, self.known[a])
        else:
            b = self.slot(live=True)
            # a fitting parent: the same path (minus the last segment) in the other tree, or any inner node with WITH_PARENTS
            if nsel.startswith("/") and nsel.count("/") > 1 and rng.random() < 0.8:
                psel = nsel.rsplit("/", 1)[0] if rng.random() < 0.7 else nsel.split("/", 2)[0] + "/" + nsel.split("/", 2)[1]
                if psel != nsel.rsplit("/", 1)[0]:
                    opts |= 4
            else:
                psel = "@%d" % rng.randrange(20)
                opts |= 4 if rng.random() < 0.7 else 0
            self.emit("dup:into-parent", O(rng.choice(("ds", "ds", "dd")), a, nsel, b, psel, opts))

    def g_merge(self):
        rng = self.rng
        a, b = self.slot(), self.slot(live=True)
        if a == b:
            a = (a + 1) % NSLOT
        opts = rng.choice((0, 0, 1, 1, 2, 4, 3, 5, 6, 7))
        self.emit("merge:%s" % ("destruct" if opts & 1 else "copy"), O(rng.choice(("mt", "ms", "ms")), a, b, opts))
        if opts & 1:
            self.known.pop(b, None)
        self.known.setdefault(a, self.known.get(b, []))

    def g_diff(self):
        rng = self.rng
        k = rng.randrange(7)
        if k <= 2:
            a, b = self.slot(live=True), self.slot(live=True)
            d = self.slot(live=False)
            self.emit("diff:make", O(rng.choice(("df", "df", "dft")), a, b, d, rng.randrange(2)))
            self.diffslot = d
            self.known.setdefault(d, [])
            if rng.random() < 0.6 and d not in (a, b):
                # the typical use: apply the diff to a copy of the first tree
                c = self.slot(live=False)
                if c not in (a, b, d):
                    self.emit("dup:siblings", O("dd", a, "#0", c, None, 1 | 8))
                    self.emit("diff:apply", O("da", c, d))
                    self.known.setdefault(c, self.known.get(a, []))
        elif k == 3:
            self.emit("diff:apply", O("da", self.slot(live=True), getattr(self, "diffslot", self.slot(live=True))))
        elif k == 4:
            e = self.slot(live=False)
            self.emit("diff:reverse", O("dr", getattr(self, "diffslot", self.slot(live=True)), e))
            self.known.setdefault(e, [])
        elif k == 5:
            self.emit("diff:merge", O("dm", getattr(self, "diffslot", self.slot(live=True)), self.slot(live=True), rng.randrange(2)))
        else:
            self.emit("compare", O("cmp", self.slot(live=True), self.slot(live=True), rng.randrange(4)))

    def g_validate(self):
        rng = self.rng
        s = self.slot(live=True) if rng.random() < 0.9 else self.slot()
        k = rng.randrange(6)
        vopts = rng.choice((V_PRESENT, V_PRESENT, V_PRESENT | V_MULTI, V_PRESENT | V_NOSTATE, V_PRESENT | V_OPER, V_PRESENT | V_NODFLT, V_PRESENT | V_NOTFINAL, 0, V_MULTI))
        if self.stream != "multierr":
            vopts &= ~V_MULTI
        if k <= 1:
            self.emit("validate:all", O("va", s, vopts, rng.random() < 0.4))
        elif k == 2:
            self.emit("validate:module", O("vm", s, rng.choice(list(self.schema.mods) + ["nomod", "ietf-yang-library"]), vopts & ~V_PRESENT, rng.random() < 0.4))
        elif k == 3:
            self.emit("implicit:all", O("im", s, rng.choice((0, 0, 1, 2, 8, 4, 9)), rng.random() < 0.4))
        elif k == 4:
            self.emit("implicit:tree", O("imt", s, self.nsel(s, lambda i: i.sn.kind in ("container", "list"), "@"), rng.choice((0, 1, 8)), rng.random() < 0.3))
        else:
            self.emit("leafref-link", O("ll", s))

    def g_free(self):
        rng = self.rng
        s = self.slot(live=True)
        k = rng.randrange(10)
        notkey = lambda i: not (i.parent is not None and i.sn.name in i.parent.sn.keys) or rng.random() < 0.1
        if k <= 3:
            self.emit("free:subtree", O("ft", s, self.nsel(s, notkey)))
        elif k <= 6:
            self.emit("unlink:subtree", O("ul", s, self.nsel(s, notkey), rng.random() < 0.6))
        elif k == 7:
            self.emit("free:siblings", O("fs", s, self.nsel(s, lambda i: i.parent is not None and i.parent.parent is not None)))
        elif k == 8:
            self.emit("unlink:siblings", O("us", s, self.nsel(s, notkey)))
        else:
            self.emit("free:all", O("fa", s))
            self.known.pop(s, None)

    def g_insert(self):
        rng = self.rng
        a, b = self.slot(live=True), self.slot(live=True)
        fam = rng.choice(("ic", "ic", "is", "is", "ib", "ia"))
        ta, tb = self.known.get(a), self.known.get(b)
        dsel = nsel = None
        if ta and tb and rng.random() < 0.8:
            nb = [i for i in all_insts(tb) if not (i.parent is not None and i.sn.name in i.parent.sn.keys)]
            if fam in ("ib", "ia"):
                nb = [i for i in nb if i.sn.user] or nb
            rng.shuffle(nb)
            for n in nb[:12]:
                if fam == "ic":
                    c = [i for i in all_insts(ta) if i.sn is n.sn.data_parent()]
                elif fam == "is":
                    c = [i for i in all_insts(ta) if i.sn.data_parent() is n.sn.data_parent() and i is not n]
                else:
                    c = [i for i in all_insts(ta) if i.sn is n.sn and i is not n]
                if c:
                    dsel, nsel = inst_path(rng.choice(c)), inst_path(n)
                    break
        if not dsel or not nsel:
            dsel, nsel = "%s%d" % ("@" if fam == "ic" else "#", rng.randrange(40)), "#%d" % rng.randrange(40)
        self.emit("insert:%s" % fam, O(fam, a, dsel, b, nsel))

    def xpaths(self):
        rng = self.rng
        sn = self.rand_sn(("leaf", "leaf-list", "list", "container"))
        p = self.schema_data_path(sn)
        plain = self.schema_data_path(sn, last_pred=False)
        good = [p, plain, plain + "/*", "/" + plain.split("/")[1] + "//*", "count(%s) > 1" % plain, "%s[1]" % plain, "%s[last()]" % plain, "//" + sn.name,
                "%s | %s" % (plain, "/" + plain.split("/")[1]), "..", ".", "*", "%s/.." % plain, "boolean(%s)" % plain, "current()/..", "descendant-or-self::node()",
                "%s/ancestor::*" % plain, "%s/following-sibling::*" % plain, "%s[position() mod 2 = 1]" % plain, "not(%s)" % plain, "count(%s/*) + 1" % plain,
"/*", "self::node()", "true() and %s" % plain, "(%s)[2]" % plain]
        # (`preceding-sibling::*[1]` is left out: it runs into F155 - get_node_pos() restarts its DFS with a stale element - far more often
        # than the ancestor axis does)
        # node-set -> string casts (`. = 'a'`, string(), sum(), re-match()) and deref() of other than leafref / instance-identifier leaves are
        # left to the XPath property (UB in cast_string_recursive with empty values; deref() reads the value union as a path): not ownership matters
        if sn.kind in ("leaf", "leaf-list") and self.values.base(sn) in ("leafref", "instance-identifier"):
            good.append("deref(%s)" % plain)
        bad = [plain + "/[", "//", "count(", "/nomod:x", "1 +", plain + "[k='a'", "foo()", "$var", ")", plain + "[.=]", "", "/" + sn.name, plain + "/nosuch",
               "count(1, 2)", "'unterminated", "count(1)", "1 div", "..//", "%s[", "deref()"]
        return good, bad

    def g_find(self):
        rng = self.rng
        s = self.slot(live=True)
        k = rng.randrange(12)
        good, bad = self.xpaths()
        isbad = rng.random() < 0.25
        e = rng.choice(bad if isbad else good)
        if k <= 1:
            p = good[0] if not isbad else self.bad_path(good[0])
            self.emit("find:path:%s" % ("bad" if isbad else "ok"), O("fp", s, self.nsel(s), p, rng.random() < 0.1))
        elif k <= 3:
            self.emit("find:xpath:%s" % ("bad" if isbad else "ok"), O("fx", s, self.nsel(s), e))
        elif k == 4:
            self.emit("eval:xpath:%s" % ("bad" if isbad else "ok"), O("ex", s, self.nsel(s), e))
        elif k == 5:
            sn = self.rand_sn(("leaf-list", "list", "leaf"))
            if sn.kind == "list":
                v = "".join("[%s=%s]" % (kk, _quote(self.tg.value(next(x for x in sn.data_children() if x.name == kk), 0.2)) or "'a'") for kk in sn.keys)
            else:
                v = self.tg.value(sn, 0.2)
            self.emit("find:sibling_val", O("fv", s, self.nsel(s, lambda i: i.sn.data_parent() is sn.data_parent()), sn.spath(), v if rng.random() < 0.95 else None))
        elif k == 6:
            self.emit("path", O("pth", s, self.nsel(s), rng.randrange(2)))
        elif k == 7:
            self.emit("find:dup_inst", O("di", s, self.nsel(s)))
        elif k == 8:
            self.emit("any:value_str", O("avs", s, self.nsel(s, lambda i: i.sn.kind in ("anydata", "anyxml"), "!")))
        elif k <= 10:
            self.emit("print:%s" % ("xml", "json", "lyb")[k % 3], O("pr", s, rng.randrange(3), rng.choice((0, 2, 4, 0x10, 0x20, 0x40, 0x80, 0x22))))
        else:
            self.emit("print:subtree", O("prn", s, self.nsel(s), rng.randrange(3), rng.choice((0, 2, 0x20))))

    def g_any_copy(self):
        rng = self.rng
        a = self.slot(live=True)
        isany = lambda i: i.sn.kind in ("anydata", "anyxml")
        if rng.random() < 0.5:
            self.emit("any:copy", O("ac", a, self.nsel(a, isany, "!"), self.slot(live=True), self.nsel(a, isany, "!")))
        else:
            self.emit("any:copy_str", O("acs", a, self.nsel(a, isany, "!"), rng.randrange(1, 4), rng.choice((None, "t", "<x/>", '{"a":1}', "<a>", ""))))

    def g_misc(self):
        rng = self.rng
        k = rng.randrange(4)
        if self.stream == "lrlink" and rng.random() < 0.5:
            # all the link records are released at once while the linked trees live on (second half of F114)
            self.emit("ctx:unset_leafref_linking", "culr")
        elif k == 0:
            self.emit("err_clean", "ec")
        elif k == 1:
            self.emit("dict:insert_zc", O("zc", rng.choice(("a", "description", "x" * 50, "", "lfa", "žž")), rng.randrange(1, 5)))
        else:
            sn = self.rand_sn(("leaf", "leaf-list"))
            bad = rng.random() < 0.3
            s = self.slot(live=True)
            if rng.random() < 0.5:
                self.emit("value_validate:%s" % ("bad" if bad else "ok"), O("vv", sn.spath(), self.tg.value(sn, 1.0 if bad else 0.0)))
            else:
                # context node: a sibling-to-be of the value where we know one, never an opaque node (lyd_value_validate() takes the schema of
                # the context node for granted: NULL dereference in lyplg_type_resolve_leafref_get_target_path() with a schema-less node)
                self.emit("value_validate:ctx:%s" % ("bad" if bad else "ok"),
                          O("vv", sn.spath(), self.tg.value(sn, 1.0 if bad else 0.0), s, self.nsel(s, lambda i: i.sn.data_parent() is sn.data_parent(), "$")))

    BAD_EDITS = [("type int8", "type nosuch"), ('path "../sl"', 'path "../nosuch"'), ("default 50", "default 500"), ("base base-id", "base nope"), ('key "k"', 'key "zz"'),
                 ("import ietf-yang-metadata", "import nosuch-mod"), ('range "0..100"', 'range "100..0"'), ('pattern "[a-z]*"', 'pattern "[a-"'),
                 ("when \"../a = 'on'\"", 'when "../a = "'), ("fraction-digits 2", "fraction-digits 20"), ("enum two {value 5;}", "enum two {value 0;}"),
                 ('unique "idx"', 'unique "nope"'), ('augment "/b:sys"', 'augment "/b:nosuch"'), ("import lfb", "import lfz"), ("prefix a;", "prefix a; prefix b;"),
                 ("leaf a {", "leaf sl {"), ("yang-version 1.1;", "yang-version 3;"), ("identity id-c {base id-a;}", "identity id-c {base id-c;}"),
                 ("default c2;", "default c9;"), ('must ". != ../a"', 'must ". != ../"'), ("mandatory true", "mandatory maybe"), ("if-feature ft", "if-feature nofeat"),
                 ("ordered-by user", "ordered-by nobody"), ("bit b5 {position 5;}", "bit b5 {position 0;}"), ("type leafref {path \"../if/name\";}", "type leafref {path \"../if/name\"; require-instance 7;}"),
                 ('key "x y"', 'key "x x"'), ("length \"1..4\"", "length \"4..1\""), ("max-elements 6", "max-elements 0"), ("config false;", "config false; config true;"),
                 ("type binary;", "type binary {length \"x\";}"), ("type empty;", "type empty; default 1;")]

    # module lfe<k> for set k: includes the submodule lfesub<k> the harness serves through its import callback; the submodule imports the
    # base module of the set under a prefix of its own (q) and derives identities from it; a LATE failure of the load (after the
    # identities were linked into the surviving base's `derived` array) has to unlink all of them again
    LFE = ["lfa", "lfb", "lfd"]
    LFE_BASE = ["base-id", "proto", "kind"]
    LFE_LATE = [("default 50", "default 500"), ('path "../el"', 'path "../nosuch"'), ("base em1", "base nope"), ("type int8 {", "type nosuch {"),
                ('must "../el"', 'must "../el +"'), None, None]

    def lfe_text(self, k, edit):
        b, base = self.LFE[k], self.LFE_BASE[k]
        t = ("module lfe%d {yang-version 1.1; namespace \"urn:lfe%d\"; prefix e; import %s {prefix p;} include lfesub%d;\n"
             " identity em1 {base p:%s;} identity em2 {base em1;}\n"
             " container ec {leaf el {type int8 {range \"0..100\";} default 50;} leaf er {type leafref {path \"../el\";}}\n"
             "  leaf ei {must \"../el\"; type identityref {base p:%s;}} leaf ej {type identityref {base em1;}}}\n}\n") % (k, k, b, k, base, base)
        if edit:
            t = t.replace(edit[0], edit[1], 1)
        return t

    def g_schema(self, early, force_lfe=False):
        rng = self.rng
        if force_lfe or rng.random() < 0.22:
            # a module with a submodule of the kind described above, mostly failing late; followed by identityref data of the base module
            e = rng.choice(self.LFE_LATE)
            self.emit("schema:%s:submodule-identities" % ("bad-late" if e else "good"), O("ymod", False, self.lfe_text(self.set, e).encode()))
            self.known = {}
            self.diffslot = 0
            return
        k = rng.randrange(10)
        other = [i for i in range(NSETS) if i != self.set]
        if k <= 4:
            # a broken variant of a module (of another set: new to this context; or of this set: name clash)
            si = rng.choice(other) if rng.random() < 0.7 else self.set
            yin = rng.random() < 0.3
            texts = self.yin[si] if yin else self.texts[si]
            t = texts[0]
            how = rng.randrange(4)
            if how <= 1 and not yin:
                edits = [e for e in self.BAD_EDITS if e[0] in t]
                if edits:
                    a, b = rng.choice(edits)
                    t = t.replace(a, b, 1)
                else:
                    t = t[:rng.randrange(len(t))]
            elif how == 2:
                t = t[:rng.randrange(len(t))]
            else:
                t = corrupt(rng, t, 0)
            self.emit("schema:bad:%s" % ("yin" if yin else "yang"), O("ymod", yin, t.encode("utf-8", "surrogateescape")))
        elif k == 5:
            self.emit("schema:load-unknown", O("lmod", rng.choice(("nosuch-module", "ietf-interfaces", "lfz", "")), rng.choice((None, "2020-01-01", "bad"))))
        elif k == 6:
            self.emit("schema:load-internal", O("lmod", rng.choice(("ietf-inet-types", "ietf-yang-types", "ietf-datastores", "yang")), rng.choice((None, None, "1999-01-01"))))
        elif k == 7:
            m = rng.choice(list(self.schema.mods.values()))
            feats = rng.choice((None, "", "*", ",".join(m.features) if m.features else "nofeat", "nofeat", "ft,ft"))
            self.emit("schema:set_implemented", O("impl", rng.choice((m.name, m.name, "ietf-inet-types", "nomod")), feats))
        elif k == 8:
            self.emit("schema:reparse-own", O("yinself", rng.choice(list(self.schema.mods) + YIN_SAFE), rng.randrange(2)))
        else:
            # a good module of another set: from now on data of both sets can be built
            si = rng.choice(other)
            ok = True
            for j, t in enumerate(self.texts[si]):
                yin = rng.random() < 0.3
                self.emit("schema:good:%s" % ("yin" if yin else "yang"), O("ymod", yin, (self.yin[si][j] if yin else t).encode()))
            if ok and rng.random() < 0.5:
                self.set = si
                self.schema, self.values = self.schemas[si]
                self.tg = TreeGen(self.schema, self.values, rng)
                self.doc = Doc(self.schema, self.values, rng)
        self.known = {}
        self.diffslot = 0

    FAMILIES = [("g_parse", 14), ("g_parse_sub", 3), ("g_roundtrip", 3), ("g_parse_op", 3), ("g_new_path", 10), ("g_new_node", 13), ("g_meta", 4), ("g_change", 7),
                ("g_dup", 7), ("g_merge", 6), ("g_diff", 7), ("g_validate", 6), ("g_free", 9), ("g_insert", 6), ("g_find", 11), ("g_any_copy", 2), ("g_misc", 3)]

    def whendel_prefix(self):
        """the tree just parsed was validated with its `when` conditions true: make one of them false and validate again"""
        rng = self.rng
        for s, tops in list(self.known.items()):
            c = []
            for i in all_insts(tops):
                w = i.sn.st.arg_of("when")
                m = re.fullmatch(r"\.\./([\w:-]+)(?: = '(\w+)')?", w) if (w and i.parent is not None) else None
                if m:
                    dep = next((x for x in i.parent.children if x.sn.name == m.group(1).rpartition(":")[2]), None)
                    if dep is not None and dep.sn.kind == "leaf":
                        c.append((i, dep, m.group(2)))
            if not c:
                continue
            i, dep, val = rng.choice(c)
            p = inst_path(dep)
            if not p:
                continue
            if val is not None:
                self.emit("whendel:change-dependency:%s" % i.sn.name, O("ct", s, p, rng.choice(("off", "x", "b")), 0))
            else:
                self.emit("whendel:free-dependency:%s" % i.sn.name, O("ft", s, p))
            self.emit("validate:all", O("va", s, rng.choice((V_PRESENT, 0, V_PRESENT | V_NOSTATE)), 0))
            return

    def history(self, stream="main", nops=None):
        rng = self.rng
        self.begin(rng.randrange(NSETS), stream)
        self.diffslot = 0
        nops = nops or rng.choice((4, 8, 12, 16, 20, 24, 32, 40))
        set0 = self.set
        ctxopts = rng.choice((0, 0, 0, 4, 4, 4, 0x40, 0x200 | 4, 0x02 | 4))
        if stream == "lrlink":
            ctxopts = 0x400 | rng.choice((0, 4))
        if rng.random() < 0.15:
            for _ in range(rng.randrange(1, 4)):
                self.g_schema(True)
        if stream == "subident":
            # failed (late) loads of a module whose submodule derives identities from a surviving module, then identityref data
            for _ in range(rng.randrange(1, 3)):
                self.g_schema(True, force_lfe=True)
        fams = [f for f, w in self.FAMILIES for _ in range(w)]
        if stream == "subident":
            fams += ["g_parse"] * 20 + ["g_new_path"] * 10
        if stream == "f19":
            fams += ["g_change"] * 25
        if stream == "f111":
            fams += ["g_new_path"] * 25
        if stream == "opaq":
            # opaque nodes are kept away from merge and diff (NULL dereferences in lyd_merge_sibling_r / lyds_insert2 with
            # schema-less nodes: C04/C05 matter, not an ownership question)
            fams = [f for f in fams if f not in ("g_merge", "g_diff")] + ["g_new_node"] * 6 + ["g_meta"] * 4
        if stream == "multierr":
            fams += ["g_parse"] * 30
        if stream == "subval":
            fams += ["g_parse_sub"] * 30
        if stream == "whendel":
            # validated data whose `when` conditions hold, then the node the conditions read is changed and the data are
            # validated again: auto-delete of when-false nodes (also typed ones waiting in the unres sets)
            fams += ["g_change"] * 14 + ["g_validate"] * 14 + ["g_parse"] * 4
        # start with something alive
        self.g_parse()
        if stream == "whendel":
            self.whendel_prefix()
        while len(self.ops) < nops:
            if rng.random() < 0.012:
                self.g_schema(False)
                self.g_parse()
                continue
            if not self.known:
                rng.choice((self.g_parse, self.g_parse, self.g_new_path, self.g_parse_op))()
                continue
            getattr(self, rng.choice(fams))()
        return set0, ctxopts, list(self.ops), list(self.kinds)


# ---------------------------------------------------------------------------------------------------------------
# hand seeds, running, laws, classification

def seed_f19(i=0):
    """minimal history of F19: children sl=1, sl=2, a, b; change sl=1 to 5; free that node; look the old value up"""
    return 0, 0, [O("np", 0, 0, "/lfa:c/sl", "1"), O("np", 0, 0, "/lfa:c/sl", "2"), O("np", 0, 0, "/lfa:c/a", "x"), O("np", 0, 0, "/lfa:c/b", "x"),
                  O("ct", 0, "/lfa:c/sl[.='1']", "5", 1), O("ft", 0, "/lfa:c/sl[.='5']")]


def seed_f19_key():
    return 0, 0, [O("np", 0, 0, "/lfa:c/li[k='a']/v", "1"), O("np", 0, 0, "/lfa:c/li[k='b']/v", "2"), O("np", 0, 0, "/lfa:c/a", "x"), O("np", 0, 0, "/lfa:c/b", "x"),
                  O("ct", 0, "/lfa:c/li[k='a']/k", "q", 1), O("ft", 0, "/lfa:c/li[k='q']")]


def seed_f21():
    """failed YIN parse of libyang's own YIN print of the internal module `yang` (F20) leaves "description" in the dictionary"""
    return 0, FORCE_LSAN, [O("yinself", "yang", 1)]


def seed_f111():
    return 0, 0, [O("np", 0, 0, "/lfa:c/ax", "aaa"), O("np", 0, NP_UPDATE, "/lfa:c/ax", "bbb"), O("pr", 0, 0, 0)]


def seed_f112():
    """lyd_insert_sibling(sibling, node) where node is the first sibling of `sibling`"""
    return 0, FORCE_LSAN, [O("px", 0, 0, P_ONLY, 0, '<c xmlns="urn:lfa"><ksl><s1>a</s1><s2>1</s2></ksl></c>'), O("is", 0, "/lfa:c/ksl[1]/s2", 0, "/lfa:c/ksl[1]/s1", 1)]


def seed_f113():
    """LYD_VALIDATE_MULTI_ERROR: the parser goes on after an error; the subtree under construction is lost"""
    return 2, FORCE_LSAN, [O("px", 0, 0, 0, V_PRESENT | V_MULTI, '<r xmlns="urn:lfd"><a><n>-2147483645</n><b><x>2</x><y>lo')]


def seed_f114():
    """LY_CTX_LEAFREF_LINKING: freeing a tree with several leafref links"""
    doc = ('{"lfb:sys":{"name":"on","if":[{"name":"a","idx":1}],"ref":"a","lfc:rt":[{"dst":"on","pfx":32,"via":"a"},{"dst":"x","pfx":1,"via":"a"},'
           '{"dst":"y","pfx":2,"via":"a"},{"dst":"z","pfx":3,"via":"a"},{"dst":"w","pfx":4,"via":"a"}]},"lfc:cfg":{"mode":"a"}}')
    return 1, 0x400 | 4, [O("px", 1, 1, 0, V_PRESENT, doc)]


def seed_f114b(n=30):
    """LY_CTX_LEAFREF_LINKING switched off while linked data exist: lyht_free() walks the table its value callback removes records from
    (whether a removal shrinks the table at a bad moment depends on the record count and the node addresses: several sizes)"""
    doc = ('{"lfb:sys":{"name":"on","if":[{"name":"a","idx":1}],"ref":"a","lfc:rt":[' +
           ",".join('{"dst":"d%d","pfx":%d,"via":"a"}' % (i, i % 33) for i in range(n)) + ']},"lfc:cfg":{"mode":"a"}}')
    return 1, 0x400 | 4, [O("px", 1, 1, 0, V_PRESENT, doc), "culr"]


def seed_f115():
    """lyd_parse_data() with a parent and full validation that fails: implicit top-level nodes made by the validation are lost"""
    return 0, FORCE_LSAN, [O("px", 2, 0, P_ONLY, 0, '<c xmlns="urn:lfa"><li><k>b</k><ic><x>on</x></ic></li></c>'), O("pinp", 2, "/lfa:c/li[k='b']/ic", 1, P_STRICT, 0, "{}")]


def seed_f119():
    """lyd_parse_data() with a parent and validation: the first parsed child (empty container of another case) is auto-deleted"""
    return 2, 4, [O("np", 2, 0, "/lfd:r/ki[k='lfd:k2']", None), O("pinp", 2, "/lfd:r", 0, P_STRICT, V_PRESENT, '<m2 xmlns="urn:lfd"></m2>')]


def seed_f440():
    """lyd_parse_data() with a parent, validation, no output pointer and a document without nodes: lyd_validate(NULL)"""
    return 0, 4, [O("px", 2, 0, P_ONLY, 0, '<c xmlns="urn:lfa"><li><k>b</k></li></c>'), O("pinp", 2, "/lfa:c/li[k='b']", 0, P_STRICT, V_PRESENT, "", 1)]


def seed_f442():
    """failed lyd_parse_data() of a JSON document under a parent: list and leaf-list instances stay in the parent"""
    return 0, 4, [O("px", 2, 0, P_ONLY, 0, '<c xmlns="urn:lfa"><a>x</a></c>'), O("pinp", 2, "/lfa:c", 1, P_STRICT, V_PRESENT, '{"lfa:sl":[1,2],"lfa:li":[{"k":"q"}],"lfa:a":[]}')]


def seed_f441():
    """lyd_parse_data() with a parent whose validation fails: *tree keeps pointing to the freed first parsed child"""
    return 2, 4, [O("px", 2, 0, P_ONLY, 0, '<r xmlns="urn:lfd"><m1>x</m1></r>'), O("pinp", 2, "/lfd:r", 0, P_STRICT, V_PRESENT, '<m2 xmlns="urn:lfd"><q>1</q></m2>')]


def seed_f121():
    """LYB parse without LYD_PARSE_OPAQ of data that hold an opaque node with XML prefix data"""
    return 0, FORCE_LSAN | 4, [O("no", 2, None, "lfa", "c", "a&b", "pfx", 1), O("rt", 2, 3, 2, 2, P_ONLY, 0)]


def seed_f123():
    """lyd_insert_sibling() of a first top-level sibling with followers (all are moved) into siblings that hold an instance of the same list"""
    return 0, FORCE_LSAN | 4, [O("px", 2, 0, P_ONLY, 0, '<top xmlns="urn:lfa">x</top><tli xmlns="urn:lfa"><k>b</k></tli>'),
                               O("px", 5, 0, P_ONLY, 0, '<c xmlns="urn:lfa"><a>q</a></c><tli xmlns="urn:lfa"><k>x</k></tli>'), O("is", 5, "/lfa:tli[k='x']", 2, "/lfa:top", 2)]


def seed_f123b():
    return 0, FORCE_LSAN | 4, [O("px", 2, 0, P_ONLY, 0, '<top xmlns="urn:lfa">x</top><tli xmlns="urn:lfa"><k>b</k><v>a</v></tli><tli xmlns="urn:lfa"><k>x</k><v>on</v></tli>'),
                               O("px", 5, 0, P_ONLY, 0, '<c xmlns="urn:lfa"><li><k>a</k></li></c><tli xmlns="urn:lfa"><k>b</k><v>a</v></tli><tli xmlns="urn:lfa"><k>x</k><v>on</v></tli>'),
                               O("is", 5, "/lfa:tli[k='x']", 2, "/lfa:top", 2)]


def seed_f124():
    """lyd_diff_apply_all() with a diff that creates a user-ordered leaf-list instance but lacks the yang:value metadata"""
    return 1, FORCE_LSAN | 4, [O("px", 0, 0, P_ONLY, 0, '<dns xmlns="urn:lfb">abc</dns>'), O("nm", 0, "/lfb:dns[.='abc']", "yang", "operation", "create", 0),
                               O("px", 2, 0, P_ONLY, 0, '<dns xmlns="urn:lfb">x</dns>'), O("da", 2, 0)]


def seed_f125():
    """XPath node set that has to be sorted with a node that precedes the previously positioned one (ancestor axis), data with two top-level siblings"""
    return 1, 4, [O("px", 0, 0, P_ONLY, 0, '<sys xmlns="urn:lfb"><st><up>1</up></st></sys><dns xmlns="urn:lfb">x</dns>'), O("fx", 0, "/lfb:sys/st/up", "ancestor::*")]


def seed_f126():
    """LYB print of an anyxml node whose value was released by lyd_any_copy_value(node, NULL, ...)"""
    return 0, 4, [O("px", 0, 0, P_ONLY, 0, '<c xmlns="urn:lfa"><ax>t</ax></c>'), O("acs", 0, "/lfa:c/ax", 3, None), O("pr", 0, 2, 0)]


def seed_f127():
    """LY_CTX_LEAFREF_LINKING: leafref validation that succeeds without a target set (path not applicable from the context node / target disabled)"""
    return 1, 0x400 | 4, [O("px", 5, 0, P_ONLY, 0, '<sys xmlns="urn:lfb"><name>abc</name><al xmlns="urn:lfc">-1</al></sys>'),
                          O("vv", "/lfb:sys/lfb:ref", "a", 5, "/lfb:sys/lfc:al[.='-1']")]


def seed_f128(fmt=0):
    """error in the third child of an anydata node: only the first of the children parsed so far is released"""
    if fmt:
        return 0, FORCE_LSAN | 4, [O("px", 0, 1, 0, V_PRESENT, '{"lfa:c":{"ad":{"lfa:top":"a","lfa:tl":[1],"lfa:tli":[{"k":"a","v":"x","v":"y"}]}}}')]
    return 0, FORCE_LSAN | 4, [O("px", 0, 0, 0, V_PRESENT, '<c xmlns="urn:lfa"><ad><top xmlns="urn:lfa">a</top><tl xmlns="urn:lfa">1</tl>'
                                 '<tli xmlns="urn:lfa"><k>a</k><v>x</v><v>y</v></tli></ad></c>')]


def seed_f116():
    """a failing XML print (anydata node with a string value) does not release the namespace sets of the printer"""
    return 0, FORCE_LSAN, [O("px", 4, 0, P_ONLY, 0, '<c xmlns="urn:lfa"><ad><x/></ad></c>'), O("acs", 4, "/lfa:c/ad", 3, '{"a":1}', 1), O("pr", 4, 0, 0)]


def hist_line(i, set_idx, ctxopts, ops):
    return "%d life hist %d %d %s" % (i, set_idx, ctxopts, ";".join(ops))


def parse_reply(r):
    if not r or r[0] != "ok":
        return None
    d = {}
    for t in r[1:]:
        k, _, v = t.partition("=")
        d[k] = v
    return d


def decode_ops(line):
    """[(name, [args as str/bytes])] of a history request line"""
    toks = line.split()
    if len(toks) < 6:
        return []
    out = []
    for o in toks[5].split(";"):
        p = o.split(":")
        args = []
        for a in p[1:]:
            if a == "~":
                args.append(None)
            elif a == "-":
                args.append(b"")
            else:
                try:
                    args.append(bytes.fromhex(a) if (len(a) % 2 == 0 and re.fullmatch(r"[0-9a-f]+", a) and not a.isdigit()) else a)
                except ValueError:
                    args.append(a)
        out.append((p[0], args, p[1:]))
    return out


ANY_NAMES = (b"/ad", b"/ax")


def _has_f19_op(line):
    for name, args, raw in decode_ops(line):
        if name in ("ct", "ctb") and len(raw) >= 4 and raw[3] == "1":
            return True
    return False


def _has_f111_op(line):
    for name, args, raw in decode_ops(line):
        if name == "np" and len(raw) >= 3 and raw[1].isdigit() and int(raw[1]) & NP_UPDATE:
            try:
                path = bytes.fromhex(raw[2])
            except ValueError:
                continue
            if path.endswith(ANY_NAMES):
                return True
        if name == "np2" and len(raw) >= 4 and raw[2].isdigit() and int(raw[2]) & NP_UPDATE:
            try:
                path = bytes.fromhex(raw[3])
            except ValueError:
                continue
            if path.endswith(ANY_NAMES):
                return True
    return False


def _only_failed_yin_witness(line):
    ops = decode_ops(line)
    return len(ops) == 1 and ops[0][0] == "yinself" and ops[0][2] == [hexs("yang"), "1"]


def _ops_with(line, names, pred):
    for name, args, raw in decode_ops(line):
        if name in names:
            try:
                if pred(name, raw):
                    return True
            except (ValueError, IndexError):
                pass
    return False


def _has_multierr_parse(line):
    vo = {"px": 3, "pin": 3, "pinp": 4, "rt": 5}
    return _ops_with(line, vo, lambda n, r: int(r[vo[n]]) & V_MULTI)


def _has_full_validation_subparse(line):
    return _ops_with(line, ("pinp",), lambda n, r: not (int(r[3]) & P_ONLY) and not (int(r[4]) & V_PRESENT))


def _ctxopts(line):
    t = line.split()
    return int(t[4]) if len(t) > 4 and t[4].isdigit() else 0


def _has_destruct_merge(line):
    return _ops_with(line, ("mt", "ms"), lambda n, r: int(r[2]) & 1)


def _has_validating_subparse(line):
    return _ops_with(line, ("pinp",), lambda n, r: int(r[3]) & P_ONLY != P_ONLY)


def _has_notree_subparse(line):
    """a validating lyd_parse_data() with a parent and without an output pointer"""
    return _ops_with(line, ("pinp",), lambda n, r: int(r[3]) & P_ONLY != P_ONLY and len(r) > 6 and r[6] == "1")


def _failed_subparse(line, rep):
    """a subtree parse (lyd_parse_data with a parent) of the history failed, or succeeded with full validation (and handed out a
    top-level implicit node)"""
    rcs = re.search(r"rc=(\S+)", rep)
    rcs = rcs.group(1).split(",") if rcs else []
    for i, (name, args, raw) in enumerate(decode_ops(line)):
        if name == "pinp" and i < len(rcs) and rcs[i] != "-1":
            try:
                po, vo = int(raw[3]), int(raw[4])
            except (ValueError, IndexError):
                continue
            if rcs[i] != "0" or (po & P_ONLY != P_ONLY and not (vo & V_PRESENT)):
                return True
    return False


def _has_lyb_parse_without_opaq(line):
    return _ops_with(line, ("rt",), lambda n, r: r[2] == "2" and not (int(r[4]) & P_OPAQ))


def _failed_parse_with_any_content(line, rep):
    """a parse op that failed and whose document (or, for rt, some tree of the history) carries an anydata node with children"""
    rcs = re.search(r"rc=(\S+)", rep)
    rcs = rcs.group(1).split(",") if rcs else []
    ops = decode_ops(line)
    anynames = (b"<ad>", b"<ad ", b'"ad":{"', b'"ad": {"')
    hist_has_any = any(o[0] in ("nad", "na") or any(isinstance(a, bytes) and any(x in a for x in anynames) for a in o[1]) for o in ops)
    for i, o in enumerate(ops):
        if i >= len(rcs) or rcs[i] in ("0", "-1"):
            continue
        if o[0] in ("px", "pin", "pinp", "pop") and any(isinstance(a, bytes) and any(x in a for x in anynames) for a in o[1]):
            return True
        if o[0] == "rt" and hist_has_any:
            return True
    return False


UB_SIGNATURES = [
    # (finding, function of frame #0, fragment of the UBSan message, extra condition on the history)
    ("F117", "lyht_dup_inst_ht_equal_cb", "applying zero offset to null pointer", None),
    ("F118", "lyd_diff_userord_attrs", "applying non-zero offset", None),
    ("F150", "rb_compare_lists", "member access within null pointer", _has_destruct_merge),
    ("F156", "lyb_print_node_any", "null pointer passed as argument", lambda line: _ops_with(line, ("acs",), lambda n, r: r[3] == "~")),
    ("F157", "lyplg_type_validate_leafref", "member access within null pointer of type 'struct ly set'", lambda line: bool(_ctxopts(line) & 0x400)),
    ("F155", "get_node_pos", "member access within null pointer", lambda line: _ops_with(line, ("fx", "ex"), lambda n, r: True)),
    ("F440", "lyd_validate", "load of null pointer", lambda line: _has_notree_subparse(line)),
]


def classify(component, what, case):
    """id of the known finding this failing case is an instance of, or None.  Deliberately narrow: a different leak /
    use-after-free must stay unclassified."""
    if component != "life" or not isinstance(case, dict):
        return None
    line = case.get("line") or ""
    if case.get("crash"):
        err = case.get("stderr", "")
        m = re.search(r"VERIF ERROR: AddressSanitizer: (\S+) frames=(\S*)(?: freedby=(\S*))?", err)
        if not m:
            u = re.search(r"VERIF ERROR: UBSan: (\S+) frames=(\S*)", err)
            if u:
                msg, fr = u.group(1).replace("_", " "), u.group(2).split(",")
                for fid, fn, frag, cond in UB_SIGNATURES:
                    if fr and fr[0] == fn and frag in msg and (cond is None or cond(line)):
                        return fid
            if re.search(r"src/validation\.c:\d+:\d+: runtime error: load of null pointer of type 'struct lyd_node \*'", err) and _has_notree_subparse(line):
                # F440 when the report was written but the process did not get as far as the summary line (killed by the alarm)
                return "F440"
            return None
        kind, frames, freedby = m.group(1), m.group(2).split(","), (m.group(3) or "").split(",")
        if kind == "heap-use-after-free" and _has_f19_op(line) and "lyd_hash_table_val_equal" in frames and \
                any(f.startswith(("lyht_find", "lyht_remove", "lyht_insert", "_lyht_")) for f in frames):
            # the stale record left by the value change: the freed node is read through its parent's children hash table
            return "F19"
        if kind == "heap-use-after-free" and _has_f111_op(line) and "tmp_free" in freedby:
            # the library kept the caller's value pointer of a lyd_new_path(UPDATE) on an existing anydata/anyxml node
            return "F111"
        if kind == "heap-use-after-free" and _has_multierr_parse(line) and "lyd_validate_unres" in frames and \
                any(f.startswith(("lydxml_", "lydjson_", "lyd_parse")) for f in freedby):
            return "F113"
        if kind == "heap-buffer-overflow" and "lyd_diff_userord_attrs" in frames[:2]:
            return "F118"
        if kind == "heap-use-after-free" and (_ctxopts(line) & 0x400) and any(f.startswith("lyd_free_leafref") for f in frames[:3]):
            return "F114"
        if kind == "heap-use-after-free" and _has_validating_subparse(line) and "lyd_parse" in frames[:8] and \
                any(f.startswith("lyd_validate_autodel") for f in freedby):
            return "F119"
        return None
    rep = case.get("reply") or ""
    lk = re.search(r"leakat=(\S+)", rep)
    leakat = lk.group(1) if lk else "-"
    law = re.search(r"\[(\w+)=", what)
    law = law.group(1) if law else ("sfail" if what.startswith("failed schema load") else "")
    if _only_failed_yin_witness(line) and law in ("sfail", "warn", "leak"):
        return "F21"
    sf = re.search(r"sfail=(\S+)", rep)
    sf = [int(x) for x in sf.group(1).split(",")] if sf and sf.group(1) != "-" else []
    ops = decode_ops(line)
    rcs = re.search(r"rc=(\S+)", rep)
    rcs = rcs.group(1).split(",") if rcs else []
    yin = lambda o: (o[0] == "ymod" and o[2][0] == "1") or (o[0] == "yinself" and o[2][1] == "1")
    failed_yin = [i for i, o in enumerate(ops) if yin(o) and i < len(rcs) and rcs[i] not in ("0", "-1")]
    only_yin_changes = all(i in failed_yin for i in sf) and re.search(r"drec=0 dref=0 mid=0 ", rep) is not None
    if law in ("sfail", "warn", "leak") and failed_yin and only_yin_changes and (sf or law == "leak") and \
            leakat.startswith("yin_parse_element_generic<yin_parse_extension_instance"):
        # F21 through a generated (corrupted) YIN document: the statement under construction in yin_parse_extension_instance() and
        # its dictionary strings are lost when the parse of the extension instance fails; nothing else in the history changed the dictionary
        return "F21"
    if sf and law in ("sfail", "warn") and only_yin_changes:
        # every dictionary change of the history happened in a failed YIN parse
        return "F152"
    if sf and law == "sfail" and all(i in failed_yin for i in sf):
        # the law names the ops itself: all of them failed YIN parses, whatever else went wrong in the history
        return "F152"
    if law == "eint" and _has_f19_op(line):
        # second face of F19: the double insertion / the removal of the stale record fails inside the hash table code
        return "F19"
    if law in ("integ", "leak", "drec", "dref", "warn") and _ops_with(line, ("is",), lambda n, r: len(r) > 4 and r[4] == "1"):
        return "F112"
    if law in ("integ", "leak", "drec", "dref", "warn") and _ops_with(line, ("is", "ic"), lambda n, r: len(r) > 4 and r[4] == "2"):
        return "F153"
    if law in ("drec", "dref", "mid", "warn", "leak") and _has_multierr_parse(line) and \
            (law != "leak" or leakat.startswith(("lyd_create_", "lyd_parser_", "lydxml_", "lydjson_", "lyd_new_implicit", "ly_set_", "-"))):
        return "F113"
    if law in ("leak", "drec", "dref", "warn") and leakat.startswith(("lyd_create_", "lyd_new_implicit")) and _has_full_validation_subparse(line):
        # the lost implicit nodes (and, when they are terminal nodes, the dictionary strings they hold)
        return "F115"
    if law == "left" and _ops_with(line, ("pinp",), lambda n, r: r[2] == "1"):
        # JSON: the instances of a list / leaf-list (array members) are not remembered as parsed
        return "F442"
    if law == "onn" and _failed_subparse(line, rep):
        # *tree of a failed lyd_parse_data(parent) is the first child of the parent / the (freed) first parsed child
        return "F441"
    if law in ("leak", "eint") and _ops_with(line, ("ac", "acs"), lambda n, r: len(r) > 4 and r[4] == "1") and \
            (law == "eint" or leakat.startswith(("ly_set_add<xml_print_ns", "-"))):
        return "F116"
    if law in ("leak", "drec", "dref", "warn", "mid") and _failed_parse_with_any_content(line, rep) and \
            ("<lydxml_subtree" in leakat or "<lydjson_" in leakat or leakat.startswith(("lyds_", "lyd_create_meta<lyds_"))):
        return "F158"
    if law == "leak" and _has_lyb_parse_without_opaq(line) and "lyb_parse_prefix_data" in leakat:
        return "F151"
    if law in ("leak", "drec", "dref", "warn", "mid") and leakat.startswith("lyd_dup_r<lyd_dup<lyd_diff_apply_r") and _ops_with(line, ("da",), lambda n, r: True):
        rcs = re.search(r"rc=(\S+)", rep)
        rcs = rcs.group(1).split(",") if rcs else []
        if any(o[0] == "da" and i < len(rcs) and rcs[i] not in ("0", "-1") for i, o in enumerate(decode_ops(line))):
            return "F154"
    return None


LAWS = [("drec", "dictionary records differ from the baseline after all trees were freed"),
        ("dref", "dictionary reference counts differ from the baseline after all trees were freed"),
        ("mid", "dictionary differs from the baseline at an intermediate all-freed point"),
        ("warn", "dictionary warning at ly_ctx_destroy (string not freed)"),
        ("leak", "memory leak reported by LeakSanitizer"),
        ("onn", "a failing call left a non-NULL output"),
        ("left", "a failing lyd_parse_data(parent) left parsed nodes in the parent"),
        ("integ", "node links broken after an operation (integrity walk)")]


def evaluate(cx, line, rep, kinds=None):
    """laws on one reply; returns True when the history was clean"""
    d = parse_reply(rep)
    if d is None:
        if rep and rep[:2] in (["err", "Crash"], ["err", "Timeout"]):
            return False        # recorded by run_impl
        cx.fail("life", "harness refused the history: %s" % " ".join(rep or ["no reply"]), {"line": line, "reply": rep})
        return False
    clean = True
    case = {"line": line, "reply": " ".join(rep)}
    if d.get("sfail", "-") != "-":
        clean = False
        cx.fail("life", "failed schema load changed the dictionary (ops %s)" % d["sfail"], case)
    for key, text in LAWS:
        if d.get(key, "0") not in ("0", "-"):
            clean = False
            cx.fail("life", "%s [%s=%s]" % (text, key, d[key]), case)
    if d.get("eint", "0") != "0":
        # LY_EINT / "Internal error" messages are counted, not judged (lyd_new_any() reports unparsable anydata text that way)
        cx.dist["life:note:internal-error-logged"] += 1
    if d.get("lost", "0") != "0":
        # recorded, not a C17 law: an instance that its own sibling lookup does not find (C04 territory)
        cx.dist["life:note:lookup-miss"] += 1
    return clean


def _bucket(n):
    for b in (4, 8, 16, 24, 32, 48):
        if n <= b:
            return "<=%d" % b
    return ">48"


def _summary(err):
    for l in err.split("\n"):
        if "VERIF ERROR" in l:
            return l.strip()[:300]
    for l in err.split("\n"):
        if "ERROR: AddressSanitizer" in l or "runtime error:" in l or "ERROR: LeakSanitizer" in l:
            return l.strip()[:300]
    tail = [l for l in err.strip().split("\n") if l.strip()]
    return tail[-1][:300] if tail else ""


def _run_parallel(cx, lines, workers):
    """Several harness processes side by side.  Every history runs in its own forked child anyway, so the split does not
    change any result; crashes are reported afterwards in request order (same shape as Cx.run_impl reports them)."""
    from vlib import proto
    exe = cx.harness(HARNESS)     # build once, outside the threads
    workers = max(1, min(workers, len(lines) // 8 or 1))
    chunks = [lines[i::workers] for i in range(workers)]
    out, crashes = {}, []
    with concurrent.futures.ThreadPoolExecutor(workers) as ex:
        for r, c in ex.map(lambda ch: proto.run_lines([exe], ch, timeout=3600, env=ENV), chunks):
            out.update(r)
            crashes += c
    order = {l.split()[0]: i for i, l in enumerate(lines)}
    for c in sorted(crashes, key=lambda c: order.get(c.get("id"), len(order))):
        err = c.get("stderr", "")
        if c.get("at_exit"):
            cx.fail("life", "harness exit status %s after the last request: %s" % (c.get("rc"), _summary(err)),
                    {"line": None, "stderr": err[-1500:], "crash": True, "at_exit": True})
        else:
            cx.fail("life", "harness aborted (%s rc=%s): %s" % (c.get("kind"), c.get("rc"), _summary(err)),
                    {"line": c.get("line"), "stderr": err[-1500:], "crash": True})
    return out


def load_schemas(cx):
    lines = ["s%d life schema %d" % (i, i) for i in range(NSETS)] + ["y%d life printset %d 1" % (i, i) for i in range(NSETS)]
    rep = cx.run_impl(HARNESS, lines, component="life")
    texts, yins, schemas = [], [], []
    for i in range(NSETS):
        r, y = rep.get("s%d" % i), rep.get("y%d" % i)
        if not r or r[0] != "ok" or not y or y[0] != "ok":
            raise RuntimeError("api_life does not report its built-in schema set %d: %s %s" % (i, r, y))
        t = [unhex(x).decode() for x in r[1:]]
        texts.append(t)
        yins.append([unhex(x).decode() for x in y[1:]])
        s = Schema(t)
        schemas.append((s, Values(s)))
    return texts, yins, schemas


def corpus_lines():
    d = os.path.join(os.path.dirname(os.path.dirname(os.path.dirname(os.path.abspath(__file__)))), "corpus", "life")
    out = []
    if os.path.isdir(d):
        for f in sorted(os.listdir(d)):
            if f.endswith(".hist"):
                for l in open(os.path.join(d, f)):
                    l = l.strip()
                    if l and not l.startswith("#"):
                        out.append((f, l))
    return out


def exhaustive_small(gen):
    """every op family once on each schema set, right after one valid parse (plus the family alone on an empty context)"""
    out = []
    for si in range(NSETS):
        for fam, _ in HistGen.FAMILIES + [("g_schema", 0)]:
            for pre in (True, False):
                gen.begin(si, "main")
                gen.diffslot = 0
                if pre:
                    gen.g_parse()
                    gen.g_parse()
                if fam == "g_schema":
                    gen.g_schema(True)
                else:
                    getattr(gen, fam)()
                    getattr(gen, fam)()
                out.append((si, 4, list(gen.ops), list(gen.kinds), "main"))
    return out


def run_life(cx, workers=None):
    rng = cx.sub_rng("life")
    texts, yins, schemas = load_schemas(cx)
    gen = HistGen(rng, schemas, texts, yins, cx.tier == "thorough")
    workers = workers or int(os.environ.get("VERIF_LIFE_WORKERS", "4" if cx.tier == "thorough" else "3"))
    cx.rule("life: API histories of 4-40 operations (parse XML/JSON/LYB/operations, lyd_new_*, change, dup, merge, diff, validate, insert, unlink/free, find, print, "
            "dictionary, schema loads good and bad) on 6 tree slots over 3 built-in schema sets; arguments drawn per leaf type from pools of valid and invalid "
            "lexicals, documents built from a generated instance tree (repaired to validity when validated) and corrupted with probability 0.22; each history in a "
            "fresh context and a fresh process image, laws evaluated per history (dictionary records/refcounts back at baseline, no warning at ly_ctx_destroy, "
            "LeakSanitizer, failed schema load leaves the dictionary alone, NULL outputs on failure, node links); first the witnesses of the known findings and "
            "every op family on every schema set; features with known defects only in separate sub-streams: value change of leaf-list instances / list keys (F19, "
            "12%), lyd_new_path(UPDATE) on any nodes (F111, 3%), LYD_VALIDATE_MULTI_ERROR parses (F113, 3%), LY_CTX_LEAFREF_LINKING (F114, 2%), opaque nodes (12%, no "
            "merge/diff), validated subtree parses (F119, 2%), late-failing loads of a module whose submodule derives identities from a surviving module under a prefix of its own (4%); non-trivial = distinct history whose reply reports at least one successful and one failing library call")

    hist = []       # (set, ctxopts, ops, kinds, stream)
    for s in (seed_f19(), seed_f19_key(), seed_f21(), seed_f111(), seed_f112(), seed_f113(), seed_f114(), seed_f114b(12), seed_f114b(26), seed_f114b(30), seed_f114b(40), seed_f115(), seed_f116(), seed_f119(), seed_f440(), seed_f441(), seed_f442(), seed_f121(), seed_f123(), seed_f123b(), seed_f124(), seed_f125(), seed_f126(), seed_f127(), seed_f128(0), seed_f128(1)):
        hist.append((s[0], s[1], s[2], ["seed"] * len(s[2]), "seed"))
    hist += exhaustive_small(gen)
    n = int(os.environ.get("VERIF_LIFE_N", "0")) or cx.n(2200, 30000)
    for i in range(n):
        x = rng.random()
        stream = "f19" if x < 0.12 else "f111" if x < 0.15 else "multierr" if x < 0.18 else "lrlink" if x < 0.20 else "opaq" if x < 0.32 else "subval" if x < 0.34 else "whendel" if x < 0.40 else "subident" if x < 0.44 else "main"
        si, co, ops, kinds = gen.history(stream)
        # LeakSanitizer runs whenever the byte balance of the heap is off; on top of that it is forced for a sample
        if rng.random() < (0.25 if cx.tier == "thorough" else 0.05):
            co |= FORCE_LSAN
        hist.append((si, co, ops, kinds, stream))

    lines = [hist_line(i, h[0], h[1], h[2]) for i, h in enumerate(hist)]
    extra = corpus_lines()
    base = len(lines)
    for j, (f, l) in enumerate(extra):
        toks = l.split()
        lines.append(" ".join([str(base + j)] + toks[1:]))
    cx.sample(lines[0][:300])

    step = 20000
    for a in range(0, len(lines), step):
        part = lines[a:a + step]
        rep = _run_parallel(cx, part, workers)
        for l in part:
            i = int(l.split()[0])
            r = rep.get(str(i), ["err", "NoReply"])
            clean = evaluate(cx, l, r)
            d = parse_reply(r)
            if i < len(hist):
                si, co, ops, kinds, stream = hist[i]
            else:
                ops, kinds, stream = l.split()[5].split(";"), [], "corpus"
            rcs = d["rc"].split(",") if d and d.get("rc", "-") != "-" else []
            nontrivial = any(x == "0" for x in rcs) and any(x not in ("0", "-1") for x in rcs)
            cx.count(("hist", " ".join(l.split()[3:])), nontrivial, "life:hist:%s:%s" % (stream, _bucket(len(ops))))
            if d is None:
                cx.dist["life:hist:aborted"] += 1
            for j, k in enumerate(kinds):
                rc = rcs[j] if j < len(rcs) else "?"
                res = "ok" if rc == "0" else "n/a" if rc == "-1" else "aborted" if rc == "?" else "err"
                cx.count(None, False, "life:op:%s:%s" % (k, res))
    if len(lines) > 6:
        cx.sample(lines[len(lines) // 2][:300])
