"""Runtime half of property C17 (ownership / lifetime): random API histories through harness/api_life.c.

Used by tools/checks/c17.py:   c17life.run_life(cx)   and   c17life.classify(component, what, case).

Every request line is one history executed in a fresh context (harness forks one child per history).  The laws are
evaluated on the harness reply: dictionary (records, sum of refcounts) back at the baseline once all trees are freed,
no "not freed from the dictionary" warning at ly_ctx_destroy, no LeakSanitizer report, a failed schema load leaves the
dictionary unchanged, a failing call leaves its output NULL, node links intact after every op.  Sanitizer aborts are
reported by cx.run_impl itself.

The schema knowledge of the generator is parsed from the harness' own built-in YANG text (`life schema <n>`), so the
two cannot drift apart."""
import base64, concurrent.futures, json, os, re
from vlib.proto import hexs, unhex

HARNESS = "api_life"
NSLOT = 6
NSETS = 3
FORCE_LSAN = 0x40000000

# ---------------------------------------------------------------------------------------------------------------
# YANG subset reader (enough for the built-in schema sets)


def _tokens(text):
    i, n = 0, len(text)
    while i < n:
        c = text[i]
        if c.isspace():
            i += 1
        elif c in "{};":
            yield c
            i += 1
        elif c == '"' or c == "'":
            j = i + 1
            buf = []
            while j < n and text[j] != c:
                if c == '"' and text[j] == "\\" and j + 1 < n:
                    buf.append({"n": "\n", "t": "\t"}.get(text[j + 1], text[j + 1]))
                    j += 2
                else:
                    buf.append(text[j])
                    j += 1
            yield ("S", "".join(buf))
            i = j + 1
        else:
            j = i
            while j < n and not text[j].isspace() and text[j] not in "{};":
                j += 1
            yield ("S", text[i:j])
            i = j


class Stmt:
    def __init__(self, kw, arg):
        self.kw, self.arg, self.sub = kw, arg, []

    def all(self, kw):
        return [s for s in self.sub if s.kw == kw]

    def one(self, kw):
        for s in self.sub:
            if s.kw == kw:
                return s
        return None

    def arg_of(self, kw, dflt=None):
        s = self.one(kw)
        return s.arg if s else dflt


def parse_yang(text):
    toks = list(_tokens(text))
    pos = [0]

    def stmt():
        kw = toks[pos[0]][1]
        pos[0] += 1
        arg = None
        if isinstance(toks[pos[0]], tuple):
            arg = toks[pos[0]][1]
            pos[0] += 1
        s = Stmt(kw, arg)
        if toks[pos[0]] == ";":
            pos[0] += 1
        else:
            pos[0] += 1     # {
            while toks[pos[0]] != "}":
                s.sub.append(stmt())
            pos[0] += 1
        return s

    return stmt()


class SNode:
    """compiled-schema-like node: kind in container list leaf leaf-list anydata anyxml choice case rpc action notification input output"""

    def __init__(self, kind, name, mod, parent, st):
        self.kind, self.name, self.mod, self.parent, self.st = kind, name, mod, parent, st
        self.children = []
        self.type = None
        self.keys = []
        self.user = False
        self.config = True

    def data_parent(self):
        p = self.parent
        while p is not None and p.kind in ("choice", "case", "input", "output"):
            p = p.parent
        return p

    def data_children(self, output=False):
        """children as data sees them (choices/cases flattened, input or output of operations)"""
        out = []
        for c in self.children:
            if c.kind in ("choice", "case"):
                out += c.data_children()
            elif c.kind == "input":
                if not output:
                    out += c.data_children()
            elif c.kind == "output":
                if output:
                    out += c.data_children()
            else:
                out.append(c)
        return out

    def qname(self):
        p = self.data_parent()
        if p is None or p.mod is not self.mod:
            return self.mod.name + ":" + self.name
        return self.name

    def spath(self):
        """data-style schema path for lys_find_path (choice / case / input / output are not named)"""
        segs = []
        n = self
        while n is not None:
            if n.kind not in ("choice", "case", "input", "output"):
                segs.append(n.mod.name + ":" + n.name)
            n = n.parent
        return "/" + "/".join(reversed(segs))


class Module:
    def __init__(self, st, text):
        self.st, self.text = st, text
        self.name = st.arg
        self.ns = st.arg_of("namespace")
        self.prefix = st.arg_of("prefix")
        self.imports = {self.prefix: self.name}
        for i in st.all("import"):
            self.imports[i.arg_of("prefix")] = i.arg
        self.identities = {i.arg: [b.arg for b in i.all("base")] for i in st.all("identity")}
        self.typedefs = {t.arg: t.one("type") for t in st.all("typedef")}
        self.features = [f.arg for f in st.all("feature")]
        self.annotations = [s.arg for s in st.sub if s.kw.endswith(":annotation")]
        self.top = []


DATA_KW = ("container", "list", "leaf", "leaf-list", "anydata", "anyxml", "choice", "case", "rpc", "action", "notification", "input", "output")


class Schema:
    """all modules of one context"""

    def __init__(self, texts):
        self.mods = {}
        for t in texts:
            m = Module(parse_yang(t), t)
            self.mods[m.name] = m
        for m in self.mods.values():
            for s in m.st.sub:
                if s.kw in DATA_KW:
                    m.top.append(self._build(s, m, None, True))
        for m in self.mods.values():
            for a in m.st.all("augment"):
                tgt = self._resolve(a.arg, m)
                if tgt is None:
                    continue
                for s in a.sub:
                    if s.kw in DATA_KW:
                        tgt.children.append(self._build(s, m, tgt, tgt.config))
        self.by_kind = {}
        for n in self.walk():
            self.by_kind.setdefault(n.kind, []).append(n)

    def _build(self, s, m, parent, config):
        kind = s.kw
        name = s.arg if s.arg is not None else kind
        n = SNode(kind, name, m, parent, s)
        if s.arg_of("config") == "false":
            config = False
        if kind in ("rpc", "action", "notification"):
            config = False
        n.config = config
        n.user = s.arg_of("ordered-by") == "user"
        if kind in ("leaf", "leaf-list"):
            n.type = s.one("type")
        if kind == "list" and s.one("key"):
            n.keys = s.arg_of("key").split()
        for c in s.sub:
            if c.kw in DATA_KW:
                ch = c
                if kind == "choice" and c.kw != "case":      # shorthand case
                    cs = SNode("case", c.arg, m, n, c)
                    cs.config = config
                    cs.children.append(self._build(c, m, cs, config))
                    n.children.append(cs)
                    continue
                n.children.append(self._build(ch, m, n, config))
        return n

    def _resolve(self, path, m):
        cur, lst = None, None
        for seg in path.strip("/").split("/"):
            pfx, _, nm = seg.rpartition(":")
            mod = self.mods.get(m.imports.get(pfx, m.name)) if pfx else m
            cands = (cur.children if cur is not None else (mod.top if mod else []))
            nxt = None
            stack = list(cands)
            while stack:
                c = stack.pop(0)
                if c.name == nm and c.kind not in ("choice", "case"):
                    nxt = c
                    break
                if c.kind in ("choice", "case"):
                    stack += c.children
            if nxt is None:
                return None
            cur = nxt
        return cur

    def walk(self):
        st = [t for m in self.mods.values() for t in m.top]
        while st:
            n = st.pop()
            yield n
            st += n.children

    def tops(self):
        return [t for m in self.mods.values() for t in m.top]

    def derived(self, mod, base):
        """identities (as (module, name)) derived from mod:base, transitively"""
        res = []
        want = {(mod.name, base)}
        changed = True
        while changed:
            changed = False
            for m in self.mods.values():
                for idn, bases in m.identities.items():
                    if (m.name, idn) in want:
                        continue
                    for b in bases:
                        pfx, _, nm = b.rpartition(":")
                        bm = m.imports.get(pfx, m.name) if pfx else m.name
                        if (bm, nm) in want:
                            want.add((m.name, idn))
                            res.append((m.name, idn))
                            changed = True
                            break
        return res

    def resolve_type(self, tst, mod):
        """follow typedefs to a built-in type statement"""
        guard = 0
        while tst is not None and guard < 8:
            guard += 1
            nm = tst.arg
            pfx, _, base = nm.rpartition(":")
            m = self.mods.get(mod.imports.get(pfx, mod.name)) if pfx else mod
            if m is not None and base in m.typedefs:
                tst, mod = m.typedefs[base], m
                continue
            break
        return tst, mod


# ---------------------------------------------------------------------------------------------------------------
# values per type: (good lexicals, bad lexicals) in the JSON value format of the API (module names as prefixes)

INT_RANGE = {"int8": (-128, 127), "int16": (-32768, 32767), "int32": (-2 ** 31, 2 ** 31 - 1), "int64": (-2 ** 63, 2 ** 63 - 1),
             "uint8": (0, 255), "uint16": (0, 65535), "uint32": (0, 2 ** 32 - 1), "uint64": (0, 2 ** 64 - 1)}
STRINGS = ["a", "b", "x", "on", "off", "abc", "hello", "Zz", "a b", "a&b", "<t>", "x>y", "it's", 'q"q', "ž", "žluťoučký", "日本", "\U0001F600",
           " lead", "trail ", "a\tb", "line\nbreak", "0", "-1", "true", "k1", "long" * 30, "]]>", "a/b", "a:b", "[x]", "{y}", "\\n"]
JUNK = ["", " ", "abc", "-", "1.5.2", "0x1G", "99999999999999999999999", "-99999999999999999999999", "1e3", "\x7f", "nomod:zz", "/", "//", "[", "a b c",
        " ", "+", "--1", "1 2", "nul\x01"]


def _ranges(tst, kw, lo, hi):
    r = tst.arg_of(kw) if tst is not None else None
    if not r:
        return [(lo, hi)]
    out = []
    for part in r.split("|"):
        a, _, b = part.strip().partition("..")
        a, b = a.strip(), (b.strip() or a.strip())
        conv = lambda v: lo if v == "min" else hi if v == "max" else float(v) if "." in v else int(v)
        try:
            out.append((conv(a), conv(b)))
        except ValueError:
            pass
    return out or [(lo, hi)]


class Values:
    def __init__(self, schema):
        self.schema = schema
        self.cache = {}

    def pools(self, node):
        k = id(node)
        if k not in self.cache:
            self.cache[k] = self._pools(node.type, node.mod, node, 0)
        return self.cache[k]

    def base(self, node):
        t, _ = self.schema.resolve_type(node.type, node.mod)
        return t.arg if t is not None else "string"

    def _pools(self, tst, mod, node, depth):
        tst, mod = self.schema.resolve_type(tst, mod)
        b = tst.arg if tst is not None else "string"
        if b in INT_RANGE:
            lo, hi = INT_RANGE[b]
            good, bad = [], [str(lo - 1), str(hi + 1)]
            rs = _ranges(tst, "range", lo, hi)
            for a, z in rs:
                good += [str(a), str(z), str((a + z) // 2)]
                for d in (1, 2, 3, 5, 7, 11):
                    if a + d <= z:
                        good.append(str(a + d))
            if rs != [(lo, hi)]:
                bad += [str(rs[0][0] - 1)] if rs[0][0] > lo else []
                bad += [str(rs[-1][1] + 1)] if rs[-1][1] < hi else []
            if lo < 0:
                good.append("+" + good[0].lstrip("-"))
            return sorted(set(good), key=good.index), bad + JUNK[:10]
        if b == "decimal64":
            fd = int(tst.arg_of("fraction-digits", "2"))
            lim = 10 ** (18 - fd)
            rs = _ranges(tst, "range", -lim, lim)
            good = []
            for a, z in rs:
                for v in (a, z, (a + z) / 2, a + (z - a) / 3, a + (z - a) / 7):
                    good.append(("%.*f" % (fd, v)))
            good += [g.rstrip("0").rstrip(".") or "0" for g in good[:3]]
            good = [g for g in good if len(g) < 20]
            return sorted(set(good), key=good.index), ["1." + "1" * (fd + 1), "1.", ".", "1,5", str(rs[-1][1] + 1)] + JUNK[:9]
        if b == "string":
            ls = _ranges(tst.one("length"), None, 0, 10 ** 6) if False else None
            lr = [(0, 10 ** 6)]
            if tst.one("length") is not None:
                lr = _ranges(tst, "length", 0, 10 ** 6)
            pats = [p.arg for p in tst.all("pattern")]
            ok = lambda s: any(a <= len(s) <= z for a, z in lr)
            if pats:
                cand = ["", "a", "z", "ab", "abc", "abcd", "qwerty", "abcdefgh", "abcdefghi", "zzzzzzzzzzzz"]
                try:
                    cre = [re.compile(p) for p in pats]
                    good = [s for s in cand if ok(s) and all(c.fullmatch(s) for c in cre)]
                    bad = [s for s in cand + STRINGS if not (ok(s) and all(c.fullmatch(s) for c in cre))]
                except re.error:
                    good, bad = [s for s in cand if ok(s)], ["A1"]
            else:
                good = [s for s in STRINGS if ok(s)]
                bad = [s for s in STRINGS + ["", "x" * 40] if not ok(s)]
            return good or ["a"], bad[:12] or ["\x01"]
        if b == "boolean":
            return ["true", "false"], ["True", "FALSE", "1", "0", "", " true", "yes", "truefalse"]
        if b == "empty":
            return [""], ["x", " ", "null", "[null]"]
        if b == "enumeration":
            names = [e.arg for e in tst.all("enum")]
            return names, [names[0] + " ", names[0].upper(), "", "nope", "0", names[0] + names[-1]]
        if b == "bits":
            names = [e.arg for e in tst.all("bit")]
            good = [""] + names + [" ".join(names)] + [" ".join(names[i:i + 2]) for i in range(len(names))] + [" ".join(reversed(names))]
            return sorted(set(good), key=good.index), [names[0] + " " + names[0], "nope", names[0] + ",", names[0] + " nope", names[0].upper()]
        if b == "binary":
            lr = _ranges(tst, "length", 0, 64) if tst.one("length") is not None else [(0, 64)]
            good = []
            for n in (0, 1, 2, 3, 4, 7, 16, 33):
                if any(a <= n <= z for a, z in lr):
                    good.append(base64.b64encode(bytes((i * 37 + n) & 0xFF for i in range(n))).decode())
            return good or ["QQ=="], ["!", "QQ", "QQ=", "Q===", "QUJD=", "====", "QQ==QQ==", "QU JD", base64.b64encode(b"x" * 70).decode()]
        if b == "identityref":
            good = []
            for bs in tst.all("base"):
                pfx, _, nm = bs.arg.rpartition(":")
                bm = self.schema.mods.get(mod.imports.get(pfx, mod.name)) if pfx else mod
                if bm is None:
                    continue
                for (m, i) in self.schema.derived(bm, nm):
                    good.append(m + ":" + i)
                bad0 = bm.name + ":" + nm
            return good or ["x:y"], [bad0, "nomod:" + good[0].split(":")[1] if good else "a:b", "nope", "", ":", good[0] + " " if good else "q", "lfa:", ":id-a"]
        if b == "instance-identifier":
            return self._iids(), ["", "/", "lfa:c", "/nomod:x", "/lfa:c/zz", "/lfa:c/li[k=", "/lfa:c/li[k='a'", "/lfa:c/sl[.=3]x", "//lfa:c", "/lfa:c/", "c/a", "/lfa:c/li[zz='1']"]
        if b == "leafref":
            tgt = self._leafref_target(tst, node)
            if tgt is not None and depth < 3 and tgt.type is not None:
                g, bd = self._pools(tgt.type, tgt.mod, tgt, depth + 1)
                return g, bd
            return STRINGS[:8], JUNK[:6]
        if b == "union":
            good, bad = [], []
            for mt in tst.all("type"):
                g, bd = self._pools(mt, mod, node, depth + 1)
                good += g[:6]
                bad += bd[:3]
            return sorted(set(good), key=good.index), sorted(set(bad), key=bad.index) + ["\x01"]
        return STRINGS[:10], JUNK[:5]

    def _leafref_target(self, tst, node):
        path = tst.arg_of("path")
        if not path or node is None:
            return None
        cur = node
        segs = path.split("/")
        if path.startswith("/"):
            cur = None
            segs = segs[1:]
        for seg in segs:
            seg = re.sub(r"\[.*?\]", "", seg)
            if seg == "..":
                cur = cur.data_parent() if cur is not None else None
                continue
            nm = seg.rpartition(":")[2]
            cands = cur.data_children() if cur is not None else self.schema.tops()
            cur = next((c for c in cands if c.name == nm), None)
            if cur is None:
                return None
        return cur

    def _iids(self):
        out = []
        for t in self.schema.tops():
            if t.kind == "container":
                out.append("/" + t.mod.name + ":" + t.name)
                for c in t.data_children()[:14]:
                    q = "/" + t.mod.name + ":" + t.name + "/" + (c.name if c.mod is t.mod else c.mod.name + ":" + c.name)
                    if c.kind == "leaf":
                        out.append(q)
                    elif c.kind == "leaf-list":
                        out.append(q + "[.='1']")
                    elif c.kind == "list" and len(c.keys) == 1:
                        out.append(q + "[" + c.keys[0] + "='a']")
            elif t.kind == "leaf":
                out.append("/" + t.mod.name + ":" + t.name)
        return out or ["/a:b"]


# ---------------------------------------------------------------------------------------------------------------
# instance trees, documents, paths


class Inst:
    def __init__(self, sn, value=None):
        self.sn, self.value, self.children, self.parent = sn, value, [], None
        self.anyval = None

    def add(self, c):
        c.parent = self
        self.children.append(c)
        return c


def _quote(v):
    return "'" + v + "'" if "'" not in v else '"' + v + '"' if '"' not in v else None


def inst_path(i):
    """data path of an instance, None when its keys cannot be written as a predicate"""
    segs = []
    while i is not None:
        sn = i.sn
        seg = sn.qname() if i.parent is not None else sn.mod.name + ":" + sn.name
        if sn.kind == "list":
            if sn.keys:
                for k in sn.keys:
                    kv = next((c.value for c in i.children if c.sn.name == k), None)
                    q = _quote(kv) if kv is not None else None
                    if q is None:
                        return None
                    seg += "[%s=%s]" % (k, q)
            else:
                sibs = [c for c in (i.parent.children if i.parent else [i]) if c.sn is sn]
                seg += "[%d]" % (sibs.index(i) + 1)
        elif sn.kind == "leaf-list":
            q = _quote(i.value)
            if q is None:
                return None
            seg += "[.=%s]" % q
        segs.append(seg)
        i = i.parent
    return "/" + "/".join(reversed(segs))


def all_insts(tops):
    st = list(tops)
    while st:
        i = st.pop()
        yield i
        st += i.children


class TreeGen:
    def __init__(self, schema, values, rng):
        self.schema, self.values, self.rng = schema, values, rng

    def value(self, sn, p_bad=0.0):
        g, b = self.values.pools(sn)
        if self.rng.random() < p_bad and b:
            return self.rng.choice(b)
        # small pools first: collisions between histories' values are wanted (same instance created twice, merged, ...)
        return self.rng.choice(g[:6]) if self.rng.random() < 0.6 else self.rng.choice(g)

    def children(self, parent_inst, sn_children, depth, p_bad, density):
        rng = self.rng
        out = []
        chosen_case = {}
        for sn in sn_children:
            # one case per choice (sometimes two: invalid)
            cs = sn.parent
            if cs is not None and cs.kind == "case":
                ch = cs.parent
                if id(ch) not in chosen_case:
                    chosen_case[id(ch)] = rng.choice(ch.children) if rng.random() < 0.8 else None
                if chosen_case[id(ch)] is not cs and rng.random() > 0.04:
                    continue
            if sn.kind == "leaf":
                if rng.random() < density or sn.name in (sn.data_parent().keys if sn.data_parent() is not None else ()):
                    out.append(Inst(sn, self.value(sn, p_bad)))
            elif sn.kind == "leaf-list":
                if rng.random() < density:
                    n = rng.choice((1, 2, 2, 3, 4, 6))
                    vals = []
                    for _ in range(n):
                        v = self.value(sn, p_bad)
                        if v not in vals or rng.random() < 0.05:
                            vals.append(v)
                    out += [Inst(sn, v) for v in vals]
            elif sn.kind == "list":
                if rng.random() < density and depth < 4:
                    seen = set()
                    for _ in range(rng.choice((1, 1, 2, 3, 4))):
                        li = Inst(sn)
                        kids = self.children(li, sn.data_children(), depth + 1, p_bad, density * 0.8)
                        # keys first, in key order
                        keys = []
                        for k in sn.keys:
                            ki = next((c for c in kids if c.sn.name == k), None)
                            if ki is not None:
                                keys.append(ki)
                        kt = tuple(k.value for k in keys)
                        if sn.keys and kt in seen and rng.random() > 0.05:
                            continue
                        seen.add(kt)
                        for c in keys + [c for c in kids if c not in keys]:
                            li.add(c)
                        out.append(li)
            elif sn.kind == "container":
                if rng.random() < density + 0.2 and depth < 5:
                    ci = Inst(sn)
                    for c in self.children(ci, sn.data_children(), depth + 1, p_bad, density):
                        ci.add(c)
                    out.append(ci)
            elif sn.kind in ("anydata", "anyxml"):
                if rng.random() < density * 0.6:
                    a = Inst(sn)
                    a.anyval = rng.choice(("empty", "text", "tree", "modeled"))
                    out.append(a)
        return out

    def data_tops(self, p_bad=0.0, density=0.45, only=None):
        tops = [t for t in self.schema.tops() if t.kind in ("container", "list", "leaf", "leaf-list")]
        if only is not None:
            tops = [t for t in tops if t in only]
        res = []
        for _ in range(4):
            res = self.children(None, tops, 0, p_bad, max(density, 0.6))
            if res:
                break
        return res

    def op_tree(self, kind, p_bad=0.0):
        """instance of an rpc / action / notification with all its data parents; returns (top instance, op instance)"""
        cands = [n for n in self.schema.walk() if n.kind == kind]
        if not cands:
            return None, None
        sn = self.rng.choice(cands)
        chain = []
        p = sn
        while p is not None:
            if p.kind not in ("choice", "case", "input", "output"):
                chain.append(p)
            p = p.parent
        chain.reverse()
        top = cur = None
        for c in chain:
            i = Inst(c)
            if c.kind == "list":
                for k in c.keys:
                    ksn = next(x for x in c.data_children() if x.name == k)
                    i.add(Inst(ksn, self.value(ksn, p_bad)))
            if cur is None:
                top = i
            else:
                cur.add(i)
            cur = i
        return top, cur

    def fill_op(self, op, output=False, p_bad=0.0):
        for c in self.children(op, op.sn.data_children(output), 1, p_bad, 0.7):
            op.add(c)


# ---- XML -------------------------------------------------------------------------------------------------------

def xml_esc(v, rng=None):
    out = []
    for ch in v:
        if ch == "&":
            out.append("&amp;")
        elif ch == "<":
            out.append("&lt;")
        elif ch == ">":
            out.append("&gt;")
        elif rng is not None and rng.random() < 0.06 and ord(ch) >= 0x20:
            out.append("&#x%x;" % ord(ch) if rng.random() < 0.5 else "&#%d;" % ord(ch))
        else:
            out.append(ch)
    return "".join(out)


class Doc:
    def __init__(self, schema, values, rng):
        self.schema, self.values, self.rng = schema, values, rng

    # prefixed values (identityref, instance-identifier): JSON form "mod:name" -> XML prefixes with declarations
    def _xml_value(self, sn, v):
        base = self.values.base(sn)
        decl = ""
        if base in ("identityref", "instance-identifier", "union", "leafref"):
            mods = set(re.findall(r"([A-Za-z_][\w.-]*):", v)) & set(self.schema.mods)
            if base == "instance-identifier" or (base in ("union", "leafref") and v.startswith("/")):
                # every node of an XML instance-identifier needs a prefix
                def seg(m):
                    return m.group(0)
                cur = [None]

                def fix(m):
                    nm = m.group(2)
                    if m.group(1):
                        cur[0] = m.group(1)[:-1]
                    return "/" + (cur[0] + ":" if cur[0] else "") + nm
                v = re.sub(r"/(?:([A-Za-z_][\w.-]*:))?([A-Za-z_][\w.-]*)", fix, v)
            for i, m in enumerate(sorted(mods)):
                decl += ' xmlns:%s="%s"' % (m, self.schema.mods[m].ns)
        cdata = self.rng.random() < 0.03 and "]]>" not in v
        return decl, ("<![CDATA[" + v + "]]>" if cdata else xml_esc(v, self.rng))

    def xml(self, i, top=True, ns_parent=None, meta=None):
        sn = i.sn
        ns = sn.mod.ns
        attrs = ' xmlns="%s"' % ns if ns != ns_parent else ""
        if meta:
            attrs += meta
        if sn.kind in ("leaf", "leaf-list"):
            decl, txt = self._xml_value(sn, i.value)
            if txt == "" and self.rng.random() < 0.5:
                return "<%s%s%s/>" % (sn.name, attrs, decl)
            return "<%s%s%s>%s</%s>" % (sn.name, attrs, decl, txt, sn.name)
        if sn.kind in ("anydata", "anyxml"):
            body = {"empty": "", "text": "some &amp; text" if sn.kind == "anyxml" else "", "tree": "<x><y>1</y><z/></x>",
                    "modeled": self._modeled_xml()}.get(i.anyval, "")
            return "<%s%s>%s</%s>" % (sn.name, attrs, body, sn.name)
        body = "".join(self.xml(c, False, ns) for c in i.children)
        return "<%s%s>%s</%s>" % (sn.name, attrs, body, sn.name)

    def _modeled_xml(self):
        for t in self.schema.tops():
            if t.kind == "leaf":
                return '<%s xmlns="%s">v</%s>' % (t.name, t.mod.ns, t.name)
        return "<q/>"

    def xml_doc(self, tops):
        return "".join(self.xml(t) for t in tops)

    # ---- JSON ----
    def _json_value(self, sn, v):
        base = self.values.base(sn)
        if base in ("int8", "int16", "int32", "uint8", "uint16", "uint32") and re.fullmatch(r"-?\d+", v):
            return v
        if base == "boolean" and v in ("true", "false"):
            return v
        if base == "empty" and v == "":
            return "[null]"
        if base == "union" and re.fullmatch(r"-?\d{1,3}", v) and self.rng.random() < 0.5:
            return v
        s = json.dumps(v, ensure_ascii=self.rng.random() < 0.15)
        return s

    def json_members(self, insts, parent_mod):
        groups = []
        for i in insts:
            for g in groups:
                if g[0].sn is i.sn:
                    g.append(i)
                    break
            else:
                groups.append([i])
        parts = []
        for g in groups:
            sn = g[0].sn
            name = sn.name if sn.mod is parent_mod else sn.mod.name + ":" + sn.name
            if sn.kind == "leaf":
                parts.append("%s:%s" % (json.dumps(name), self._json_value(sn, g[0].value)))
            elif sn.kind == "leaf-list":
                parts.append("%s:[%s]" % (json.dumps(name), ",".join(self._json_value(sn, x.value) for x in g)))
            elif sn.kind == "list":
                parts.append("%s:[%s]" % (json.dumps(name), ",".join("{" + self.json_members(x.children, sn.mod) + "}" for x in g)))
            elif sn.kind in ("anydata", "anyxml"):
                body = {"empty": "{}", "text": '"txt"' if sn.kind == "anyxml" else "{}", "tree": '{"x":{"y":1,"z":[null]}}',
                        "modeled": self._modeled_json()}.get(g[0].anyval, "{}")
                parts.append("%s:%s" % (json.dumps(name), body))
            else:
                parts.append("%s:{%s}" % (json.dumps(name), self.json_members(g[0].children, sn.mod)))
        return ",".join(parts)

    def _modeled_json(self):
        for t in self.schema.tops():
            if t.kind == "leaf":
                return '{"%s:%s":"v"}' % (t.mod.name, t.name)
        return "{}"

    def json_doc(self, tops):
        return "{" + self.json_members(tops, None) + "}"


def corrupt(rng, doc, fmt):
    """malformed stream: truncation, byte edits, structural damage"""
    if not doc:
        return "<" if fmt == 0 else "{"
    k = rng.randrange(9)
    n = len(doc)
    if k == 0:
        return doc[:rng.randrange(n)]
    if k == 1:
        p = rng.randrange(n)
        return doc[:p] + doc[p + 1:]
    if k == 2:
        p = rng.randrange(n)
        return doc[:p] + rng.choice("<>&\"'{}[],:/=\\ \x01?!") + doc[p + 1:]
    if k == 3:
        a = rng.randrange(n)
        b = min(n, a + rng.randrange(1, 30))
        return doc[:b] + doc[a:b] + doc[b:]
    if k == 4:
        if fmt == 0:
            tags = re.findall(r"</([\w-]+)>", doc)
            if tags:
                t = rng.choice(tags)
                return doc.replace("</%s>" % t, "</%sx>" % t, 1)
        return doc.replace(":", "", 1)
    if k == 5:
        if fmt == 0:
            return re.sub(r'xmlns="([^"]*)"', 'xmlns="urn:nosuch"', doc, count=1)
        return re.sub(r'"(\w+):', '"nosuch:', doc, count=1)
    if k == 6:
        p = rng.randrange(n)
        ins = rng.choice(["<unknown>1</unknown>", "<a><b></a></b>", "&bogus;", "<!-- c -->", "<?pi x?>", "<![CDATA[", "&#xFFFF;", "&#0;"]) if fmt == 0 else \
            rng.choice([',"unknown":1', "null", "[[", '"a":', "\\u12", ',,', '{"x":', "1e999", '"\\ud800"'])
        return doc[:p] + ins + doc[p:]
    if k == 7:
        return doc + (doc if rng.random() < 0.5 else rng.choice(["<", "}", "]", "garbage", "\x00x"]))
    return doc[:n // 2].encode("utf-8")[: max(1, n // 2 - 1)].decode("utf-8", "ignore") + "\xff\xfe".encode("latin1").decode("latin1") + doc[n // 2:]
