"""Correspondence + laws for component `ht` (hash_table.c, dict.c) — used by C17.

One request line carries a whole history; the reply has one token per op (see harness/wb_ht.c, LyModel/LyHt/Drv.lean).
The differential comparison pins the table physically (record indices, free list, `first/last`, size, used, resize
state); the laws below are evaluated on the implementation's replies alone with a reference written here in Python
(multiset of (hash,val) for the table, map string -> refcount for the dictionary)."""
import itertools, os, json
from vlib import paths
from vlib.proto import hexs, unhex

HARNESS = "wb_ht"
NO = 4294967295


# ---------------------------------------------------------------------------------------------- Jenkins (for generators)
def jenkins(b):
    h = 0
    if len(b):
        for c in b:
            h = (h + (c if c < 128 else c | 0xFFFFFF00)) & 0xFFFFFFFF
            h = (h + (h << 10)) & 0xFFFFFFFF
            h ^= h >> 6
    else:
        h = (h + (h << 3)) & 0xFFFFFFFF; h ^= h >> 11; h = (h + (h << 15)) & 0xFFFFFFFF
    h = (h + (h << 3)) & 0xFFFFFFFF
    h ^= h >> 11
    h = (h + (h << 15)) & 0xFFFFFFFF
    return h


# ---------------------------------------------------------------------------------------------- hash table histories
EQ = {
    0: lambda mod, a, b: a == b,
    1: lambda mod, a, b: a % 256 == b % 256,
    2: lambda mod, a, b: (a == b) if mod else (a % 256 == b % 256),
    3: lambda mod, a, b: (a % 256 == b % 256) if mod else (a == b),
}


def gen_hist(rng, nops, small=False):
    size = rng.choice([1, 2, 4, 8, 8, 8, 16, 32, 64])
    resize = 0 if rng.random() < 0.15 else 1
    ve = rng.choice([0, 0, 0, 1, 1, 2, 2, 3])
    rve = rng.choice(["-", "-", "-", str(ve), "0", "1", "2", "3"])
    cve = rng.choice(["-", "-", str(ve), "0", "1", "2"])
    # hash pool: same-hash collisions, same-bucket collisions (equal low bits), and spread hashes
    base = rng.randrange(1 << 32)
    pool = [base, base ^ (1 << rng.randrange(3, 32)), base ^ (1 << rng.randrange(8, 32)), rng.randrange(1 << 32), rng.randrange(64),
            rng.randrange(64), 0, NO]
    if rng.random() < 0.5:
        pool += [rng.randrange(1 << 32) for _ in range(rng.choice([4, 16, 200]))]
    keys = [rng.randrange(256) for _ in range(rng.choice([2, 4, 8, 40]))]
    live = []
    ops = []
    phase_up = True
    for k in range(nops):
        if rng.random() < 0.04:
            phase_up = not phase_up
        r = rng.random()
        if r < (0.55 if phase_up else 0.15):
            h = rng.choice(pool)
            v = rng.choice(keys) + 256 * rng.choice([0, 0, 1, 2, rng.randrange(1 << 20)])
            c = rng.choice("iiiiijnm") if ve != 0 or rng.random() < 0.3 else rng.choice("iiij")
            ops.append("%s.%d.%d" % (c, h, v)); live.append((h, v))
        elif r < (0.70 if phase_up else 0.65):
            if live and rng.random() < 0.85:
                h, v = live.pop(rng.randrange(len(live)))
                if rng.random() < 0.1: v ^= 256
            else:
                h, v = rng.choice(pool), rng.choice(keys)
            ops.append("r.%d.%d" % (h, v))
        elif r < 0.85:
            if live and rng.random() < 0.8:
                h, v = rng.choice(live)
                if rng.random() < 0.2: v ^= 256 * rng.randrange(1, 4)
            else:
                h, v = rng.choice(pool), rng.choice(keys)
            ops.append("%s.%d.%d" % (rng.choice("fx"), h, v))
        elif r < 0.95:
            ops.append("D")
        else:
            ops.append("R")
    ops += ["D", "R"]
    return "hist %d %d %d %s %s %s" % (size, resize, ve, rve, cve, ",".join(ops))


def exhaustive_hist(maxlen, size=8):
    """all op sequences up to maxlen over a tiny alphabet (two colliding hashes, two eq-equal values and a third)"""
    alpha = ["%s.%d.%d" % (c, h, v) for c in "inrfx" for h in (3, 11) for v in (1, 257)]
    for ve, rve in ((1, "-"), (2, "0")):
        for n in range(1, maxlen + 1):
            for t in itertools.product(alpha, repeat=n):
                yield "hist %d 1 %d %s - %s" % (size, ve, rve, ",".join(t) + ",D,R")


def resize_walks():
    """deterministic fill/drain walks through every enlarge/shrink threshold, for all initial sizes and both policies"""
    for size in (1, 2, 8, 16, 64):
        for resize in (0, 1):
            n = max(size, 8) * (6 if resize else 1)
            ops = []
            for i in range(n):
                ops.append("i.%d.%d" % ((i * 2654435761) & 0xFFFFFFFF, i))
            ops.append("D")
            if not resize:
                ops.append("i.7.7")      # full
            for i in range(n):
                ops.append("r.%d.%d" % ((i * 2654435761) & 0xFFFFFFFF, i))
            ops += ["D", "R"]
            for i in range(7):
                ops.append("n.5.%d" % i)
            ops += ["D", "R"]
            yield "hist %d %d 0 - - %s" % (size, resize, ",".join(ops))


def hist_laws(cx, line, reply):
    """L3 laws on the implementation: the table is the multiset of the inserted-and-not-removed (hash,val)."""
    t = line.split()
    size, resize, ve, rve, cve, script = int(t[3]), int(t[4]), int(t[5]), t[6], t[7], t[8]
    ops = script.split(",")
    if reply[0] != "ok" or len(reply) - 1 < len(ops):
        return
    toks = reply[1:]
    if "LEAK" in toks:
        cx.fail("ht", "hash table history leaks memory", {"line": line, "reply": " ".join(reply)[:2000]})
    exact = (ve in (0, 1)) and rve in ("-", str(ve)) and not any(o[0] in "nm" for o in ops)
    eq = EQ[ve]
    ref = []                         # reference: list of (hash,val), insertion order irrelevant
    for o, tk in zip(ops, toks):
        f = tk.split(":")
        if o == "D":
            sz, used = int(f[1]), int(f[2])
            items = [] if f[4] == "-" else [tuple(int(x) for x in it.split(".")) for it in f[4].split(";")]
            if used != len(items):
                cx.fail("ht", "`used` differs from the number of records reachable through the chains", {"line": line, "token": tk})
            if sz < 8 or sz & (sz - 1):
                cx.fail("ht", "table size is not a power of two >= LYHT_MIN_SIZE", {"line": line, "token": tk})
            if exact and sorted(items) != sorted(ref):
                cx.fail("ht", "table content differs from the multiset of inserted-and-not-removed values (L3 law)",
                        {"line": line, "token": tk, "expected": sorted(ref)[:50]})
            # iteration order is bucket order
            bs = [h & (sz - 1) for h, _ in items]
            if bs != sorted(bs):
                cx.fail("ht", "a record is chained in a bucket other than hash & (size-1)", {"line": line, "token": tk})
            continue
        if o == "R" or not exact:
            continue
        c, h, v = o.split("."); h, v = int(h), int(v)
        present = [x for x in ref if x[0] == h and eq(True, v, x[1])]
        if c in "ij":
            if f[0] == "full":
                if resize != 0:
                    cx.fail("ht", "resizable table ran out of free records", {"line": line, "op": o})
            elif present:
                if f[0] != "exist":
                    cx.fail("ht", "checked insert of a present value did not return LY_EEXIST", {"line": line, "op": o, "token": tk})
            else:
                if f[0] != "ok":
                    cx.fail("ht", "checked insert of an absent value failed", {"line": line, "op": o, "token": tk})
                ref.append((h, v))
        elif c == "r":
            if present:
                if f[0] != "ok":
                    cx.fail("ht", "remove of a present value failed", {"line": line, "op": o, "token": tk})
                ref.remove(present[0])
            elif f[0] != "notfound":
                cx.fail("ht", "remove of an absent value did not return LY_ENOTFOUND", {"line": line, "op": o, "token": tk})
        elif c == "f":
            if bool(present) != (f[0] == "ok"):
                cx.fail("ht", "find succeeds iff a matching record is present: violated", {"line": line, "op": o, "token": tk})
        if f[0] not in ("full",) and o[0] in "ijrf" and int(f[-1]) != len(ref):
            cx.fail("ht", "`used` differs from the number of stored values", {"line": line, "op": o, "token": tk, "expected": len(ref)})


# ---------------------------------------------------------------------------------------------- dictionary histories
def f110_fixed(cx):
    """dict.c with fixes/F110.diff: the model variant `dictf` mirrors the repaired dict_insert (DESIGN §2.7: a `fixed` finding suppresses nothing)"""
    return cx.findings.get("F110", {}).get("status") == "fixed" or "F110" in os.environ.get("VERIF_ASSUME_FIXED", "").split(",")


def gen_dict(rng, nops, balanced, fixed=False):
    size = rng.choice([8, 8, 8, 16, 32, 1024])
    mask = rng.choice([0xFFFFFFFF, 0xFFFFFFFF, 0xFFFFFFFF, 0xFF, 0x7, 0x3, 0x1, 0])
    nstr = rng.choice([3, 8, 30, 200, 1200 if size == 1024 else 100])
    alphabet = rng.choice([b"ab", b"abc", b"abcdefgh", bytes(range(1, 256))])
    strs = set()
    while len(strs) < nstr:
        n = rng.choice([0, 1, 1, 2, 2, 3, 4, 6, 12])
        strs.add(bytes(rng.choice(alphabet) for _ in range(n)))
    strs = sorted(strs)
    held = {}
    ops = []

    def prefix_ok(v, ln):
        # the F110 corner needs H(prefix) == H(whole): keep it out of the general stream (it has its own witnesses)
        return fixed or ln == 0 or ln == len(v) or (jenkins(v[:ln]) & mask) != (jenkins(v) & mask)

    up = True
    for k in range(nops):
        if rng.random() < 0.03:
            up = not up
        r = rng.random()
        if r < (0.5 if up else 0.12):
            v = rng.choice(strs)
            ln = 0 if rng.random() < 0.5 else rng.randrange(len(v) + 1)
            if rng.random() < 0.25:
                v2 = v + bytes(rng.choice(alphabet) for _ in range(rng.randrange(1, 4)))
                if prefix_ok(v2, len(v)) and len(v):
                    v, ln = v2, len(v)
            if not prefix_ok(v, ln):
                ln = 0
            alias = 1 if (held.get(v, 0) and rng.random() < 0.3) else (1 if rng.random() < 0.03 else 0)
            ops.append("i.%s.%d.%d" % (hexs(v), ln, alias))
            if not (alias and not held.get(v, 0)):
                key = v[:ln] if ln else v
                held[key] = held.get(key, 0) + 1
        elif r < (0.6 if up else 0.2):
            v = rng.choice(strs)
            ops.append("z.%s" % hexs(v)); held[v] = held.get(v, 0) + 1
        elif r < (0.7 if up else 0.3):
            hv = [s for s in held if held[s]]
            if hv and rng.random() < 0.9:
                v = rng.choice(hv); alias = 0 if rng.random() < 0.1 else 1
            else:
                v = rng.choice(strs); alias = rng.randrange(2)
            ops.append("d.%s.%d" % (hexs(v), alias))
            if alias and held.get(v, 0):
                held[v] += 1
        elif r < 0.93:
            hv = [s for s in held if held[s]]
            if hv and rng.random() < 0.92:
                v = rng.choice(hv)
            else:
                v = rng.choice(strs)
            ops.append("r.%s" % hexs(v))
            if held.get(v, 0):
                held[v] -= 1
        else:
            ops.append("D")
    if balanced:
        ops.append("D")
        rest = [s for s in held for _ in range(held[s])]
        rng.shuffle(rest)
        ops += ["r.%s" % hexs(s) for s in rest]
    ops.append("D")
    return "%s %d %d %s" % ("dictf" if fixed else "dict", size, mask, ",".join(ops)), balanced


def exhaustive_dict(maxlen):
    """all histories up to maxlen over {insert a, insert ab, insert 'ab' as prefix of 'abc', zc a, dup a, remove a, remove ab}
    with every hash colliding (mask 0) and with the real hash"""
    alpha = ["i.61.0.0", "i.6162.0.0", "i.616263.2.0", "z.61", "d.61.1", "d.6162.0", "r.61", "r.6162", "i.6162.1.1"]
    for mask in (0, 0xFFFFFFFF):
        for n in range(1, maxlen + 1):
            for t in itertools.product(alpha, repeat=n):
                yield "dict 8 %d %s" % (mask, ",".join(t) + ",D")


def dict_walks():
    """fill/drain through the enlarge and shrink thresholds of the real initial size and of small tables, with masks"""
    for size, n, mask in ((1024, 1700, 0xFFFFFFFF), (8, 120, 0xFFFFFFFF), (8, 60, 0x3), (8, 40, 0), (16, 100, 0xFF)):
        names = [b"s%d" % i for i in range(n)]
        ops = ["i.%s.0.0" % hexs(s) for s in names] + ["D"] + ["d.%s.1" % hexs(s) for s in names[::3]] + ["D"]
        ops += ["r.%s" % hexs(s) for s in names] + ["D"] + ["r.%s" % hexs(s) for s in names[::3]] + ["D"]
        yield "dict %d %d %s" % (size, mask, ",".join(ops)), True


F110_WITNESSES = [
    # (A) the dictionary holds "abX"; insert(buf="abX", len=2) is the insertion that enlarges the table, every hash collides:
    #     the new record (still pointing at the caller's buffer) is re-inserted with strcmp, found "equal", dropped; LY_ENOTFOUND
    "dict 8 0 i.616258.0.0,i.63.0.0,i.64.0.0,i.65.0.0,i.66.0.0,D,i.616258.2.0,D",
    # (B) same, the caller passes the dictionary's own pointer of "abX": the record of "abX" is overwritten by "ab", "abX" leaks
    "dict 8 0 i.616258.0.0,i.63.0.0,i.64.0.0,i.65.0.0,i.66.0.0,D,i.616258.2.1,D",
    # (A) with the REAL hash and the real initial size: lyht_hash("ab") == lyht_hash("abiemahzf") == 1172708952; "abiemahzf" is
    #     held, 766 more strings, then lydict_insert(ctx, "abiemahzf", 2) is the 768th record of 1024 (75 %) -> LY_ENOTFOUND
    "dict 1024 4294967295 " + ",".join(["i.%s.0.0" % hexs(b"abiemahzf")] + ["i.%s.0.0" % hexs(b"f%d" % i) for i in range(766)]
                                       + ["D", "i.%s.2.0" % hexs(b"abiemahzf"), "D"]),
]


def dict_laws(cx, line, reply, balanced):
    """refcount spec on the implementation: map string -> count; insert/dup +1 (creating at 1), remove -1 (deleting at 0)."""
    t = line.split()
    mask, script = int(t[4]), t[5]
    ops = script.split(",")
    if reply[0] != "ok" or len(reply) - 1 < len(ops):
        return
    toks = reply[1:]
    case = {"line": line, "reply": " ".join(reply)[:1500]}
    if "LEAK" in toks:
        cx.fail("dict", "dictionary history leaks memory (LeakSanitizer) although every string was released", dict(case))
    ref = {}
    for o, tk in zip(ops, toks):
        f = tk.split(":")
        if o == "D":
            used = int(f[2])
            items = {} if f[3] == "-" else {unhex(it.split("=")[0]): int(it.split("=")[1]) for it in f[3].split(";")}
            if used != len(items) or items != {k: v for k, v in ref.items() if v}:
                cx.fail("dict", "dictionary content differs from the reference map string -> refcount", dict(case, token=tk[:300], op_index=ops.index(o)))
                return
            continue
        p = o.split(".")
        c, v = p[0], unhex(p[1])
        if f[0] in ("NoPtr", "BadArg"):
            continue
        if c in "iz":
            ln = int(p[2]) if c == "i" else 0
            key = v[:ln] if ln else v
            if f[0] != "ok":
                cx.fail("dict", "lydict_insert failed (%s)" % f[0], dict(case, op=o, prefix_collision=(jenkins(key) & mask) == (jenkins(v) & mask) and key != v))
                return
            if unhex(f[1].replace("!ptr", "")) != key:
                cx.fail("dict", "lydict_insert returned a different string", dict(case, op=o, token=tk))
            if "!ptr" in f[1]:
                cx.fail("dict", "the same string was returned under two different pointers", dict(case, op=o))
            ref[key] = ref.get(key, 0) + 1
        elif c == "d":
            alias = p[2] == "1"
            if alias:
                if f[0] != "ok" or unhex(f[1].replace("!ptr", "")) != v:
                    cx.fail("dict", "lydict_dup of a held string failed", dict(case, op=o, token=tk)); return
                ref[v] = ref.get(v, 0) + 1
            elif f[0] != "notfound":
                cx.fail("dict", "lydict_dup of a foreign pointer succeeded", dict(case, op=o, token=tk))
        elif c == "r":
            if ref.get(v, 0):
                if f[0] != "done":
                    cx.fail("dict", "lydict_remove of a present string failed", dict(case, op=o, token=tk)); return
                ref[v] -= 1
            elif f[0] != "notfound":
                cx.fail("dict", "lydict_remove of an absent string did not return LY_ENOTFOUND", dict(case, op=o, token=tk))
        if int(f[-1]) != sum(1 for x in ref.values() if x):
            cx.fail("dict", "`used` differs from the number of strings with a positive reference count", dict(case, op=o, token=tk)); return
    if balanced and any(ref.values()):
        cx.notes.append("generator bug: unbalanced history marked balanced")


def locate_leak(cx, lines, ri):
    """the harness asks LeakSanitizer every 64th history; on a report re-run that window with a check after every history"""
    for k, l in enumerate(lines):
        if "LEAK" in ri.get(l.split()[0], []):
            win = lines[max(0, k - 63):k + 1]
            rr = cx.run_impl(HARNESS, win, env={"VP_LEAK_EVERY": "1"}, crash_is_failure=False, component="ht")
            for w in win:
                if "LEAK" in rr.get(w.split()[0], []):
                    ri[w.split()[0]] = rr[w.split()[0]]          # the laws below report it with this history as the failing input
                    break
            else:
                cx.fail("ht", "LeakSanitizer reports a leak after a window of histories; not reproduced on the window alone", {"line": l})
            for x in lines:                                       # a leak persists: later periodic reports are the same one
                r = ri.get(x.split()[0])
                if r and x is not w and "LEAK" in r:
                    ri[x.split()[0]] = [t for t in r if t != "LEAK"]
            return


def corpus_lines():
    d = os.path.join(paths.CORPUS, "ht")
    out = []
    if os.path.isdir(d):
        for f in sorted(os.listdir(d)):
            for l in open(os.path.join(d, f)):
                l = l.strip()
                if l and not l.startswith("#"):
                    out.append(l)
    return out


def run_ht(cx):
    rng = cx.sub_rng("ht")
    cases = []
    cases += corpus_lines()
    cases += list(resize_walks())
    cases += list(exhaustive_hist(cx.n(2, 3)))
    for _ in range(cx.n(2500, 20000)):
        cases.append(gen_hist(rng, rng.choice([5, 20, 60, 150, 400])))
    for s in ("-", "00", "61", "6162", "ff", "80", "c3a9", "6465736372697074696f6e"):
        cases.append("hash " + s)
    for _ in range(cx.n(300, 5000)):
        n = rng.choice([1, 2, 3, 5, 9, 17, 40])
        cases.append("hash " + hexs(bytes(rng.randrange(256) for _ in range(n))))
    for n in list(range(0, 70)) + [2 ** k + d for k in range(6, 32) for d in (-1, 0, 1)] + [NO, NO - 1]:
        cases.append("fixed %d" % (n & 0xFFFFFFFF))
    dict_cases = []
    fixed = f110_fixed(cx)
    dop = "dictf " if fixed else "dict "
    for l in exhaustive_dict(cx.n(3, 4)):
        dict_cases.append((l.replace("dict ", dop, 1), False))
    dict_cases += [(l.replace("dict ", dop, 1), b) for l, b in dict_walks()]
    for _ in range(cx.n(1500, 12000)):
        dict_cases.append(gen_dict(rng, rng.choice([6, 25, 80, 200, 600]), rng.random() < 0.7, fixed))
    cases = list(dict.fromkeys(cases))
    dseen, dc = set(), []
    for l, b in dict_cases:
        if l not in dseen:
            dseen.add(l); dc.append((l, b))
    lines = ["%d ht %s" % (i, c) for i, c in enumerate(cases)]
    dlines = ["%d ht %s" % (len(lines) + i, c) for i, (c, _) in enumerate(dc)]
    cx.rule("ht: one case = one whole history on a fresh table/dictionary (5–600 ops; inserts checked/unchecked/with and without match_p, remove, find, "
            "find_next, dumps of the record array); hashes drawn from a pool with equal-hash and equal-bucket collisions, 4 equality callbacks x optional "
            "resize/collision callbacks, sizes 1..64 x resize policy, fill/drain walks through every threshold, all op sequences of length <= 2 (3 thorough) "
            "over a colliding alphabet; dict: insert (by length, whole, through the dictionary's own pointer), insert_zc, dup, remove with the hash masked "
            "to 0/1/2/3/8/32 bits, 70% of the histories balanced; non-trivial = distinct history whose reply is ok")

    def kind(line, reply):
        t = line.split()
        if t[2] in ("hash", "fixed"):
            return "ht:" + t[2]
        n = len(t[-1].split(","))
        return "ht:%s:%s:%s" % (t[2], "ok" if reply[0] == "ok" else reply[1], "<=10" if n <= 10 else "<=100" if n <= 100 else ">100")

    noleak = lambda r: [x for x in r if x != "LEAK"]
    ri, rm = cx.differential("ht", lines + dlines, HARNESS, kind=kind, canon=noleak)
    locate_leak(cx, lines + dlines, ri)
    nops = 0
    for l in lines:
        t = l.split()
        if t[2] == "hist":
            hist_laws(cx, l, ri.get(t[0], ["err", "NoReply"])); nops += len(t[-1].split(","))
    for l, (_, bal) in zip(dlines, dc):
        t = l.split()
        dict_laws(cx, l, ri.get(t[0], ["err", "NoReply"]), bal); nops += len(t[-1].split(","))
        if bal:
            last = ri.get(t[0], ["err"])[-1]
            cx.count(("balanced", l), True, "dict:balanced-history")
            if not last.endswith(":0:-"):
                cx.fail("dict", "balanced history does not end with the empty dictionary", {"line": l, "last": last[:500]})
    cx.dist["ht:ops-total"] += nops
    # the known corner F110 (hash as a parameter: every collision is possible) — witnesses evaluated on the implementation
    wl = ["%d ht %s" % (i, w.replace("dict ", dop, 1)) for i, w in enumerate(F110_WITNESSES)]
    rw = {}
    for l in wl:        # one process each: (B) leaks by nature, LSan reports it again at every later check and at exit
        rw.update(cx.run_impl(HARNESS, [l], component="dict", crash_is_failure=False))
    rmw = cx.run_model(wl)
    for l in wl:
        i = l.split()[0]
        a, b = rw.get(i, ["err", "NoReply"]), rmw.get(i, ["err", "NoReply"])
        cx.count(("F110", l), True, "dict:F110-witness")
        if [x for x in a if x != "LEAK"] != b:
            cx.disagree("ht", l, a, b)
        dict_laws(cx, l, a, False)
    if fixed:
        cx.notes.append("F110 is marked fixed: dictionary histories run against the repaired model variant (dictf), prefix collisions included")
