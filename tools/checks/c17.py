"""C17 — no sequence of API calls leaks or double-frees; string references balance.

(P) Lean: hash table L1/L2/L3 refinement + dictionary refcount specification (lean/LyModel/Props/C17.lean).
(K) correspondence: wb_ht (hash_table.c / dict.c white-box, histories) against the model, token for token.
(L)+(R) laws on the implementation: multiset / refcount reference on wb_ht replies; api_life histories under ASan/LSan
with the dictionary walked before/after (tools/checks/c17life.py)."""
import os
from checks import htcomp

try:
    from checks import c17life
except ImportError:          # the runtime half lives in its own module
    c17life = None

LEAN_TARGETS = ["LyModel.Props.C17", "LyModel.Props.C17L1"]
AUDIT = ["Audit/C17.lean", "Audit/C17Fn.lean"]
GENERATED = ["Consts"]
LEAN_TARGETS += ["LyModel.Props.C17Fn"]; GENERATED += ["FnHash", "FnHt"]     # functions translated from the C source (tools/c2lean.py), bridged in lean/LyModel/Bridge
ASSUMPTIONS = [
    "hash table arithmetic is modelled on Nat: tables have fewer than 2^25 records (`used * 100` and `size << 1` do not wrap in uint32_t)",
    "`char` is signed (x86-64 Linux): lyht_hash adds sign-extended bytes",
    "library and harness are built with NDEBUG (RelWithDebInfo): assert() is a no-op; the model returns `full` where "
    "`assert(rec_idx < ht->size)` would fail (insert into a full fixed-size table) and the harness does not make that call",
    "dictionary strings contain no NUL byte and `len <= strlen(value)` in lydict_insert",
    "malloc does not fail (allocation-failure exits: F26, optional enumeration in api_life)",
    "single thread (concurrency of the dictionary is C16)",
]
TRUSTED = ["harness/wb_ht.c, harness/api_life.c", "Python reference (multiset / refcount map) in tools/checks/htcomp.py"]


def classify(component, what, case):
    if component == "dict":
        line = case.get("line", "")
        # F110: by-length insert whose prefix collides (full 32-bit hash) with the whole buffer string held by the dictionary,
        # at the insertion that enlarges the table
        if what.startswith("lydict_insert failed (notfound)") and case.get("prefix_collision"):
            return "F110"
        if line.split()[2:5] == ["dict", "8", "0"] and ".2.1," in line and ("leaks memory" in what or "content differs" in what or "differs from the number" in what) \
                and line.split()[-1] in [w.split()[-1] for w in htcomp.F110_WITNESSES]:
            return "F110"      # variant (B): exactly the listed witness (the entry of the long string is replaced, the string leaks)
    if c17life is not None:
        return c17life.classify(component, what, case)
    return None


def run(cx):
    from checks import fncomp; fncomp.run_fn(cx, ['hash', 'ht'])
    parts = os.environ.get("C17_PARTS", "ht,life").split(",")      # development aid: run one half only
    if "ht" in parts:
        htcomp.run_ht(cx)
    if "life" in parts and c17life is not None:
        c17life.run_life(cx)


def replay(cx, payload):
    """re-run the failing history of a replay file (ht / dict histories here; api_life histories in c17life)"""
    f = payload.get("failure") or {}
    case = f.get("case") or {}
    comp = f.get("component")
    lines = []
    if case.get("line"):
        lines.append(case["line"])
    for d in payload.get("first", []):
        if d.get("component") == "ht":
            comp = "ht"
            lines.append(d["line"])
    if comp in ("ht", "dict") and lines:
        lines = ["%d %s" % (i, " ".join(l.split()[1:])) for i, l in enumerate(lines)]
        ri, rm = cx.differential("ht", lines, htcomp.HARNESS, canon=lambda r: [x for x in r if x != "LEAK"])
        for l in lines:
            t = l.split()
            if t[2] == "hist":
                htcomp.hist_laws(cx, l, ri.get(t[0], ["err", "NoReply"]))
            elif t[2] in ("dict", "dictf"):
                htcomp.dict_laws(cx, l, ri.get(t[0], ["err", "NoReply"]), False)
    elif c17life is not None and hasattr(c17life, "replay"):
        c17life.replay(cx, payload)
