"""C15 — a node's path identifies that node, and paths create what they name.

(K) correspondence model <-> code:
   * `parse`   : ly_path_parse (wb_path) vs LyModel.Path.parsePath on the path micro-grammar (exhaustive small token sequences,
                 random sequences over the full XPath token alphabet, grammar-directed near-valid paths);
   * `pathsof` : lyd_path(LYD_PATH_STD / _NO_LAST_PRED) of every node of every generated tree vs LyModel.Path.lydPath, the model working
                 on the serialisation the harness computes from the real lyd_node tree;
   * `pathof`  : lyd_path into caller buffers of awkward sizes (truncation points) vs the model's buffer arithmetic;
   * `find` / `newpath` : lyd_find_path / lyd_new_path2 on printed and mutated paths vs LyModel.Path.findPath / newPath (string-keyed schemas).
(L) laws on the implementation (harness op `roundtrip`): find, xpath, chain, exists, nolast for every node; a sanitizer report is a failure.
"""
import json, os, re
from vlib.proto import hexs, unhex
from vlib import paths as vpaths
from checks import pathgen as pg

LEAN_TARGETS = ["LyModel.Props.C15", "LyModel.Props.C15Typed"]
AUDIT = "Audit/C15.lean"
GENERATED = ["PathFmt"]
ASSUMPTIONS = [
    "values are compared as canonical strings: storing a canonical value through the type plugin yields the same canonical value (C03)",
    "instances of one schema node are contiguous among their siblings and list keys / configuration leaf-list values are unique "
    "(what libyang's insertion and validation maintain, C04/C02); the theorems carry this as an explicit hypothesis on the chain of the node",
    "node, key and module names are YANG identifiers; values contain no NUL byte",
    "fewer than 2^32 sibling instances (lyd_list_pos is uint32_t)",
    "trees without default-flagged nodes for the EEXIST law (lyd_new_path updates a default node instead)",
]
TRUSTED = ["harness/api_path.c, harness/wb_path.c (serialise lysc_node/lyd_node trees; evaluate the laws with lyd_compare_single)",
           "tools/extractors/path.py (len formulas and sprintf formats of the path printer -> Generated/PathFmt.lean)"]

API, WB = "api_path", "wb_path"
LY_EINVAL = 3


# ------------------------------------------------------------------------------------------------ classification
def both_quotes(b):
    return b"'" in b and b'"' in b


def chain_has_both_quotes(forest, addr):
    for sibs, i, n in pg.chain_of(forest, addr):
        if n[2] in "Ll":
            for c in n[4]:
                if c[2] != "K":
                    break
                if both_quotes(c[3]):
                    return True
        elif n[2] == "F" and both_quotes(n[3]):
            return True
    return False


def chain_touches_tagged(tforest, addr):
    """F460: some element of the chain (or the node itself) is an instance of a schema node one of whose sibling instances holds a union
    value that its canonical string does not identify (value key with a NUL tag) as key / leaf-list / leaf value"""
    def tagged(n):
        if n[2] in "Ll":
            return any(b"\x00" in c[3] for c in n[4] if c[2] == "K")
        return n[2] in "FfKe" and b"\x00" in n[3]
    for sibs, i, n in pg.chain_of(tforest, addr):
        if any(m[0] == n[0] and m[1] == n[1] and tagged(m) for m in sibs):
            return True
    return False


def top_position(forest, addr):
    """position (1-based among the directly preceding same-schema siblings) of the top-level node of the chain if it is
    position-addressed, else None"""
    n = forest[addr[0]]
    if n[2] not in "kf":
        return None
    pos, i = 1, addr[0] - 1
    while i >= 0 and forest[i][0] == n[0] and forest[i][1] == n[1]:
        pos += 1; i -= 1
    return pos


def split_steps(p):
    """printed/mutated path (bytes) -> [(name, [key names of `[name=` predicates])]; quote- and bracket-aware, tolerant"""
    steps, cur, preds, i, n = [], b"", [], 0, len(p)
    def flush():
        nonlocal cur, preds
        if cur.strip() or preds:
            steps.append((cur.strip(), preds))
        cur, preds = b"", []
    while i < n:
        ch = p[i:i + 1]
        if ch == b"/":
            flush(); i += 1
        elif ch == b"[":
            j, q = i + 1, None
            while j < n and (q or p[j:j + 1] != b"]"):
                c2 = p[j:j + 1]
                if q:
                    q = None if c2 == q else q
                elif c2 in (b"'", b'"'):
                    q = c2
                j += 1
            body = p[i + 1:j]
            m = re.match(rb"\s*([^\s=\[\]'\"]+)\s*=", body)
            if m and m.group(1) != b".":
                preds.append(m.group(1))
            i = j + 1
        else:
            cur += ch; i += 1
    flush()
    return steps


def unknown_key_name(case):
    """does some `[name=…]` predicate of the path name something that is not a child of the list its step resolves to
    (resolution as ly_path_compile does it: prefix = module name, no prefix = module of the previous step)"""
    sibs = pg.parse_sser(case.get("sser", "-"))
    mod = None
    for name, keys in split_steps(unhex(case["path_hex"])):
        pfx, _, local = name.rpartition(b":") if b":" in name else (b"", b"", name)
        mod = pfx or mod
        node = next((x for x in sibs if x[0] == mod and x[1] == local), None)
        if node is None:
            return False
        for k in keys:
            kp, _, kl = k.partition(b":") if b":" in k else (b"", b"", k)
            km = kp or node[0]
            if not any(c[0] == km and c[1] == kl for c in node[3]):
                return True
        mod, sibs = node[0], node[3]
    return False


def classify(component, what, case):
    law = case.get("law")
    if case.get("crash") and "ly_vlog_build_path_append" in case.get("stderr", "") and "heap-use-after-free" in case.get("stderr", ""):
        return None     # the harness empties a stale log location after the call that left it (law `logloc`), so this must not happen
    if law == "logloc":
        # F67: lyd_find_path / lyd_new_path on a non-empty tree, key predicate whose NameTest is not a child of the list: early return without LOG_LOCBACK
        if case.get("op") in ("find", "newpath") and case.get("reply", [None, None])[:2] == ["err", "Invalid"] and unknown_key_name(case):
            return "F67"
        return None
    if law == "unterminated":
        # F66: static buffer too small for the first segment: nothing is written, not even a NUL
        return "F66" if case.get("model") == "~" else None
    if "tser" not in case or "addr" not in case:
        return None
    forest = pg.parse_ser(case["tser"])
    addr = tuple(case["addr"])
    if law in ("find", "xpath", "chain", "exists") and chain_has_both_quotes(forest, addr):
        return "F7"
    if law in ("find", "xpath", "chain", "exists") and case.get("ttser") and chain_touches_tagged(pg.parse_ser(case["ttser"]), addr):
        return "F460"
    if law == "xpath" and case.get("rc", 0) <= -12:
        # F68: more than one node returned, and a sibling from another module has the same name
        sibs, i, n = pg.chain_of(forest, addr)[-1]
        if any(m[1] == n[1] and m[0] != n[0] for m in sibs):
            return "F68"
    if law == "chain" and case.get("rc") == LY_EINVAL:
        p = top_position(forest, addr)
        if p is not None and p > 1:
            return "F65"
    return None


# ------------------------------------------------------------------------------------------------ helpers
class Ids:
    def __init__(self):
        self.n = 0
    def next(self, tag):
        self.n += 1
        return "%s%d" % (tag, self.n)


def ok(r):
    return r is not None and len(r) >= 1 and r[0] == "ok"


def lost(r):
    return r is None or r[:2] in (["err", "Crash"], ["err", "NotRun"], ["err", "Timeout"], ["err", "NoSchema"], ["err", "NoTree"], ["err", "NoReply"])


# ------------------------------------------------------------------------------------------------ parse differential
def run_parse(cx):
    rng = cx.sub_rng("parse")
    cases = pg.micro_grammar(rng, cx.n(4000, 120000), cx.n(4, 5))
    # corpus of hand seeds
    cases += [b"/a:b", b"/a:b/c[k='v']", b"/a:b[k=\"it's\"][k2='x']", b"/a:b[.='v']", b"/a:b[3]", b"/a:l[k=\"a'b\"c\"]", b"/a:l[k='a\"b'c']",
              b"/a:l[k=\"x\" or k=\"y'\"]", b"a/b", b"/b", b"/a:b[k='1'][k='2']", b"/a:b[kk='1'][k='2']", b"/a:b[k='1'][kk='2']",
              b"/a:b[k\xc3\xa9='1'][k='2']", b"/a:b[p:k='1'][q:k='2']", b"/a:b[4294967296]", b"/a:b[4294967297]", b"/a:b[0]", b"/a:b[00]",
              b"/a:b[1.5]", b"/a:b[.5]", b"/a:b[1.]", b" /a:b", b"/a:b ", b"/ a:b", b"/a :b", b"/a: b", b"/a:b [1]", b"/a:b[ 1 ]",
              b"/a:*", b"/*", b"/a:b/*", b"/a:b/..", b"/a:b//c", b"/a:b[k=$v]", b"/a:b[.=$v]", b"/a:b[$v]", b"/a:b[k=v]", b"/a:b[k=1]",
              b"/a:b[k='v'", b"/a:b[k='v]", b"/a:b]", b"/a:b[[", b"", b" ", b"/", b"//", b"/a:b/", b"/a:b or", b"/a:b or c", b"/a:b/or", b"/a:or",
              b"/or:a", b"/a:b/child::c", b"/a:b/text()", b"/a:b/node", b"/a:b[k='v'][1]", b"/a:b[1][k='v']", b"/a:b[.='a'][.='b']"]
    cases = list(dict.fromkeys(cases))
    # `*:name` / `*:*` (F352: `*` is never a prefix; Path/Token.lean follows Generated.XpConsts.starNoPrefix): compared like everything else
    cases += [b"/*:a", b"/a:b/*:*", b"/*:*", b"*:a", b"/a:b[*:k='v']", b"/a:*:b", b"/a:b/*", b"/* :a"]
    cases = list(dict.fromkeys(cases))
    cx.dist["parse:star-colon-inputs"] += sum(1 for c in cases if b"*:" in c)
    lines = ["%d path parse %s" % (i, hexs(c)) for i, c in enumerate(cases)]
    cx.rule("parse: all sequences of %d path tokens up to length %d, random sequences over %d tokens, grammar-directed near-valid paths; "
            "non-trivial = distinct string" % (len(pg.TOKENS_SMALL), cx.n(4, 5), len(pg.TOKENS_SMALL) + len(pg.TOKENS_MORE)))

    def kind(line, reply):
        return "parse:" + (reply[0] if reply[0] == "ok" else reply[1])
    cx.differential("path", lines, WB, kind=kind)


# ------------------------------------------------------------------------------------------------ tree families
class Case:
    """one (module set, document) pair"""
    def __init__(self, yangs, kind, xml, string_only, tag, extra_paths=()):
        self.yangs, self.kind, self.xml, self.string_only, self.tag = yangs, kind, xml, string_only, tag
        self.extra_paths = [p.encode() if isinstance(p, str) else p for p in extra_paths]
        self.sser = self.tser = None
        self.forest = None
        self.paths = {}

    def replay(self):
        return {"yang": self.yangs, "kind": self.kind, "xml": self.xml, "string_only": self.string_only,
                "find": [p.decode("utf-8", "replace") for p in self.extra_paths]}


def gen_cases(cx):
    out = []
    rng = cx.sub_rng("trees")
    n_schemas = cx.n(36, 400)
    for si in range(n_schemas):
        typed = (si % 2 == 0)
        sg = pg.SchemaGen(rng, typed)
        top = sg.module_set()
        yangs = list(pg.render_modules(top))
        ig = pg.InstGen(rng, 0.5)
        docs = [("data", ig.data_tree(top)), ("data", ig.data_tree(top))]
        ops = [n for n in top if n.kind == "rpc"]
        nts = [n for n in top if n.kind == "notif"]
        if ops:
            o = rng.choice(ops)
            docs.append(("rpc", ig.op_tree(o, False)))
            docs.append(("reply", ig.op_tree(o, True)))
        if nts:
            docs.append(("notif", ig.op_tree(rng.choice(nts), False)))
        for output in (False, True):
            a = ig.action_tree(top, output)
            if a:
                docs.append(("reply" if output else "rpc", a))
        for k, x in docs:
            if x:
                out.append(Case(yangs, k, x, not typed, "s%d" % si))
    return out


def corpus_cases():
    d = os.path.join(vpaths.CORPUS, "path")
    out = []
    if os.path.isdir(d):
        for f in sorted(os.listdir(d)):
            if f.endswith(".json"):
                j = json.load(open(os.path.join(d, f)))
                out.append(Case(j["yang"], j["kind"], j["xml"], j.get("string_only", False), "corpus:" + f, j.get("find", ())))
    return out


def run_cases(cx, cases):
    ids = Ids()
    rng = cx.sub_rng("ops")
    # ---------------------------------------------------------------- pass 1: load, serialise, print, laws
    lines, meta = [], []
    for c in cases:
        c.i_s, c.i_t, c.i_p0, c.i_p1, c.i_r = (ids.next(t) for t in ("S", "T", "P", "Q", "R"))
        lines.append("%s path schema %s" % (c.i_s, " ".join(hexs(y) for y in c.yangs)))
        lines.append("%s path tree %s %s" % (c.i_t, c.kind, hexs(c.xml)))
        lines.append("%s path paths 0" % c.i_p0)
        lines.append("%s path paths 1" % c.i_p1)
        lines.append("%s path roundtrip" % c.i_r)
    ri = cx.run_impl(API, lines, component="path")
    good = []
    for c in cases:
        rs, rt = ri.get(c.i_s), ri.get(c.i_t)
        if not ok(rs) or not ok(rt):
            if lost(rs) or lost(rt):
                continue
            # generator produced something libyang does not load: not a finding, but must stay rare
            cx.dist["generator:rejected-" + ("schema" if not ok(rs) else "tree")] += 1
            cx.notes.append("generator case rejected (%s): %s %s" % (c.tag, rs, rt)) if len(cx.notes) < 6 else None
            continue
        c.sser = rs[2] if c.kind == "reply" else rs[1]
        c.tsser, c.types = (rs[4] if c.kind == "reply" else rs[3]), rs[5]
        c.nnodes, c.tser, c.ndflt, c.ttser = int(rt[1]), rt[2], int(rt[3]), rt[4]
        c.forest = pg.parse_ser(c.tser)
        c.addrs = list(pg.all_addrs(c.forest))
        if c.nnodes == 0:
            continue
        good.append(c)
    # ---------------------------------------------------------------- model: all paths
    mlines = []
    for c in good:
        c.m_p0, c.m_p1 = ids.next("m"), ids.next("m")
        mlines.append("%s path pathsof %s 0" % (c.m_p0, c.tser))
        mlines.append("%s path pathsof %s 1" % (c.m_p1, c.tser))
        if not c.string_only:
            c.m_pt = ids.next("m")
            mlines.append("%s path tpathsof %s" % (c.m_pt, c.ttser))
    rm = cx.run_model(mlines)
    for c in good:
        for ty, ii, mi in ((0, c.i_p0, c.m_p0), (1, c.i_p1, c.m_p1)):
            a, b = ri.get(ii), rm.get(mi, ["err", "NoReply"])
            if lost(a):
                continue
            if ok(a) and len(a) - 1 == len(c.addrs):
                for k, ad in enumerate(c.addrs):
                    node = pg.node_at(c.forest, ad)
                    cx.count(("pathsof", ty, c.tser, ad), True, "pathsof:%d:%s" % (ty, node[2]))
                if ty == 0:
                    c.paths = {ad: unhex(a[1 + k]) for k, ad in enumerate(c.addrs)}
            if a != b:
                # first differing node
                k = next((k for k in range(1, min(len(a), len(b))) if a[k] != b[k]), None)
                cx.disagree("path", "pathsof type=%d tree=%s addr=%s" % (ty, c.tser[:4000], pg.addr_str(c.addrs[k - 1]) if k and k - 1 < len(c.addrs) else "?"),
                            a[:1] + ([a[k]] if k else a[1:3]), b[:1] + ([b[k]] if k else b[1:3]))
        if not c.string_only and ok(ri.get(c.i_p0)):
            # lyd_path prints the canonical string of a value key (typed tree serialisation)
            a, b = ri.get(c.i_p0), rm.get(c.m_pt, ["err", "NoReply"])
            cx.count(("tpathsof", c.ttser), True, "tpathsof:" + ("tagged-union-values" if "00" in c.ttser and c.ttser != c.tser else "plain"))
            if a != b:
                cx.disagree("path", "tpathsof tree=%s" % c.ttser[:4000], a[:3], b[:3])
        # laws
        r = ri.get(c.i_r)
        if lost(r):
            continue
        if not ok(r):
            cx.fail("path", "roundtrip op failed: %s" % r, dict(c.replay(), law="op"))
            continue
        nchecks = int(r[2])
        cx.count(("laws", c.tser), True, "laws:trees")
        cx.evaluations += nchecks
        cx.dist["laws:checks"] += nchecks
        for f in r[3:]:
            law, addr, rc = f.split(":")
            addr = tuple(int(x) for x in addr.split("."))
            cx.fail("path", "law `%s` fails on the implementation (rc=%s)" % (law, rc),
                    dict(c.replay(), law=law, addr=list(addr), rc=int(rc), tser=c.tser, ttser=c.ttser, path_hex=hexs(c.paths.get(addr, b""))))
    # ---------------------------------------------------------------- pass 2: buffers, find, newpath
    lines, todo = [], []
    for c in good:
        if not c.paths:
            continue
        lines.append("%s path schema %s" % (ids.next("S"), " ".join(hexs(y) for y in c.yangs)))
        lines.append("%s path tree %s %s" % (ids.next("T"), c.kind, hexs(c.xml)))
        sample = c.addrs if len(c.addrs) <= 6 else rng.sample(c.addrs, 6)
        for ad in sample:
            p = c.paths[ad]
            for ty in (0, 1):
                sizes = {0, 1, 2, 3, len(p), len(p) + 1, len(p) + 2, rng.randrange(2, len(p) + 3), rng.randrange(2, len(p) + 3)}
                # truncation points: every segment / predicate boundary +-1
                for j, ch in enumerate(p):
                    if ch in b"/[]" and rng.random() < 0.35:
                        sizes |= {j, j + 1, j + 2}
                for bl in sorted(sizes):
                    i = ids.next("X")
                    lines.append("%s path pathx %s %d %d" % (i, pg.addr_str(ad), ty, bl))
                    todo.append(("pathx", c, i, "pathof %s %s %d %d" % (c.tser, pg.addr_str(ad), ty, bl), (ad, ty, bl)))
        if c.string_only:
            probes = []
            for ad in sample:
                p, node = c.paths[ad], pg.node_at(c.forest, ad)
                val = node[3] if node[2] in "KeFf" else None
                probes.append((p, val))
                for _ in range(3):
                    probes.append((pg.mutate_path(rng, p), rng.choice([val, b"x", b"", None])))
            probes += [(p, None) for p in c.extra_paths]
            # inside the modelled fragment: absolute paths, no variable references
            probes = [(p, v) for p, v in probes if b"$" not in p and b"\x00" not in p and p.lstrip(b" \t\n\r").startswith(b"/")]
            for p, v in probes:
                i = ids.next("F")
                lines.append("%s path find %s" % (i, hexs(p)))
                todo.append(("find", c, i, "find %s %s %s" % (c.sser, c.tser, hexs(p)), p))
            # lyd_new_path on the existing tree: the model has no default flag (an existing default node is updated, not EEXIST)
            for p, v in (probes if c.ndflt == 0 else []):
                i = ids.next("N")
                lines.append("%s path newpath %s %s" % (i, hexs(p), "~" if v is None else hexs(v)))
                todo.append(("newpath", c, i, "newpath %s %s %s %s" % (c.sser, c.tser, hexs(p), hexs(v or b"")), p))
            lines.append("%s path empty" % ids.next("T"))
            for p, v in probes:
                i = ids.next("E")
                lines.append("%s path newpath %s %s" % (i, hexs(p), "~" if v is None else hexs(v)))
                todo.append(("newpath0", c, i, "newpath %s - %s %s" % (c.sser, hexs(p), hexs(v or b"")), p))
        if not c.string_only:
            for d in set(x.split(":")[0].split("(")[0] + (":" + x.split(":")[2] if x.startswith("t:") else "") for x in c.types.split("~")):
                cx.dist["ttypes:" + d] += 1
            # typed keys: the printed path, every order of the key predicates of its multi-key steps, and mutations that respell
            # predicate values (sign, zeros, blanks, bit order, identityref prefix, Number token), reorder / drop / repeat / rename keys
            probes = []
            for ad in sample[:cx.n(4, 6)]:
                p, node = c.paths[ad], pg.node_at(c.forest, ad)
                val = node[3] if node[2] in "KeFf" else None
                probes.append((p, val, "printed"))
                orders = pg.all_key_orders(p)
                nord = cx.n(2, 5)
                for q in (orders if len(orders) <= nord else rng.sample(orders, nord)):
                    probes.append((q, val, "key-order"))
                for _ in range(cx.n(3, 6)):
                    probes.append((pg.mutate_typed(rng, p), pg.value_variants(rng, val), "mutated"))
            probes += [(p, None, "corpus") for p in c.extra_paths]
            probes = [(p, v, w) for p, v, w in probes if b"$" not in p and b"\x00" not in p and p.lstrip(b" \t\n\r").startswith(b"/")
                      and (v is None or b"\x00" not in v)]
            seen, uniq = set(), []
            for p, v, w in probes:
                if (p, v) not in seen:
                    seen.add((p, v))
                    uniq.append((p, v, w))
            for p, v, w in uniq:
                i = ids.next("G")
                lines.append("%s path find %s" % (i, hexs(p)))
                todo.append(("tfind", c, i, "tfind %s %s %s %s" % (c.tsser, c.types, c.ttser, hexs(p)), (p, w)))
                if c.ndflt == 0:
                    i = ids.next("O")
                    lines.append("%s path tnewpath %s %s" % (i, hexs(p), "~" if v is None else hexs(v)))
                    todo.append(("tnewpath", c, i, "tnewpath %s %s %s %s %s" % (c.tsser, c.types, c.ttser, hexs(p), hexs(v or b"")), (p, w)))
            lines.append("%s path empty" % ids.next("T"))
            for p, v, w in uniq:
                i = ids.next("U")
                lines.append("%s path tnewpath %s %s" % (i, hexs(p), "~" if v is None else hexs(v)))
                todo.append(("tnewpath0", c, i, "tnewpath %s %s - %s %s" % (c.tsser, c.types, hexs(p), hexs(v or b"")), (p, w)))
    if os.environ.get("C15_DUMP"):
        open(os.path.join(os.environ["C15_DUMP"], "pass2-%d.txt" % len(lines)), "w").write("\n".join(lines) + "\n")
    ri = cx.run_impl(API, lines, component="path")
    mlines = ["%s path %s" % (i, ml) for (_, _, i, ml, _) in todo]
    rm = cx.run_model(mlines)
    for what, c, i, ml, extra in todo:
        a, b = ri.get(i), rm.get(i, ["err", "NoReply"])
        if lost(a):
            continue
        if a[-1] == "LOC":
            # law: an API call leaves the thread's log-location stack as it found it
            a = a[:-1]
            cx.fail("path", "%s left a stale log location behind (later errors carry a wrong path; use-after-free once the context is destroyed)" % what,
                    dict(c.replay(), law="logloc", op=what, path_hex=hexs(extra), sser=c.sser, tser=c.tser, reply=a))
        if what == "pathx":
            ad, ty, bl = extra
            av = a[:2]
            bv = b[:2]
            if av == ["ok", "~"]:
                # law: what lyd_path returns is a C string inside the caller's buffer
                cx.fail("path", "lyd_path returned the caller's buffer without a terminating NUL (buflen=%d)" % bl,
                        dict(c.replay(), law="unterminated", addr=list(ad), buflen=bl, model=bv[1] if len(bv) > 1 else None, tser=c.tser))
            # content comparison: nothing written == empty string
            canon = lambda v: ["ok", "-"] if v == ["ok", "~"] else v
            cx.count(("pathx", c.tser, extra), True, "pathx:" + ("dynamic" if bl == 0 else "null" if av[0] == "err" else
                                                                   "full" if av[1:] == [hexs(c.paths[ad])] and ty == 0 else "truncated-or-nolast"))
            if canon(av) != canon(bv):
                cx.disagree("path", "pathx %s  (model: %s)" % (" ".join(str(x) for x in extra), ml[:3000]), a, b)
        else:
            if b[:2] == ["err", "Unsupported"] and a != b:
                cx.dist[what + ":outside-fragment"] += 1
                continue
            if what.startswith("t"):
                cx.count((what, c.ttser, extra[0]), True, "%s:%s:%s" % (what, extra[1] or "-", a[0] if a[0] == "ok" else a[1]))
            else:
                cx.count((what, c.tser, extra), True, "%s:%s" % (what, a[0] if a[0] == "ok" else a[1]))
            if a != b:
                cx.disagree("path", "%s path=%r  (model line: %s)" % (what, extra, ml[:3000]), a, b)
    if todo:
        cx.sample(todo[rng.randrange(len(todo))][3][:600])
    if os.environ.get("C15_DEBUG"):
        for d in cx.disagreements[:int(os.environ["C15_DEBUG"])]:
            print("DISAGREE", d["line"][:300], "\n    impl ", str(d["impl"])[:400], "\n    model", str(d["model"])[:400])


def run(cx):
    cx.rule("trees: random module pairs (base + augmenting module; keyed lists with 1-3 keys of 12 types, config/state leaf-lists, key-less lists, "
            "rpc/action input+output, notifications), documents with awkward key/leaf-list values (quotes, brackets, slashes, '=', Unicode, long); "
            "every node of every tree; non-trivial = distinct (tree, node, op)")
    run_parse(cx)
    run_cases(cx, corpus_cases())
    run_cases(cx, gen_cases(cx))


def replay(cx, payload):
    f = payload.get("failure", {}).get("case", {})
    if "yang" in f:
        run_cases(cx, [Case(f["yang"], f["kind"], f["xml"], f.get("string_only", False), "replay", f.get("find", ()))])
    else:
        run(cx)
