"""Correspondence + laws for component `text` (XML / JSON string escaping and lexing, UTF-8 leaf functions).

Shared by C01 (round trip), C12 (conformance) and C05 (arbitrary input)."""
import itertools, json, xml.parsers.expat
from vlib import gen
from vlib.proto import hexs, unhex

HARNESS = "wb_text"


def _lines(cases, start=0):
    return ["%d text %s" % (start + i, c) for i, c in enumerate(cases)]


def exhaustive_bytes(maxlen, alphabet):
    for n in range(0, maxlen + 1):
        for t in itertools.product(alphabet, repeat=n):
            yield bytes(t)


INTERESTING = [0x09, 0x0A, 0x0D, 0x1F, 0x20, 0x22, 0x23, 0x26, 0x27, 0x2F, 0x30, 0x39, 0x3B, 0x3C, 0x3E, 0x41, 0x5B, 0x5C, 0x5D, 0x61, 0x62, 0x66,
               0x6E, 0x72, 0x74, 0x75, 0x78, 0x7F, 0x80, 0xBF, 0xC2, 0xDF, 0xE0, 0xED, 0xEF, 0xF0, 0xF4, 0xFF]


def gen_strings(cx, tier_quick, tier_thorough):
    rng = cx.sub_rng("text")
    out = []
    # all 1-byte and 2-byte inputs (exhaustive), 3-byte over the interesting alphabet in thorough
    out += list(exhaustive_bytes(1, range(1, 256)))
    out += [bytes(t) for t in itertools.product(range(1, 256), INTERESTING)]
    if cx.tier == "thorough":
        out += [bytes(t) for t in itertools.product(INTERESTING, repeat=3)]
    for _ in range(cx.n(tier_quick, tier_thorough)):
        out.append(gen.valid_text(rng) if rng.random() < 0.7 else gen.any_text(rng))
    for cp in gen.EDGE_CPS:
        out.append(gen.enc_cp(cp))
    out += gen.MALFORMED
    return out


def run_text(cx, want=("xml", "json", "utf8"), law=("roundtrip", "independent")):
    strings = gen_strings(cx, 6000, 150000)
    cx.rule("text: all 1-byte inputs and all (byte x interesting-byte) pairs exhaustively, boundary-pool strings (70% valid YANG text, 30% with a malformed "
            "UTF-8 chunk); non-trivial = distinct request whose reply is ok or a distinct error kind")
    cases = []
    if "utf8" in want:
        for s in strings:
            if len(s) <= 6:
                cases.append("getutf8 " + hexs(s))
                cases.append("checkutf8 %s %d" % (hexs(s), len(s)))
        for cp in gen.EDGE_CPS + [0, 1, 0x1F, 0x7F, 0xD800, 0xDFFF, 0x110000, 0xFFFFFFFF] + [cx.rng.randrange(0, 0x120000) for _ in range(cx.n(500, 20000))]:
            cases.append("pututf8 %d" % cp)
    if "xml" in want:
        for s in strings:
            cases.append("xmldump 0 " + hexs(s))
            cases.append("xmldump 1 " + hexs(s))
            cases.append("xmlparse 3c " + hexs(s + b"<rest"))
            cases.append("xmlparse 22 " + hexs(s + b"\" b"))
        # entity / reference micro-grammar
        refs = [b"&lt;", b"&gt;", b"&amp;", b"&apos;", b"&quot;", b"&lt", b"&foo;", b"&#65;", b"&#x41;", b"&#x4a;", b"&#xg;", b"&#;", b"&#x;", b"&#0;", b"&#9;",
                b"&#11;", b"&#xD800;", b"&#xFFFE;", b"&#x10FFE;", b"&#x10FFFF;", b"&#x110000;", b"&#4294967361;", b"&#65", b"&#x041;", b"<![CDATA[x]]>",
                b"<![CDATA[ ]]>", b"<![CDATA[]]>", b"<![CDATA[a]]", b"<![CDATA[<&\"]]>", b" ", b"\n", b"a", b"\xc3\xa9", b"]]>"]
        rng = cx.sub_rng("xmlrefs")
        for _ in range(cx.n(3000, 60000)):
            k = rng.randrange(1, 5)
            s = b"".join(rng.choice(refs) for _ in range(k))
            cases.append("xmlparse 3c " + hexs(s + b"<"))
            if rng.random() < 0.3:
                cases.append("xmlparse 22 " + hexs(s + b"\""))
    if "json" in want:
        for s in strings:
            cases.append("jsonprint " + hexs(s))
            cases.append("jsonparse " + hexs(s + b"\","))
        escs = [b"\\\"", b"\\\\", b"\\/", b"\\b", b"\\f", b"\\n", b"\\r", b"\\t", b"\\u0041", b"\\u00e9", b"\\u20AC", b"\\uD800", b"\\uFFFE", b"\\uFDD0", b"\\u000", b"\\u00g1",
                b"\\u!!!!", b"\\u\xc3\xa9ab", b"\\x", b"\\", b"a", b" ", b"\t", b"\xc3\xa9", b"\\u0000", b"\\u001f", b"\\u0009"]
        rng = cx.sub_rng("jsonescs")
        for _ in range(cx.n(3000, 60000)):
            k = rng.randrange(1, 5)
            s = b"".join(rng.choice(escs) for _ in range(k))
            cases.append("jsonparse " + hexs(s + (b"\"" if rng.random() < 0.9 else b"")))
    cases = list(dict.fromkeys(cases))
    lines = _lines(cases)

    def kind(line, reply):
        op = line.split()[2]
        return "text:%s:%s" % (op, reply[0] if reply[0] == "ok" else reply[1])

    ri, rm = cx.differential("text", lines, HARNESS, kind=kind)
    laws(cx, strings, ri, lines, want, law)


def laws(cx, strings, ri, lines, want, law):
    """(L) the property's laws evaluated on the implementation's own replies."""
    by_req = {" ".join(l.split()[2:]): ri.get(l.split()[0]) for l in lines}
    for s in strings:
        if not gen.is_yang_text(s):
            continue
        if "xml" in want:
            for attr, endc, tail in ((0, "3c", b"<rest"), (1, "22", b"\" b")):
                d = by_req.get("xmldump %d %s" % (attr, hexs(s)))
                if not d or d[0] != "ok":
                    continue
                printed = unhex(d[1])
                # law 1 (C01): libyang's own lexer returns the string
                # evaluated through a second request batch below
                cx._pending_rt = getattr(cx, "_pending_rt", [])
                cx._pending_rt.append(("xml", attr, endc, s, printed, tail))
                # law 2 (C12): an independent XML parser (expat) recovers the same character data
                doc = (b'<a v="' + printed + b'"/>') if attr else (b"<a>" + printed + b"</a>")
                if "independent" not in law:
                    continue
                ok, got = expat_read(doc, attr)
                cx.count(("expat", attr, s), True, "text:expat:" + ("ok" if ok else "reject"))
                if not ok or got != s.decode("utf-8"):
                    cx.fail("text", "independent XML parser does not recover the printed %s" % ("attribute value" if attr else "element content"),
                            {"string_hex": hexs(s), "printed_hex": hexs(printed), "attr": attr, "expat_ok": ok,
                             "expat_got_hex": hexs(got.encode("utf-8", "surrogatepass")) if ok else None})
        if "json" in want:
            d = by_req.get("jsonprint " + hexs(s))
            if d and d[0] == "ok":
                printed = unhex(d[1])
                cx._pending_rt = getattr(cx, "_pending_rt", [])
                cx._pending_rt.append(("json", 0, None, s, printed, b","))
                if "independent" not in law:
                    continue
                try:
                    got = json.loads(printed.decode("utf-8"))
                    ok = True
                except Exception:
                    ok, got = False, None
                cx.count(("pyjson", s), True, "text:pyjson:" + ("ok" if ok else "reject"))
                if not ok or got != s.decode("utf-8"):
                    cx.fail("text", "independent JSON parser does not recover the printed string",
                            {"string_hex": hexs(s), "printed_hex": hexs(printed), "json_ok": ok})
    # second batch: print -> libyang's own lexer
    pend = getattr(cx, "_pending_rt", []) if "roundtrip" in law else []
    cx._pending_rt = []
    reqs = []
    for i, (fmt, attr, endc, s, printed, tail) in enumerate(pend):
        if fmt == "xml":
            reqs.append("%d text xmlparse %s %s" % (i, endc, hexs(printed + tail)))
        else:
            reqs.append("%d text jsonparse %s" % (i, hexs(printed[1:] + tail)))
    if reqs:
        rr = cx.run_impl(HARNESS, reqs, component="text")
        for i, (fmt, attr, endc, s, printed, tail) in enumerate(pend):
            r = rr.get(str(i), ["err", "NoReply"])
            cx.count(("rt", fmt, attr, s), True, "text:roundtrip:" + fmt)
            if r[0] != "ok" or unhex(r[1]) != s:
                cx.fail("text", "%s print->parse round trip does not return the string" % fmt,
                        {"string_hex": hexs(s), "printed_hex": hexs(printed), "attr": attr, "reply": r})


def expat_read(doc, attr):
    got = []
    p = xml.parsers.expat.ParserCreate("UTF-8")
    if attr:
        p.StartElementHandler = lambda name, attrs: got.append(attrs.get("v", ""))
    else:
        p.CharacterDataHandler = lambda d: got.append(d)
    try:
        p.Parse(doc, True)
    except xml.parsers.expat.ExpatError:
        return False, ""
    return True, "".join(got)


def spec_readers_vs_external(cx, strings):
    """Guards the Lean spec readers themselves: XmlSpec.read / JsonSpec.readToken against expat and Python's json on
    printed text AND on raw (unescaped, possibly ill-formed) text."""
    rng = cx.sub_rng("specguard")
    reqs, meta = [], []
    pool = [s for s in strings if len(s) <= 24]
    rng.shuffle(pool)
    frag = [b"&lt;", b"&gt;", b"&amp;", b"&apos;", b"&quot;", b"&#13;", b"&#xD;", b"&#x9;", b"&#10;", b"&#65;", b"&#x20AC;", b"&#x1F600;", b"&#0;", b"&#xFFFE;",
            b"&#xD800;", b"&foo;", b"&", b"<", b">", b"]]>", b"]]", b"\r", b"\r\n", b"\n", b"\t", b'"', b"'", b"a", b" ", b"\xc3\xa9"]
    cases = pool[:cx.n(1500, 20000)]
    for _ in range(cx.n(1500, 20000)):
        cases.append(b"".join(rng.choice(frag) for _ in range(rng.randrange(1, 5))))
    for i, s in enumerate(cases):
        if b"\x00" in s:
            continue
        for attr in (0, 1):
            reqs.append("%d text specxml %d %s" % (len(reqs), attr, hexs(s)))
            meta.append(("xml", attr, s))
    jfrag = [b'\\"', b"\\\\", b"\\/", b"\\b", b"\\f", b"\\n", b"\\r", b"\\t", b"\\u0041", b"\\u00e9", b"\\u20AC", b"\\uD83D\\uDE00", b"\\uD800", b"\\uDC00", b"\\u00g1",
             b"\\x", b"a", b" ", b"\t", b"\n", b"\xc3\xa9", b"\\u0000", b"\\u001f", b"\x7f"]
    for _ in range(cx.n(2000, 30000)):
        s = b'"' + b"".join(rng.choice(jfrag) for _ in range(rng.randrange(0, 5))) + b'"'
        reqs.append("%d text specjson %s" % (len(reqs), hexs(s)))
        meta.append(("json", 0, s))
    rm = cx.run_model(reqs)
    for i, (fmt, attr, s) in enumerate(meta):
        r = rm.get(str(i), ["err", "NoReply"])
        if fmt == "xml":
            try:
                if any(ord(ch) in (0xFFFE, 0xFFFF) for ch in s.decode("utf-8")):
                    continue   # multi-byte non-Chars: not judged by the byte-level reader either
            except UnicodeDecodeError:
                continue   # the byte-level spec reader does not judge UTF-8 well-formedness
            doc = (b'<a v="' + s + b'"/>') if attr else (b"<a>" + s + b"</a>")
            ok, got = expat_read(doc, attr)
            mine = (r[0] == "ok", unhex(r[1]) if r[0] == "ok" else b"")
            theirs = (ok, got.encode("utf-8", "surrogatepass") if ok else b"")
            if not attr and ok and b"<" in s:
                # markup inside content that expat accepts (CDATA section, comment, PI, child element): XmlSpec.read is the
                # reader of character data and references only (XML 1.0 [14] CharData, [67] Reference) and stops at '<'
                cx.count(None, False, "text:specxml-vs-expat:markup-in-content(out-of-fragment)")
                continue
            cx.count(("specxml", attr, s), True, "text:specxml-vs-expat:" + ("ok" if ok else "reject"))
            if mine != theirs:
                cx.disagree("text-spec", reqs[i], ["expat", str(ok), hexs(theirs[1])], r)
        else:
            try:
                got = json.loads(s.decode("utf-8"))
                ok = isinstance(got, str)
                gb = got.encode("utf-8", "surrogatepass") if ok else b""
                if ok and any(0xD800 <= ord(ch) <= 0xDFFF for ch in got):
                    ok, gb = False, b""     # Python keeps lone surrogates; RFC 8259 strings of scalar values only
            except Exception:
                ok, gb = False, b""
            mine = (r[0] == "ok", unhex(r[1]) if r[0] == "ok" else b"")
            cx.count(("specjson", s), True, "text:specjson-vs-python:" + ("ok" if ok else "reject"))
            if mine != (ok, gb):
                cx.disagree("text-spec", reqs[i], ["pyjson", str(ok), hexs(gb)], r)
