"""Correspondence + laws for component `val` (typed values, property C03).

Request lines name the type by a one-token descriptor (see harness/api_types.c); the harness builds the YANG leaf from
it, the model (`lean/LyModel/Val`) interprets it directly.  Three kinds of evidence are produced:

(K) differential: `store` / `validate` / `cmp` / `lybrt` / `unlyb` lines go to both sides, replies must be equal;
(L) laws evaluated on the implementation's own replies: canonical idempotence, value == its canonical re-store,
    equality <=> canonical equality, sort callback total & consistent with equality & with the order of a
    system-ordered leaf-list, dup / value-LYB / tree-LYB round trip, same verdict from every source (XML, JSON string,
    JSON literal, lyd_new_term, lyd_value_validate, default statement, path predicate) modulo the generated hint table;
(L') the same laws for the derived types of ietf-inet-types / ietf-yang-types (no model: implementation only).
"""
import itertools, re
from vlib import gen
from vlib.proto import hexs, unhex

HARNESS = "api_types"
COMP = "val"

HINT_DATA = 0x03F3          # XML, lyd_new_term, lyd_value_validate, path predicates
HINT_SCHEMA = 0x03FF        # default statements
HINT_JSON_STRING = 0x0011   # LYD_VALHINT_STRING | LYD_VALHINT_NUM64
HINT_JSON_NUMBER = 0x0002   # LYD_VALHINT_DECNUM
HINT_JSON_BOOL = 0x0020
ALL_HINTS = [HINT_DATA, HINT_SCHEMA, HINT_JSON_STRING, HINT_JSON_NUMBER, HINT_JSON_BOOL, 0, 1, 4, 8, 16, 64, 6, 12, 18, 24, 20]     # 4 / 20: base 8 only, 8 / 24: base 16 only

INTS = {"i8": (-2**7, 2**7 - 1), "i16": (-2**15, 2**15 - 1), "i32": (-2**31, 2**31 - 1), "i64": (-2**63, 2**63 - 1),
        "u8": (0, 2**8 - 1), "u16": (0, 2**16 - 1), "u32": (0, 2**32 - 1), "u64": (0, 2**64 - 1)}
ALPHABET = b"0123456789+- \t.xa"
WS = [b" ", b"\t", b"\n", b"\r", b"\x0b", b"\x0c", b"  ", b" \t\n"]


def _lines(cases, start=0):
    return ["%d %s %s" % (start + i, COMP, c) for i, c in enumerate(cases)]


# ------------------------------------------------------------------------------------------- type families
def int_types(rng):
    """all eight integer types, each without a range and with two multi-part ranges"""
    out = []
    for t, (lo, hi) in INTS.items():
        out.append(t)
        span = hi - lo
        a = lo + span // 8; b = lo + span // 4; c = lo + span // 2; d = hi - span // 8
        out.append("%s:%d..%d,%d..%d,%d..%d" % (t, lo, lo, a, b, c, c))              # min singleton, middle part, singleton
        out.append("%s:%d..%d,%d..%d" % (t, lo + 1, a, d, hi))                          # excludes min, ends at max
        e1 = rng.randrange(lo, hi - 10); e2 = rng.randrange(e1 + 2, hi)
        out.append("%s:%d..%d,%d..%d" % (t, lo, e1, e2, hi))                            # random hole
    return out


def parse_desc(d):
    head, _, spec = d.partition(":")
    parts = []
    if spec and head not in ("enum", "bits", "t"):
        for p in spec.split(","):
            a, b = p.split("..")
            parts.append((int(a), int(b)))
    return head, parts


def dec_types(rng, fds):
    out = []
    for fd in fds:
        out.append("d%d" % fd)
        out.append("d%d:%d..%d,%d..%d,%d..%d" % (fd, -2**63, -2**63 + 5, -15, 25, 5 * 10**fd, 2**63 - 1))
        a = rng.randrange(-10**6, 0); b = rng.randrange(1, 10**6)
        out.append("d%d:%d..%d,%d..%d" % (fd, a, a, b, 2**63 - 2))
    return out


ENUM_TYPES = ["enum:%s=0,%s=5,%s=-3" % (hexs(b"x"), hexs(b"y"), hexs(b"z")),
              "enum:%s=-2147483648,%s=2147483647,%s=7,%s=8" % (hexs(b"lo"), hexs(b"hi"), hexs(b"b c"), hexs(b"true")),
              "enum:%s=1" % hexs(b"only")]
BITS_TYPES = ["bits:%s=0,%s=1,%s=2" % (hexs(b"a"), hexs(b"b"), hexs(b"c")),
              "bits:%s=0,%s=3,%s=9" % (hexs(b"a"), hexs(b"b"), hexs(b"c")),
              "bits:%s=1,%s=7,%s=8,%s=15,%s=16,%s=31" % tuple(hexs(x) for x in (b"p1", b"p7", b"p8", b"p15", b"p16", b"p31")),
              "bits:%s=0,%s=32,%s=63" % (hexs(b"z"), hexs(b"m"), hexs(b"t")),
              "bits:%s=5,%s=64,%s=70" % (hexs(b"e"), hexs(b"f"), hexs(b"g")),
              "bits:%s=2" % hexs(b"one")]
STR_TYPES = ["str", "str:0..0,2..3,5..5", "str:1..4", "str:3..18446744073709551615"]


def items_of(desc):
    res = []
    for p in desc.split(":", 1)[1].split(","):
        h, v = p.split("=")
        res.append((unhex(h), int(v)))
    return res


# ---------------------------------------------------------------------------------------- lexical generators
def int_lexicals(rng, lo, hi, parts, n_random):
    """boundary-dense lexical forms for an integer type with bounds lo..hi and range parts"""
    edges = {0, 1, -1, 7, 8, 9, 10, 15, 16, 17, 63, 64, 100, 127, 128, 255, 256, lo, hi, lo - 1, lo + 1, hi - 1, hi + 1,
             2**63 - 1, 2**63, 2**63 + 1, -2**63, -2**63 - 1, -2**63 + 1, 2**64 - 1, 2**64, 2**64 + 1, -(2**64) + 1, -(2**64 - 1) - 1,
             2**31, -2**31 - 1, 2**32, 10**19, 10**20, -10**19}
    for a, b in parts:
        edges |= {a - 1, a, a + 1, b - 1, b, b + 1}
    for _ in range(n_random):
        edges.add(rng.randrange(lo - 3, hi + 4))
        edges.add(rng.randrange(-2**64 - 5, 2**64 + 5))
    out = set()
    for v in edges:
        s = str(v).encode()
        mag = str(abs(v)).encode()
        sign = b"-" if v < 0 else b""
        out |= {s, b"+" + s, sign + b"0" + mag, sign + b"000" + mag, b" " + s, s + b" ", b"\t" + s + b"\n", s + b"x", s + b" x", s + b".0", s + b"e0",
                sign + b" " + mag, b"0x%x" % abs(v), sign + b"0X%X" % abs(v), sign + b"0%o" % abs(v), sign + b"0" * 20 + mag,
                sign + b"%x" % abs(v), sign + b"%o" % abs(v)}        # digits of base 16 / 8 without a prefix (hint sets that select one base)
        if v >= 0:
            out |= {b"-" + s, b"+0" + mag}
        if rng.random() < 0.3:
            out.add(rng.choice(WS) + s + rng.choice(WS))
    # digit-count sweep 0..20, assorted malformed
    for nd in range(0, 21):
        ds = bytes(rng.choice(b"0123456789") for _ in range(nd))
        out |= {ds, b"-" + ds, b"+" + ds}
    out |= {b"", b" ", b"+", b"-", b"--1", b"+-1", b"-+1", b"++1", b"0x", b"0X", b"0xg", b"-0x", b"0x 1", b"08", b"09", b"-08", b"0b1", b"0B1", b"1_0", b"1,0", b"0x-1",
            b"\xc2\xa01", b"1\xc2\xa0", b"\xef\xbc\x91", b"1\x0b", b"\x0c1", b"1 2", b"- 1", b"+ 1", b"0-", b"a", b"x", b".", b"1.", b".1", b"1e1", b"0x1p1", b"NaN", b"inf",
            b"-0", b"+0", b"00", b"-00", b"0 ", b" 0", b"\n0\n",
            b"ff", b"FF", b"fF", b"-ff", b"7f", b"80", b"-80", b"g", b"fg", b"0xfg", b"x1", b"0x0x1", b"00x1", b"0x+1", b"-0x0", b"8", b"-8", b"78", b"0778", b"-0X"}
    return sorted(out)


def dec_render(m, fd):
    sign = "-" if m < 0 else ""
    a = abs(m)
    ip, fr = divmod(a, 10**fd)
    return sign, str(ip), "%0*d" % (fd, fr)


def dec_lexicals(rng, fd, parts, n_random):
    ms = {0, 1, -1, 5, -5, 10, -10, 10**fd, -(10**fd), 10**fd - 1, 10**fd + 1, 2**63 - 1, 2**63, 2**63 + 1, -2**63, -2**63 - 1, -2**63 + 1,
          (2**63 - 1) // 10 * 10, -(2**63) // 10 * 10, 10**18, -(10**18), 10**19, 99, -99, 100, 12345}
    for a, b in parts:
        ms |= {a - 1, a, a + 1, b - 1, b, b + 1}
    for _ in range(n_random):
        ms.add(rng.randrange(-2**63 - 20, 2**63 + 20))
        ms.add(rng.randrange(-10**(fd + 2), 10**(fd + 2)))
    out = set()
    for m in ms:
        sign, ip, fr = dec_render(m, fd)
        frs = fr.rstrip("0")
        forms = {sign + ip + "." + fr, sign + ip + "." + (frs or "0"), sign + ip + "." + fr + "0", sign + ip + "." + fr + "000", "+" + ip + "." + fr,
                 sign + "00" + ip + "." + fr, " " + sign + ip + "." + fr + " ", sign + ip + "." + fr + "1", sign + ip + "." + fr + "x", sign + ip + "." + fr + " x",
                 sign + ip + "." + frs, sign + ip, sign + ip + ".", sign + "." + fr, sign + " " + ip + "." + fr, sign + ip + " ." + fr, sign + ip + ". " + fr,
                 sign + ip + "." + fr + "\t\n", "\r" + sign + ip + "." + fr, sign + ip + "." + fr + "e1", sign + ip + "," + fr, sign + ip + ".." + fr}
        if frs == "":
            forms |= {sign + ip + ".0", sign + ip + ".00000000000000000000"}
        out |= {f.encode() for f in forms}
    # 0..19 integer digits x 0..19 fraction digits, with and without sign / point
    for ni in range(0, 20):
        for nf in range(0, 20):
            ipd = "".join(rng.choice("0123456789") for _ in range(ni))
            frd = "".join(rng.choice("0123456789") for _ in range(nf))
            sg = rng.choice(["", "", "-", "+"])
            out.add((sg + ipd + "." + frd).encode())
            if rng.random() < 0.25:
                out.add((sg + ipd + frd).encode())
            if rng.random() < 0.25:
                out.add((sg + ipd.lstrip("0") + "." + frd.rstrip("0")).encode())
    out |= {b"", b" ", b"+", b"-", b".", b"+.", b"-.", b"+ ", b" - ", b"+.5", b"-.5", b".5", b"5.", b"+5.", b"-0", b"+0", b"-0.0", b"0.0", b"0", b"00.00", b"--1.0", b"+-1.0",
            b"1.0.0", b"1e1", b"0x1.0", b"1.0 1", b" 1.0", b"1.0\x0b", b"\x0c1.0", b"1 .0", b"+\t", b"-\n", b"+x", b"-x", b"1.x", b"1.+1", b"1.-1", b"NaN", b"INF", b"- 1.0",
            b"\xc2\xa01.0", b"9223372036854775807", b"9223372036854775808", b"-9223372036854775808", b"-9223372036854775809"}
    return sorted(out)


def bits_lexicals(rng, desc, n_random):
    names = [n for n, _ in items_of(desc)]
    out = {b"", b" ", b"\t\n", b"nope", names[0], names[0] + b" " + names[0], names[0] + b"x", b"x" + names[0], names[0] + b",", names[0].upper()}
    for k in range(0, len(names) + 1):
        for comb in itertools.islice(itertools.permutations(names, k), 24):
            out.add(b" ".join(comb))
            out.add(b"  ".join(comb) + b" ")
            out.add(b"\t" + b"\n".join(comb))
    for _ in range(n_random):
        k = rng.randrange(0, len(names) + 2)
        toks = [rng.choice(names + [b"zz"] if rng.random() < 0.15 else names) for _ in range(k)]
        sep = [rng.choice([b" ", b"  ", b"\t", b"\n", b"\r\n", b"\x0b", b"\x0c"]) for _ in range(k + 1)]
        s = (sep[0] if rng.random() < 0.3 else b"")
        for i, t in enumerate(toks):
            s += t + (sep[i + 1] if i + 1 < len(toks) or rng.random() < 0.3 else b"")
        out.add(s)
    return sorted(out)


def enum_lexicals(desc):
    names = [n for n, _ in items_of(desc)]
    out = {b"", b" ", b"nope", b"0", b"5"}
    for n in names:
        out |= {n, b" " + n, n + b" ", n.upper(), n[:-1], n + b"x", n + b"\n"}
    return sorted(out)


STR_POOL = [b"", b"a", b"ab", b"abc", b"abcd", b"abcde", b"abcdef", b" ", b"  ", b" a ", b"\t", b"\n", b"a\nb", "é".encode(), "éa".encode(), "ééé".encode(), "€".encode(), "€€".encode(),
            "\U00010000".encode(), "\U00010000a".encode(), "a\U0010ffffb".encode(), b"\xef\xbf\xbd", b"\xef\xbf\xbe", b"\xef\xbf\xbf", b"a\xef\xbf\xbe", b"\xed\x9f\xbf", b"\xee\x80\x80",
            b"\xef\xb7\x90", b"\xf0\x9f\xbf\xbe", b"\xf4\x8f\xbf\xbf", b"\x7f", b"\xc2\x80", b"\xdf\xbf", b"\xe0\xa0\x80",
            # malformed
            b"\x80", b"\xc0\x80", b"\xc1\xbf", b"\xc2", b"a\xc2", b"\xe0\x80\x80", b"\xe0\x9f\xbf", b"\xe2\x82", b"\xed\xa0\x80", b"\xed\xbf\xbf", b"\xf0\x80\x80\x80", b"\xf0\x8f\xbf\xbf",
            b"\xf0\x90\x80", b"\xf4\x90\x80\x80", b"\xf5\x80\x80\x80", b"\xf8\x88\x80\x80\x80", b"\xfe", b"\xff", b"\x01", b"\x1f", b"\x0b", b"a\x01", b"ab\xff", b"\xf0\x81\x80\x80",
            b"true", b"0", b"-1", b"a b c", b"0123456789abcdefghij"]


# ------------------------------------------------------------------------------------------ the check proper
def kind(line, reply):
    t = line.split()
    ty = "union" if t[3].startswith("U(") else t[3].split(":")[0]
    ty = re.sub(r"^d\d+$", "dec64", ty)
    return "val:%s:%s:%s" % (t[2], ty, reply[0] if reply[0] == "ok" else reply[1])


def nontrivial(line, reply):
    return True


class Run:
    def __init__(self, cx):
        self.cx = cx
        self.nid = 0
        self.impl = {}      # request text (without id) -> reply tokens of the implementation

    def diff(self, cases, chunk=400000):
        cases = list(dict.fromkeys(cases))
        for off in range(0, len(cases), chunk):
            part = cases[off:off + chunk]
            lines = _lines(part, self.nid)
            self.nid += len(part)
            ri, _ = self.cx.differential(COMP, lines, HARNESS, kind=kind, nontrivial=nontrivial)
            for l in lines:
                i, _, rest = l.split(" ", 2)
                self.impl[rest] = ri.get(i, ["err", "NoReply"])

    def impl_only(self, cases, count_kind=None):
        cases = [c for c in dict.fromkeys(cases) if c not in self.impl]
        lines = _lines(cases, self.nid)
        self.nid += len(cases)
        if lines:
            ri = self.cx.run_impl(HARNESS, lines, component=COMP)
            for l in lines:
                i, _, rest = l.split(" ", 2)
                r = ri.get(i, ["err", "NoReply"])
                self.impl[rest] = r
                self.cx.count(rest, True, count_kind or kind(l, r))

    def get(self, case):
        return self.impl.get(case, ["err", "NoReply"])


def exhaustive_small(run, maxlen):
    """every string of length <= maxlen over the 17-character alphabet, for int8 and uint8, data and schema hints"""
    cx = run.cx
    n = 0
    cases = []
    for L in range(0, maxlen + 1):
        for t in itertools.product(ALPHABET, repeat=L):
            h = hexs(bytes(t))
            cases.append("validate i8 " + h)
            cases.append("validate u8 " + h)
            cases.append("store i8 %d %s" % (HINT_SCHEMA, h))
            cases.append("store u8 %d %s" % (HINT_SCHEMA, h))
            n += 1
            if len(cases) >= 400000:
                run.diff(cases); cases = []
    run.diff(cases)
    cx.dist["val:exhaustive-strings<=%d" % maxlen] = n
    cx.rule("val: EXHAUSTIVE sub-space: all %d strings of length <= %d over the 17-character alphabet {0-9,+,-,space,tab,.,x,a} for int8 and uint8, "
            "through lyd_value_validate (data hints, base 10) and through the store callback with LYD_HINT_SCHEMA (base 0)" % (n, maxlen))


def corpus(run):
    """corpus/val/*.txt: hand seeds and minimised past disagreements, one request per line (without id / component); run first"""
    import os
    from vlib import paths
    d = os.path.join(paths.CORPUS, "val")
    both, impl = [], []
    if os.path.isdir(d):
        for f in sorted(os.listdir(d)):
            if not f.endswith(".txt"):
                continue
            for l in open(os.path.join(d, f)):
                l = l.split("#")[0].strip()
                if not l:
                    continue
                (impl if l.startswith(("routes ", "validate_n ")) or " t:" in l else both).append(l)
    run.diff(both)
    run.impl_only(impl, count_kind="val:corpus")
    run.cx.dist["val:corpus-lines"] = len(both) + len(impl)


def run_val(cx, derived=True):
    import time
    cx_t0 = time.time()
    run = Run(cx)
    rng = cx.sub_rng("val")
    corpus(run)
    exhaustive_small(run, cx.n(4, 5))

    accepted = {}     # type -> list of accepted lexicals (data hints)

    # ---- integers: boundary-dense
    cases = []
    ity = int_types(rng)
    lex_of = {}
    for d in ity:
        head, parts = parse_desc(d)
        lo, hi = INTS[head]
        lex = int_lexicals(rng, lo, hi, parts, cx.n(12, 120))
        lex_of[d] = lex
        for s in lex:
            if b"\x00" in s: continue
            cases.append("validate %s %s" % (d, hexs(s)))
        for s in lex[::cx.n(5, 1)]:
            for h in ALL_HINTS[1:]:
                cases.append("store %s %d %s" % (d, h, hexs(s)))
    cx.rule("val: integers boundary-dense: all eight types, each without range and with three multi-part ranges; values at type min/max +-1, range-part edges +-1, "
            "+-2^63, 2^64 edges; lexical variants (sign, leading zeros, six whitespace characters before/after, trailing garbage, 0x/0 prefixes, 0..20 digits); "
            "15 hint sets incl. data, schema, JSON string, JSON number")
    # ---- decimal64: every fraction-digits value
    dty = dec_types(rng, range(1, 19))
    for d in dty:
        head, parts = parse_desc(d)
        fd = int(head[1:])
        lex = dec_lexicals(rng, fd, parts, cx.n(6, 80))
        if ":" in d and cx.tier != "thorough":
            lex = lex[::3]
        lex_of[d] = lex
        for s in lex:
            cases.append("validate %s %s" % (d, hexs(s)))
        for s in lex[::cx.n(40, 8)]:
            for h in (HINT_SCHEMA, HINT_JSON_STRING, HINT_JSON_NUMBER, 0):
                cases.append("store %s %d %s" % (d, h, hexs(s)))
    cx.rule("val: decimal64: fraction-digits 1..18, each without range and with two multi-part ranges; mantissas at +-2^63 edges, powers of ten, range edges; "
            "0..19 integer digits x 0..19 fraction digits; signs, bare '.', '+', '-' forms, trailing zeros beyond fraction-digits, whitespace, garbage")
    # ---- boolean / enumeration / bits / string
    for s in [b"true", b"false", b"TRUE", b"True", b"1", b"0", b"", b" true", b"true ", b"truee", b"tru", b"fals", b"false\n", b"yes"]:
        for h in ALL_HINTS:
            cases.append("store bool %d %s" % (h, hexs(s)))
        cases.append("validate bool " + hexs(s))
    lex_of["bool"] = [b"true", b"false", b"TRUE", b"True", b"1", b"0", b"", b" true", b"true ", b"truee", b"tru", b"fals", b"false\n", b"yes"]
    for d in ENUM_TYPES:
        lex_of[d] = enum_lexicals(d)
        for s in lex_of[d]:
            cases.append("validate %s %s" % (d, hexs(s)))
            cases.append("store %s %d %s" % (d, HINT_JSON_NUMBER, hexs(s)))
    for d in BITS_TYPES:
        lex_of[d] = bits_lexicals(rng, d, cx.n(60, 600))
        for s in lex_of[d]:
            cases.append("validate %s %s" % (d, hexs(s)))
    for d in STR_TYPES:
        lex_of[d] = STR_POOL
        for s in STR_POOL:
            cases.append("validate %s %s" % (d, hexs(s)))
            cases.append("store %s %d %s" % (d, HINT_JSON_NUMBER, hexs(s)))
    cx.rule("val: boolean, three enumerations (negative / INT32-edge values, a name with a space), six bits types (dense, gaps, 2/4/8/9-byte bitmaps; token "
            "permutations, duplicates, unknown names, six separators), string with four length sets over a pool of multi-byte, non-character and malformed UTF-8")
    run.diff(cases)

    for d, lex in lex_of.items():
        accepted[d] = [s for s in lex if run.get("validate %s %s" % (d, hexs(s)))[0] == "ok"]

    # ---- (L) acceptance against an oracle written from the RFC (hits finding F2: decimal64 without an integer digit)
    laws_accept(run, lex_of)

    # ---- (K)+(L) compare / sort / order, LYB round trip, canonical idempotence
    cases = []
    pairs = {}
    for d, acc in accepted.items():
        if not acc: continue
        sub = list(acc)
        rng.shuffle(sub)
        sub = sub[:cx.n(14, 40)]
        # make sure a few same-value/different-lexical pairs are present
        pr = [(a, b) for a in sub for b in sub]
        if len(pr) > cx.n(60, 500):
            pr = rng.sample(pr, cx.n(60, 500)) + [(a, a) for a in sub[:3]]
        pairs[d] = (sub, pr)
        for a, b in pr:
            cases.append("cmp %s %s %s" % (d, hexs(a), hexs(b)))
            cases.append("cmp %s %s %s" % (d, hexs(b), hexs(a)))
        for a in sub:
            cases.append("lybrt %s %s" % (d, hexs(a)))
    run.diff(cases)
    cases = []
    for d, acc in accepted.items():
        for a in acc[::cx.n(3, 1)]:
            r = run.get("validate %s %s" % (d, hexs(a)))
            c = unhex(r[1])
            cases.append("validate %s %s" % (d, hexs(c)))
            if b"\x00" not in c and b"\x00" not in a:
                cases.append("cmp %s %s %s" % (d, hexs(a), hexs(c)))
    run.diff(cases)
    laws_value(run, accepted, pairs)

    # ---- LYB decode of arbitrary value bytes (inside the fragment: bits only over defined positions)
    cases = []
    for d in ity[::4] + ity[1::4] + ["d2", "d18", dty[1], "bool"] + ENUM_TYPES + STR_TYPES[:2]:
        head, _ = parse_desc(d)
        size = {"i8": 1, "u8": 1, "i16": 2, "u16": 2, "i32": 4, "u32": 4, "i64": 8, "u64": 8, "bool": 1, "enum": 4}.get(head, 8 if head.startswith("d") else 3)
        for n in {0, 1, 2, 3, 4, 5, 7, 8, 9, size}:
            for _ in range(cx.n(3, 20)):
                b = bytes(rng.choice([0, 1, 0x7f, 0x80, 0xff, rng.randrange(256)]) for _ in range(n))
                if head == "str" and b"\x00" in b: continue
                cases.append("unlyb %s %s" % (d, hexs(b)))
        if head == "enum":
            for _, v in items_of(d):
                cases.append("unlyb %s %s" % (d, hexs((v % 2**32).to_bytes(4, "little"))))
                cases.append("unlyb %s %s" % (d, hexs(((v + 1) % 2**32).to_bytes(4, "little"))))
    for d in BITS_TYPES:
        items = items_of(d)
        last = items[-1][1]
        need = (last + 1 + 7) // 8
        size = need if need <= 2 else 4 if need < 5 else 8 if need < 9 else need
        for _ in range(cx.n(10, 100)):
            m = 0
            for _, p in items:
                if rng.random() < 0.5: m |= 1 << p
            cases.append("unlyb %s %s" % (d, hexs(m.to_bytes(size, "little"))))
        for n in (0, size - 1, size + 1):
            cases.append("unlyb %s %s" % (d, hexs(bytes(n))))
    run.diff(cases)
    cx.rule("val: LYB value decode of boundary byte strings of every size 0..9 for the fixed-size types; bits bitmaps over defined positions only "
            "(an undefined position set is finding F64, replayed separately)")

    laws_value_len(run, lex_of)
    routes(run, accepted, lex_of)
    if derived:
        derived_types(run)
    f51_witness(run)
    import time
    from checks import valdt, valunion, valhex, valbin, valinst, valinet
    t0 = time.time()
    cx.dist["val:seconds:base-families"] = int(t0 - cx_t0)
    for name, fn in (("union-pattern-identityref", valunion.run_all), ("date-and-time", valdt.run_dt), ("hex-string", valhex.run_hex), ("binary", valbin.run_bin),
                     ("instance-identifier", valinst.run_inst), ("inet", valinet.run_inet)):
        t1 = time.time()
        fn(run)
        cx.dist["val:seconds:" + name] = int(time.time() - t1)
    cx.notes.append("val: wall seconds per family: " + ", ".join("%s %d" % (k.split(":", 2)[2], v) for k, v in sorted(cx.dist.items()) if k.startswith("val:seconds:")))
    return run


# ------------------------------------------------------------------------------------------------ (L) laws
def laws_value(run, accepted, pairs):
    cx = run.cx
    for d, (sub, pr) in pairs.items():
        srt = {}
        for a, b in pr + [(b, a) for a, b in pr]:
            r = run.get("cmp %s %s %s" % (d, hexs(a), hexs(b)))
            if r[0] != "ok":
                cx.fail(COMP, "a value accepted by lyd_value_validate is rejected by lyd_new_term", {"type": d, "a_hex": hexs(a), "b_hex": hexs(b), "reply": r, "law": "same_verdict"})
                continue
            eq, so, ceq, o12, o21 = r[1], int(r[2]), r[3], r[4], r[5]
            srt[(a, b)] = so
            case = {"type": d, "a_hex": hexs(a), "b_hex": hexs(b), "reply": r}
            cx.count(("law-eq", d, a, b), True, "val:law:eq-canon-sort")
            if eq == "2":
                cx.fail(COMP, "lyd_compare_single, lyd_value_compare and the compare callback disagree", dict(case, law="eq_entry_points"))
            if (eq == "1") != (ceq == "1"):
                cx.fail(COMP, "equality differs from canonical-string equality", dict(case, law="eq_iff_canon_eq"))
            if (so == 0) != (eq == "1"):
                cx.fail(COMP, "sort callback returns 0 for unequal values or non-zero for equal ones", dict(case, law="sort_consistent_with_eq"))
            want12 = "a" if so <= 0 else "b"
            want21 = "a" if so < 0 else "b"
            if (o12, o21) != (want12, want21):
                cx.fail(COMP, "order of a system-ordered leaf-list is not the one the sort callback defines", dict(case, law="leaflist_order"))
            if so != 0 and o12 != o21:
                cx.fail(COMP, "order of two sort-distinct values in a system-ordered leaf-list depends on the insertion order", dict(case, law="leaflist_order"))
        for (a, b), so in srt.items():
            if (b, a) in srt and srt[(b, a)] != -so:
                cx.fail(COMP, "sort callback is not antisymmetric", {"type": d, "a_hex": hexs(a), "b_hex": hexs(b), "ab": so, "ba": srt[(b, a)], "law": "sort_total_order"})
        keys = list(srt.keys())
        # transitivity on the sampled triples
        by_first = {}
        for (a, b) in keys:
            by_first.setdefault(a, []).append(b)
        for (a, b) in keys:
            for c in by_first.get(b, [])[:6]:
                if (a, c) in srt:
                    cx.count(("law-trans", d, a, b, c), True, "val:law:sort-transitive")
                    if srt[(a, b)] <= 0 and srt[(b, c)] <= 0 and srt[(a, c)] > 0:
                        cx.fail(COMP, "sort callback is not transitive", {"type": d, "a_hex": hexs(a), "b_hex": hexs(b), "c_hex": hexs(c), "law": "sort_total_order"})
        for a in sub:
            r = run.get("lybrt %s %s" % (d, hexs(a)))
            v = run.get("validate %s %s" % (d, hexs(a)))
            cx.count(("law-lyb", d, a), True, "val:law:lyb-dup-roundtrip")
            case = {"type": d, "value_hex": hexs(a), "reply": r}
            if r[0] != "ok" or r[3] != "1" or (v[0] == "ok" and r[2] != v[1]):
                cx.fail(COMP, "value -> LYB -> value does not return an equal value with the same canonical form", dict(case, law="lyb_value_roundtrip"))
            elif r[4] != "1":
                cx.fail(COMP, "a duplicated value differs from the original", dict(case, law="dup"))
            elif r[5] != "1":
                cx.fail(COMP, "data tree printed in LYB and parsed back differs", dict(case, law="lyb_tree_roundtrip"))
    for d, acc in accepted.items():
        for a in acc:
            r = run.get("validate %s %s" % (d, hexs(a)))
            c = unhex(r[1])
            r2 = run.impl.get("validate %s %s" % (d, hexs(c)))
            if r2 is None:
                continue
            cx.count(("law-idem", d, a), True, "val:law:canonical-idempotent")
            case = {"type": d, "value_hex": hexs(a), "canonical_hex": hexs(c), "reply": r2}
            if r2[0] != "ok" or r2[1] != r[1]:
                cx.fail(COMP, "storing the canonical string does not return the same canonical string", dict(case, law="canon_idempotent"))
            rc = run.impl.get("cmp %s %s %s" % (d, hexs(a), hexs(c)))
            if rc is not None and (rc[0] != "ok" or rc[1] != "1"):
                cx.fail(COMP, "a value is not equal to the value stored from its canonical string", dict(case, law="canon_idempotent", cmp=rc))
            head = d.split(":")[0]
            if head in INTS or re.match(r"d\d+$", head):
                ok = re.match(rb"^(0|-?[1-9][0-9]*)$", c) if head in INTS else re.match(rb"^(-?(0|[1-9][0-9]*)\.([0-9]*[1-9]|0))$", c)
                if not ok or c in (b"-0", b"-0.0"):
                    cx.fail(COMP, "canonical form is not the RFC 7950 canonical form", dict(case, law="canon_is_rfc_canonical"))


# ------------------------------------------- (L) a value is the bytes [value, value + value_len), nothing beyond
def laws_value_len(run, lex_of):
    """lyd_value_validate(value, value_len) on a prefix of a longer buffer must give the verdict of the prefix alone, and must
    not read past value_len when the buffer ends there (finding F51: lyplg_type_parse_dec64 looks at value[len + 1])."""
    cx = run.cx
    rng = cx.sub_rng("value_len")
    cases = []
    for d, lex in lex_of.items():
        head = d.split(":")[0]
        if ":" in d or not (head in INTS or re.match(r"d\d+$", head) or head in ("bool", "str")):
            continue
        pool = [s for s in lex if 2 <= len(s) <= 24 and b"\x00" not in s]
        rng.shuffle(pool)
        must = [b"1.5", b"1.x", b"-0.25", b"12.", b"7.0"] if head.startswith("d") else [b"12345", b"1 2", b"truex"]
        for k, s in enumerate(must + pool[:cx.n(6, 40)]):
            cuts = {len(s) - 1, 1} | ({s.index(b".") + 1} if b"." in s else set())
            for n in sorted(c for c in cuts if 0 < c < len(s)):
                # the exactly-sized heap buffer (a sanitizer abort costs a harness restart) only for a few types and values
                cases.append((d, s, n, k < len(must) and d in ("d2", "d18", "i8", "u64", "bool", "str")))
    lines = []
    for d, s, n, ex in cases:
        lines.append("validate_n %s %s %d 0" % (d, hexs(s), n))
        if ex:
            lines.append("validate_n %s %s %d 1" % (d, hexs(s), n))
        lines.append("validate %s %s" % (d, hexs(s[:n])))
    run.impl_only(lines, count_kind="val:value_len")
    cx.rule("val: value_len: prefixes of boundary lexical values handed to lyd_value_validate with value_len < strlen, from a longer buffer and from an "
            "exactly-sized unterminated heap buffer (under ASan); verdict and canonical value must be those of the prefix alone")
    for d, s, n, ex in cases:
        ref = run.get("validate %s %s" % (d, hexs(s[:n])))
        for exact in ((0, 1) if ex else (0,)):
            r = run.get("validate_n %s %s %d %d" % (d, hexs(s), n, exact))
            if r[:2] == ["err", "Crash"]:
                continue        # recorded by run_impl as a failure with the sanitizer report
            cx.count(("value_len", d, s, n, exact), True, "val:law:value-len")
            if r != ref:
                cx.fail(COMP, "the verdict for a value depends on bytes beyond value_len",
                        {"type": d, "value_hex": hexs(s[:n]), "buffer_hex": hexs(s), "value_len": n, "exact_buffer": exact, "got": r, "alone": ref, "law": "value_len"})


# ------------------------------------------------------------ (L) acceptance = RFC 7950 value space (oracle)
C_WS = rb"[ \t\n\r\x0b\x0c]*"
RE_INT = re.compile(C_WS + rb"([+-]?)([0-9]+)" + C_WS, re.S)
RE_DEC = re.compile(C_WS + rb"([+-]?)([0-9]+)(?:\.([0-9]+))?" + C_WS, re.S)


def in_parts(v, parts):
    return not parts or any(a <= v <= b for a, b in parts)


def oracle_int(head, parts, s):
    """written from RFC 7950 9.2.1 (+ libyang's documented tolerance of surrounding whitespace), not from the code"""
    m = RE_INT.fullmatch(s)
    if not m:
        return None
    v = int(m.group(2)) * (-1 if m.group(1) == b"-" else 1)
    lo, hi = INTS[head]
    return str(v).encode() if lo <= v <= hi and in_parts(v, parts) else None


def oracle_dec(fd, parts, s):
    """RFC 7950 9.3.1 / 9.3.2: optional sign, digits, optionally '.' and digits; value must be k * 10^-fd with k in int64"""
    m = RE_DEC.fullmatch(s)
    if not m:
        return None
    fr = (m.group(3) or b"").rstrip(b"0")
    if len(fr) > fd:
        return None
    k = int(m.group(2) + fr + b"0" * (fd - len(fr))) * (-1 if m.group(1) == b"-" else 1)
    if not (-2**63 <= k <= 2**63 - 1) or not in_parts(k, parts):
        return None
    sign, ip, frc = dec_render(k, fd)
    return (sign + ip + "." + (frc.rstrip("0") or "0")).encode()


def oracle_bits(desc, s):
    """RFC 7950 9.7.3: space-separated list of distinct bit names; canonical (9.7.2): names in position order"""
    items = items_of(desc)
    pos = dict(items)
    toks = re.split(rb"[ \t\n\r\x0b\x0c]+", s.strip(b" \t\n\r\x0b\x0c")) if s.strip(b" \t\n\r\x0b\x0c") else []
    if any(t not in pos for t in toks) or len(set(toks)) != len(toks):
        return None
    return b" ".join(sorted(toks, key=lambda t: pos[t]))


def oracle_str(parts, s):
    """RFC 7950 9.4: well-formed UTF-8 of legal characters (C0 controls other than TAB/LF/CR and U+FFFE/U+FFFF are not),
    length counted in characters.  (libyang as a whole also lets the non-characters U+FDD0..FDEF / U+nFFFE,nFFFF through on
    every route; that deviation from the yang-char ABNF is a C12 matter and is not judged here.)"""
    try:
        u = s.decode("utf-8")
    except UnicodeDecodeError:
        return None
    if any((ord(c) < 0x20 and c not in "\t\n\r") or ord(c) in (0xFFFE, 0xFFFF) for c in u):
        return None
    return s if in_parts(len(u), parts) else None


def laws_accept(run, lex_of):
    cx = run.cx
    for d, lex in lex_of.items():
        head, parts = parse_desc(d)
        isdec = re.match(r"d\d+$", head)
        if head in INTS:
            law, orc = "int_accept_iff", (lambda s: oracle_int(head, parts, s))
        elif isdec:
            law, orc = "dec64_accept_iff", (lambda s: oracle_dec(int(head[1:]), parts, s))
        elif head == "bits":
            law, orc = "bits_accept_iff", (lambda s: oracle_bits(d, s))
        elif head == "enum":
            law, orc = "enum_accept_iff", (lambda s: s if s in dict(items_of(d)) else None)
        elif head == "bool":
            law, orc = "bool_accept_iff", (lambda s: s if s in (b"true", b"false") else None)
        elif head == "str":
            law, orc = "string_accept_iff", (lambda s: oracle_str(parts, s))
        else:
            continue
        for s in lex:
            r = run.impl.get("validate %s %s" % (d, hexs(s)))
            if r is None or b"\x00" in s:
                continue
            want = orc(s)
            got = unhex(r[1]) if r[0] == "ok" else None
            cx.count(("law-accept", d, s), True, "val:law:accept-iff-rfc")
            if got != want:
                cx.fail(COMP, "acceptance or canonical value differs from the RFC 7950 value space of the type",
                        {"type": d, "value_hex": hexs(s), "got": r, "rfc_canonical": hexs(want) if want is not None else None, "law": law})


# ------------------------------------------------------------------------- (L) same verdict from every source
ROUTES = ["xml", "json-string", "json-literal", "new_term", "value_validate", "default", "predicate"]
LITERAL_TYPES = {"i8", "i16", "i32", "u8", "u16", "u32", "bool"}
JSON_INT = re.compile(rb"^-?(0|[1-9][0-9]*)$")


def route_hints(route, head, s):
    if route == "json-string": return HINT_JSON_STRING
    if route == "json-literal": return HINT_JSON_BOOL if s in (b"true", b"false") else HINT_JSON_NUMBER
    if route == "default": return HINT_SCHEMA
    return HINT_DATA


def xml_plain(s):
    """values the XML route carries unchanged (no whitespace-only content, no line-end normalisation cases)"""
    return s.strip(b" \t\n\r") != b"" and b"\r" not in s


def routes(run, accepted, lex_of):
    cx = run.cx
    rng = cx.sub_rng("routes")
    sel = []
    for d, lex in lex_of.items():
        head = d.split(":")[0]
        if ":" in d and head not in ("enum", "bits") and rng.random() < 0.7:
            continue
        pool = [s for s in lex if b"\x00" not in s and len(s) < 60]
        acc = [s for s in pool if s in set(accepted.get(d, []))]
        rej = [s for s in pool if s not in set(accepted.get(d, []))]
        rng.shuffle(acc); rng.shuffle(rej)
        k = cx.n(5, 40)
        if re.match(r"d\d+$", head) and head not in ("d1", "d2", "d9", "d18"):
            k = cx.n(2, 12)
        must = {"str": [b"\xef\xbf\xbe", b"\xef\xbf\xbf", b"\xf0\x8f\xbf\xbf", b"a"], "i64": [b"010", b"0x10", b"10"], "u64": [b"010", b"0X1f", b"7"],
                "d2": [b"+", b"-.5", b"1.5"], "i8": [b"12", b"012", b"0x10", b" 12 "], "bool": [b"true", b"false"]}.get(d, [])
        for s in list(dict.fromkeys(must + acc[:k] + rej[:k])):
            sel.append((d, s))
    cases, masks = [], {}
    for d, s in sel:
        head = d.split(":")[0]
        mask = 8 | 16
        # a value can arrive in XML / JSON / YANG text only if its characters are legal there; for the string type the
        # API validates characters itself, so every string is sent and the verdicts must still agree (finding F22)
        carrier = head == "str" or gen.is_yang_text(s)
        if xml_plain(s) and carrier: mask |= 1
        try:
            s.decode("utf-8")
            if carrier: mask |= 2
        except UnicodeDecodeError:
            pass
        if JSON_INT.match(s) or s in (b"true", b"false"): mask |= 4
        if all(0x20 <= c < 0x7f or c in (9, 10) for c in s) and s.strip(b" \t\n") == s and cx.dist["val:route:default-run"] < cx.n(120, 1500):
            mask |= 32
            cx.dist["val:route:default-run"] += 1
        if not (b"'" in s and b'"' in s): mask |= 64
        masks[(d, s)] = mask
        cases.append("routes %s %d %s" % (d, mask, hexs(s)))
        for r in ROUTES:
            cases.append("store %s %d %s" % (d, route_hints(r, head, s), hexs(s)))
    run.impl_only([c for c in cases if c.startswith("routes")], count_kind="val:routes")
    run.diff([c for c in cases if c.startswith("store")])
    cx.rule("val: routes: accepted and rejected lexical values of every type family through XML, JSON string, JSON literal, lyd_new_term, lyd_value_validate, "
            "a default statement (fresh context) and a leaf-list path predicate; each route must give the verdict and canonical value of the store callback "
            "under that route's hints, and all routes whose hints the type accepts must agree (base-0 default statements excepted)")
    for d, s in sel:
        head = d.split(":")[0]
        r = run.get("routes %s %d %s" % (d, masks[(d, s)], hexs(s)))
        if r[0] != "ok":
            continue
        got = dict(zip(ROUTES, r[1:]))
        want = {}
        for ro in ROUTES:
            st = run.get("store %s %d %s" % (d, route_hints(ro, head, s), hexs(s)))
            want[ro] = st[1] if st[0] == "ok" else "R"
        for ro in ROUTES:
            if got[ro] == "N":
                continue
            cx.count(("route", d, s, ro), True, "val:route:%s:%s" % (ro, "accept" if got[ro] != "R" else "reject"))
            case = {"type": d, "value_hex": hexs(s), "route": ro, "got": got[ro], "store_under_route_hints": want[ro], "all": got}
            if got[ro] != want[ro]:
                cx.fail(COMP, "route %s does not give the verdict of the value store under that route's hints" % ro, dict(case, law="route_is_store"))
        # cross-route agreement among the hint sets the type accepts (JSON typing decides which JSON route applies)
        ref = want["new_term"]
        for ro in ("json-string", "json-literal"):
            if got[ro] == "N":
                continue
            applies = (ro == "json-literal") == (head in LITERAL_TYPES)
            if not applies:
                if got[ro] != "R":
                    cx.fail(COMP, "JSON encoding that RFC 7951 does not define for the type is accepted",
                            {"type": d, "value_hex": hexs(s), "route": ro, "got": got[ro], "law": "json_typing"})
                continue
            if got[ro] != ref:
                cx.fail(COMP, "JSON route and value API give different verdicts or values for the same lexical value",
                        {"type": d, "value_hex": hexs(s), "route": ro, "got": got[ro], "new_term": ref, "law": "same_verdict_all_sources"})
        if got["default"] not in ("N", ref) and not (head in INTS and re.search(rb"^\s*[-+]?0[0-9xX]", s)):
            cx.fail(COMP, "default statement and value API give different verdicts or values for the same lexical value",
                    {"type": d, "value_hex": hexs(s), "route": "default", "got": got["default"], "new_term": ref, "law": "same_verdict_all_sources"})


# ------------------------------------------------------------------------------- derived types (laws only)
DERIVED = {
    "t:ietf-inet-types:ipv4-address": ['1.2.3.4', '01.2.3.4', '1.2.3.4%eth0', '255.255.255.255', '0.0.0.0', '1.2.3.4%Eth0', '10.0.0.1', '1.2.3.04', '192.168.1.1%1', '256.1.1.1', '1.2.3'],
    "t:ietf-inet-types:ipv4-address-no-zone": ['1.2.3.4', '01.2.3.4', '255.255.255.255', '0.0.0.0', '10.0.0.1', '1.2.3.4%eth0'],
    "t:ietf-inet-types:ipv6-address": ['::', '::1', '0:0:0:0:0:0:0:1', '2001:DB8::1', '2001:db8::1', '2001:db8:0:0:0:0:0:1', 'fe80::1%eth0', 'FE80::1%eth0', '::ffff:1.2.3.4', '::FFFF:1.2.3.4',
                                      '2001:db8::', '2001:0db8:0000:0000:0000:0000:0000:0000', '1:0:0:2:0:0:0:3', '1::2:0:0:0:3', 'fe80::1%Eth0', 'fe80::1%eth1', '1::2::3', ':::'],
    "t:ietf-inet-types:ipv6-address-no-zone": ['::', '::1', '0:0:0:0:0:0:0:1', '2001:DB8::1', '2001:db8::1', '::ffff:1.2.3.4', '1:0:0:2:0:0:0:3'],
    "t:ietf-inet-types:ip-address": ['1.2.3.4', '01.2.3.4', '::1', '0:0:0:0:0:0:0:1', '2001:DB8::1', '1.2.3.4%lo', '::1%lo'],
    "t:ietf-inet-types:ipv4-prefix": ['1.2.3.4/24', '1.2.3.0/24', '1.2.3.4/32', '0.0.0.0/0', '255.255.255.255/0', '10.1.2.3/8', '10.0.0.0/8', '1.2.3.4/31', '1.2.3.4/33', '1.2.3.4'],
    "t:ietf-inet-types:ipv6-prefix": ['2001:db8::1/64', '2001:DB8::/64', '2001:db8::/64', '::/0', '::1/128', 'fe80::1/10', 'FE80::/10', '2001:db8:0:0:1::/64', '::/129'],
    "t:ietf-inet-types:ip-prefix": ['1.2.3.4/24', '1.2.3.0/24', '2001:db8::1/64', '2001:DB8::/64'],
    "t:ietf-yang-types:date-and-time": ['2020-01-01T00:00:00Z', '2020-01-01T00:00:00+00:00', '2020-01-01T00:00:00-00:00', '2020-01-01T01:00:00+01:00', '2020-01-01T00:00:00.0Z',
                                        '2020-01-01T00:00:00.000Z', '2020-01-01T00:00:00.5Z', '2020-01-01t00:00:00z', '2019-12-31T23:00:00-01:00', '2020-02-29T12:00:00Z',
                                        '2020-01-01T00:00:00.50Z', '2021-02-29T12:00:00Z', '2020-01-01T00:00:01Z', '1999-12-31T23:59:59Z'],
    "t:ietf-yang-types:hex-string": ['ab:cd', 'AB:CD', 'aB:Cd', '00', '01:02:03', 'a', 'ab:'],
    "t:ietf-yang-types:mac-address": ['00:11:22:aa:bb:cc', '00:11:22:AA:BB:CC', '00:11:22:Aa:bB:cc', '00:11:22:aa:bb'],
    "t:ietf-yang-types:phys-address": ['00:11:22:aa:bb:cc', '00:11:22:AA:BB:CC', 'ab'],
    "t:ietf-yang-types:uuid": ['f81d4fae-7dec-11d0-a765-00a0c91e6bf6', 'F81D4FAE-7DEC-11D0-A765-00A0C91E6BF6', 'f81d4fae-7dec-11d0-a765-00a0c91e6bf'],
    "t:ietf-inet-types:domain-name": ['example.com', 'EXAMPLE.com', 'example.com.', 'a.b', 'A.B', '.'],
    "t:ietf-inet-types:host": ['1.2.3.4', '01.2.3.4', 'example.com', '::1', '0:0:0:0:0:0:0:1', 'EXAMPLE.COM'],
    "t:ietf-yang-types:counter32": ['0', '4294967295', '4294967296', '+1', '007'],
    "t:ietf-yang-types:timeticks": ['0', '1', '01'],
    "t:ietf-yang-types:dotted-quad": ['1.2.3.4', '01.2.3.4'],
    "t:ietf-yang-types:yang-identifier": ['abc', 'xml', '_a.-b'],
    "t:ietf-inet-types:port-number": ['0', '65535', '65536', ' 80 '],
    "t:ietf-inet-types:as-number": ['0', '4294967295'],
    "t:ietf-inet-types:dscp": ['0', '63', '64'],
    "t:ietf-inet-types:ip-version": ['ipv4', 'ipv6', 'unknown', 'ipv5'],
    "t:ietf-inet-types:uri": ['http://example.com/', 'HTTP://EXAMPLE.COM/'],
}


def derived_types(run):
    cx = run.cx
    cases = []
    for d, vals in DERIVED.items():
        for v in vals:
            cases.append("validate %s %s" % (d, hexs(v)))
    run.impl_only(cases)
    accepted, pairs = {}, {}
    cases = []
    for d, vals in DERIVED.items():
        acc = [v.encode() for v in vals if run.get("validate %s %s" % (d, hexs(v)))[0] == "ok"]
        if run.get("validate %s %s" % (d, hexs(vals[0])))[:2] == ["err", "Schema"]:
            cx.notes.append("derived type not available in this tree: " + d)
            continue
        accepted[d] = acc
        pr = [(a, b) for a in acc for b in acc]
        pairs[d] = (acc, pr)
        for a, b in pr:
            cases.append("cmp %s %s %s" % (d, hexs(a), hexs(b)))
        for a in acc:
            cases.append("lybrt %s %s" % (d, hexs(a)))
            c = unhex(run.get("validate %s %s" % (d, hexs(a)))[1])
            cases.append("validate %s %s" % (d, hexs(c)))
            cases.append("cmp %s %s %s" % (d, hexs(a), hexs(c)))
    run.impl_only(cases)
    cx.rule("val: derived types (laws on the implementation only): %d typedefs of ietf-inet-types / ietf-yang-types over hand-picked lexical pools "
            "(case, zero compression, zones, prefix normalisation, time-zone and fraction variants)" % len(accepted))
    laws_value(run, accepted, pairs)
    ip_oracle(run)
    dt_oracle(run)


RE_DT = re.compile(rb"(\d{4})-(\d{2})-(\d{2})T(\d{2}):(\d{2}):(\d{2})(\.\d+)?(Z|([+-])(\d{2}):(\d{2}))")


def dt_accepts(s):
    """lexical space of ietf-yang-types:date-and-time: the pattern of the typedef (RFC 6991) and the field ranges of RFC 3339 sec. 5.6
    -> (accepted, day exists in the month)"""
    import calendar
    m = RE_DT.fullmatch(s)
    if not m:
        return False, False
    y, mo, d, h, mi, sec = (int(m.group(i)) for i in range(1, 7))
    if not (1 <= mo <= 12 and 1 <= d <= 31 and h <= 23 and mi <= 59 and sec <= 60):
        return False, False
    if m.group(9) and not (int(m.group(10)) <= 23 and int(m.group(11)) <= 59):
        return False, False
    return True, d <= calendar.monthrange(y, mo)[1]


def dt_oracle(run):
    """Acceptance of date-and-time lexicals against an oracle written from RFC 6991 / RFC 3339: valid forms and systematic damage
    (trailing / leading characters, case of T and Z, wrong separators, missing and surplus digits, field values at and beyond their
    ranges, fraction and zone variants)."""
    cx = run.cx
    rng = cx.sub_rng("dt")
    d = "t:ietf-yang-types:date-and-time"
    if run.get("validate %s %s" % (d, hexs("2020-01-01T00:00:00Z")))[:2] == ["err", "Schema"]:
        return
    pool = set()
    base = [b"2020-01-01T00:00:00Z", b"1999-12-31T23:59:59+01:00", b"2020-02-29T12:30:15.25-08:00", b"2021-06-30T23:59:60Z", b"0001-01-01T00:00:00.000000001+23:59"]
    for b in base:
        pool.add(b)
        for junk in (b"junk", b" ", b"Z", b"0", b"\n", b"+", b".5"):
            pool.add(b + junk)
            pool.add(junk + b)
        pool.add(b.replace(b"T", b"t")); pool.add(b.replace(b"Z", b"z")); pool.add(b.replace(b"T", b" "))
        pool.add(b.replace(b"-", b"/", 1)); pool.add(b.replace(b":", b".", 1)); pool.add(b.replace(b"-", b"x", 2))
        pool.add(b[:-1]); pool.add(b[1:]); pool.add(b[:10]); pool.add(b[:19]); pool.add(b[:16] + b[19:])
    for _ in range(cx.n(400, 4000)):
        y, mo, dd = rng.choice([1, 1970, 1999, 2020, 2021, 9999]), rng.choice([0, 1, 2, 4, 12, 13, 99]), rng.choice([0, 1, 28, 29, 30, 31, 32])
        h, mi, sec = rng.choice([0, 12, 23, 24]), rng.choice([0, 59, 60]), rng.choice([0, 59, 60, 61])
        frac = rng.choice([b"", b"", b".0", b".123456789", b".", b".x"])
        zone = rng.choice([b"Z", b"+00:00", b"-00:00", b"+23:59", b"-12:00", b"+24:00", b"+01:60", b"+1:00", b"+0100", b"", b"z"])
        pool.add(b"%04d-%02d-%02dT%02d:%02d:%02d%s%s" % (y, mo, dd, h, mi, sec, frac, zone))
    pool = sorted(x for x in pool if b"\x00" not in x)
    cases = ["validate %s %s" % (d, hexs(x)) for x in pool]
    run.impl_only(cases)
    for x in pool:
        r = run.get("validate %s %s" % (d, hexs(x)))
        want, day_ok = dt_accepts(x)
        got = r[0] == "ok"
        cx.count(("dt", x), True, "val:date-and-time:%s" % ("accepted" if got else "rejected"))
        case = {"type": d, "lexical_hex": hexs(x), "lexical": x.decode("latin1"), "reply": r, "oracle": want, "day_exists": day_ok}
        if got and not want:
            cx.fail(COMP, "date-and-time accepts a lexical value outside the lexical space of the type (RFC 6991 pattern, RFC 3339 field ranges)",
                    dict(case, law="dt_accept"))
        elif not got and want and day_ok:
            cx.fail(COMP, "date-and-time rejects a valid lexical value", dict(case, law="dt_reject"))
        elif got and want and not day_ok:
            cx.fail(COMP, "date-and-time accepts a day that does not exist in the month and stores another date", dict(case, law="dt_day"))


def ip_oracle(run):
    """Canonical form of the ietf-inet-types address / prefix types against Python's `ipaddress` (RFC 4291 / RFC 5952 text form,
    host bits cleared for prefixes - RFC 6991), an oracle that shares nothing with libyang: every prefix length 0..32 / 0..128 over
    addresses with non-zero host bits on every byte boundary."""
    import ipaddress
    cx = run.cx
    rng = cx.sub_rng("ip")
    cases = {}
    v4 = ["255.255.255.255", "10.1.2.3", "192.168.255.1", "1.2.3.4", "128.0.0.1"]
    v6 = ["ffff:ffff:ffff:ffff:ffff:ffff:ffff:ffff", "2001:db8:1:ff02:a0b:c0d:e0f:1", "fe80::1", "2001:DB8:0:0:1:0:0:1", "::ffff:1.2.3.4",
          "1:2:3:4:5:6:7:8", "0:0:1:0:0:0:0:1"]
    for a in v4:
        for l in range(0, 33):
            cases["t:ietf-inet-types:ipv4-prefix %s/%d" % (a, l)] = str(ipaddress.ip_network("%s/%d" % (a, l), strict=False))
        cases["t:ietf-inet-types:ipv4-address-no-zone " + a] = str(ipaddress.ip_address(a))
    for a in v6:
        for l in range(0, 129):
            cases["t:ietf-inet-types:ipv6-prefix %s/%d" % (a, l)] = str(ipaddress.ip_network("%s/%d" % (a, l), strict=False))
        if "." not in a:
            cases["t:ietf-inet-types:ipv6-address-no-zone " + a] = str(ipaddress.ip_address(a))
    for _ in range(cx.n(300, 5000)):
        a = ipaddress.ip_address(rng.getrandbits(128))
        l = rng.randrange(0, 129)
        cases["t:ietf-inet-types:ipv6-prefix %s/%d" % (a.exploded if rng.random() < 0.5 else a.compressed, l)] = str(ipaddress.ip_network("%s/%d" % (a, l), strict=False))
    lines = ["validate %s %s" % (k.split(" ")[0], hexs(k.split(" ", 1)[1])) for k in cases]
    run.impl_only(lines)
    for k, exp in cases.items():
        ty, lex = k.split(" ", 1)
        r = run.get("validate %s %s" % (ty, hexs(lex)))
        if r[:2] == ["err", "Schema"]:
            return
        cx.count(("ip", k), True, "val:ip-oracle:" + r[0])
        got = unhex(r[1]).decode() if r[0] == "ok" else None
        same = got == exp
        if not same and got is not None and ".".join(["0"] * 0) == "" and "." in got and ":" in got:
            # RFC 5952 sec. 5 allows the mixed notation for IPv4-mapped addresses (inet_ntop uses it): compare the value, and the
            # text for lower case / no leading zeros only
            try:
                val = ipaddress.ip_network(got, strict=True) if "/" in got else ipaddress.ip_address(got)
                ref = ipaddress.ip_network(exp) if "/" in exp else ipaddress.ip_address(exp)
                same = val == ref and got == got.lower()
            except ValueError:
                same = False
        if not same:
            cx.fail("val", "canonical form of %s differs from the RFC 6991 / RFC 5952 form computed by an independent implementation" % ty.split(":")[-1],
                    {"type": ty, "lexical": lex, "libyang": got, "expected": exp})


def f51_witness(run):
    """LYB bits value with a bit set at a position the type does not define (finding F64): out of the model's fragment,
    replayed on the implementation only."""
    cx = run.cx
    line = "unlyb bits:%s=0,%s=3,%s=9 0200" % (hexs(b"a"), hexs(b"b"), hexs(b"c"))
    run.impl_only([line], count_kind="val:unlyb:bits:undefined-position")
