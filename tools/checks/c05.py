"""C05 — arbitrary input never corrupts memory, leaks, hangs or leaves partial results.

(P)  Props/C05.lean: the lexers as buffer programs (JSON numbers, JSON strings, XML character data, ly_getutf8):
     every write index < allocated size, no read behind the first NUL, value or error.
(K)  wb_jsonnum / wb_text against the models (component `lex`), and the lexer outcomes seen through the public API.
(K+R) api_fuzz under ASan+UBSan: every public entry point that takes bytes, grammar-directed micro-grammars per
     argument kind (exhaustive token sequences), structure-aware mutations of valid seeds, raw byte mutations;
     laws: outcome is ok | error code + error record, out-parameters NULL after a failure, context health
     (a battery of valid loads/parses/prints gives the same digest as in the pristine context), no leak, no hang.
"""
import collections, concurrent.futures, itertools, json, os, re, sys, time
from fractions import Fraction
from vlib import paths, proto, build
from vlib.proto import hexs, unhex
from checks import fuzzgen as G
from checks import c05yin

LEAN_TARGETS = ["LyModel.Props.C05", "LyModel.Props.C05JsonNum"]
AUDIT = ["Audit/C05.lean", "Audit/C05Fn.lean"]
GENERATED = ["Consts", "LexConsts"]
LEAN_TARGETS += ["LyModel.Props.C05Fn", "LyModel.Props.C05FnJson"]; GENERATED += ["FnUtf8", "FnJson"]
LEAN_TARGETS += ["LyModel.Props.C05XmlLex"]; AUDIT += ["Audit/C05XmlLex.lean"]; GENERATED += ["YinArgs"]   # XML pull lexer (shared model LyModel/XmlLex), YIN stream c05yin     # functions translated from the C source (tools/c2lean.py), bridged in lean/LyModel/Bridge
ASSUMPTIONS = [
    "the theorems are about the Lean buffer-program models; the models are tied to src/json.c, src/xml.c, src/ly_common.c by the white-box "
    "correspondence (wb_jsonnum, wb_text) on every run",
    "memory safety of everything outside the modelled lexers is exercised, not proved: ASan/UBSan observe the executions the generators reach "
    "(residual: heap state, undefined behaviour the sanitizers do not model, paths no generated input takes)",
    "LYB input is documented as trusted and is not an entry point of C05; allocation-failure paths belong to C17",
]
TRUSTED = ["clang-14 AddressSanitizer/UndefinedBehaviorSanitizer/LeakSanitizer", "harness/api_fuzz.c, harness/wb_jsonnum.c, harness/wb_text.c",
           "python fractions (reference denotation of decimal strings)"]

NONERROR_CODES = {"ENOTFOUND", "ENOT", "EINCOMPLETE"}      # documented result codes that carry no error record
MAX_SUSPECT_PROBES = 3
MAX_LEAK_PROBES = 4
WORKERS = int(os.environ.get("VERIF_FUZZ_WORKERS", "4"))

# ---------------------------------------------------------------------------------------------------------------
# classification of failures: one predicate per known finding, each = entry point + sanitizer signature + input shape


def _frames(stderr):
    fr = re.findall(r"#\d+ 0x[0-9a-f]+ in (\S+)", stderr or "")
    m = re.search(r"VERIF-ASAN (.*)", stderr or "")
    if m:
        fr += m.group(1).split("|")[-1].split()
    return fr


def _iff_args(text):
    return [m.group(2) for m in re.finditer(rb'if-feature\s+(["\'])(.*?)\1', text, re.S)] + \
           [m.group(1) for m in re.finditer(rb'<if-feature\s+name="([^"]*)"', text)]


def _paren_underflow(arg):
    d = 0
    for ch in arg:
        if ch == 0x28: d += 1
        elif ch == 0x29:
            d -= 1
            if d < 0: return True
    return False


def _range_args(text):
    return [m.group(3) for m in re.finditer(rb'(range|length)\s+(["\'])(.*?)\2', text, re.S)] + \
           [m.group(2) for m in re.finditer(rb'<(range|length)\s+value="([^"]*)"', text)]


def _path_args(text):
    return [m.group(2) for m in re.finditer(rb'path\s+(["\'])(.*?)\1', text, re.S)] + [m.group(1) for m in re.finditer(rb'<path\s+value="([^"]*)"', text)]


def _selfref_union_leafref(text):
    """a leaf / leaf-list NAME whose type is a union with a member `type leafref { path /NAME; }` (the target is the leaf itself)"""
    return re.search(rb'\b(?:leaf|leaf-list)\s+([\w.-]+)\s*\{(?:(?!\bleaf\b|\bleaf-list\b).)*?\btype\s+union\s*\{(?:(?!\bleaf\b|\bleaf-list\b).)*?'
                     rb'\bpath\s+["\']?/(?:[\w.-]+:)?\1["\']?\s*;', text, re.S) is not None


def classify(component, what, case):
    if not isinstance(case, dict):
        return None
    if component == c05yin.COMP:
        return c05yin.classify(component, what, case)
    stderr = case.get("stderr") or ""
    frames = _frames(stderr)
    entry = case.get("entry") or ""
    try:
        inp = unhex(case["input_hex"]) if case.get("input_hex") else b""
    except Exception:
        inp = b""
    fset = set(frames)
    if case.get("law") == "json-number-value":
        # F14: mantissa 0.ddd, positive exponent that puts the point inside (or right behind) the fraction digits
        m = re.fullmatch(rb"-?0\.(\d+)[eE]\+?(\d+)", inp)
        if m and 0 < int(m.group(2)) <= len(m.group(1)):
            return "F14"
        return None
    if case.get("law") == "utf8-wellformed":
        # F11: overlong 4-byte form of U+1000..U+FFFF accepted by ly_getutf8
        if re.search(rb"\xf0[\x81-\x8f][\x80-\xbf][\x80-\xbf]", inp):
            return "F11"
        return None
    law = case.get("law")
    reply = case.get("reply") or []
    req = (case.get("request") or case.get("line") or "").split()
    if law == "out-parameter":
        # F50: lys_find_xpath_atoms keeps the allocated set on failure
        if entry == "lys_find_xpath_atoms" and "set" in reply:
            return "F50"
        return None
    if law == "error-record":
        # F56: the xmlns pre-scan of lyxml_open_element returns ly_getutf8's LY_EINVAL unlogged
        if (".xml" in entry or entry == "lys_parse_mem.yin") and reply[1:2] == ["EINVAL"] and re.search(rb"<[^<>]*[\x00-\x08\x0b\x0c\x0e-\x1f\x80-\xff]", inp):
            return "F56"
        return None
    if law == "leak":
        if "xml_print_ns" in fset and ("lyd_print_mem" in fset or "xml_print_data" in fset):
            return "F57"
        # F103: an accepted module whose leaf(-list) has a union with a leafref member that points at the leaf itself
        if entry.startswith("lys_parse_mem") and reply[:1] == ["ok"] and {"lys_compile_type_union", "lys_compile_node_type"} <= fset and _selfref_union_leafref(inp):
            return "F103"
        if "lydjson_parse_any" in fset and reply[1:2] == ["EVALID"] and b"[" in inp:
            return "F60"
        if "lydxml_subtree_any" in fset and reply[1:2] == ["EVALID"] and b"<any" in inp:
            return "F60"
        if len(req) > 5 and req[2] == "data" and int(req[5], 16) & G.V_MULTI_ERROR and reply[1:2] == ["EVALID"] and \
                fset & {"lyd_parse_xml", "lyd_parse_json"}:
            return "F58"
        return None
    if not case.get("crash"):
        return None
    if entry.startswith("lys_parse_mem"):
        if "iff_stack_pop" in fset or ("lys_compile_iffeature" in fset and "iff_setop" not in fset and "iff_getop" not in fset):
            if any(_paren_underflow(a) for a in _iff_args(inp)):
                return "F3"
        if "iff_setop" in fset or "iff_getop" in fset or "lys_compile_iffeature" in fset:
            if any(re.search(rb"not\s*\(+\s*not", a) or (a.count(b"not") >= 2 and b"(" in a) for a in _iff_args(inp)):
                return "F13"
        if any(f.startswith("lys_compile_type_range") for f in fset) and "heap-buffer-overflow" in stderr:
            if any(re.search(rb"\|\s*(\||$)", a.strip()) or a.strip().startswith(b"|") for a in _range_args(inp)):
                return "F30"
        if "ly_strnchr" in fset and "lys_compile_expr_implement" in fset and "heap-buffer-overflow" in stderr:
            if any(a[:1] in (b" ", b"\t", b"\n", b"\r") for a in _path_args(inp)):
                return "F31"
    if fset & {"xpath_deref", "xpath_bit_is_set", "xpath_enum_value"} and "null pointer" in stderr:
        if re.search(rb"(deref|bit-is-set|enum-value)\s*\(", inp):
            return "F32"
    if "xpath.c" in stderr and "outside the range of representable values of type 'long long'" in stderr:
        if re.search(rb"\d", inp):
            return "F37"
    if "lyplg_type_parse_dec64" in fset and "heap-buffer-overflow" in stderr and "READ of size 1" in stderr or \
            ("lyplg_type_parse_dec64" in fset and "heap-buffer-overflow" in stderr):
        # F51: the value[len + 1] look-ahead behind a final '.'
        if re.search(rb"\.\s*$", inp) or re.search(rb"\.[^0-9]", inp) or b"." in inp:
            return "F51"
    if "xpath_deref" in fset and fset & {"ly_path_eval", "ly_path_eval_partial"} and re.search(rb"deref\s*\(", inp):
        return "F52"
    if "lydjson_parse_attribute" in fset and "lyd_create_opaq" in fset and "global-buffer-overflow" in stderr and b'"@"' in inp:
        return "F53"
    if "lydxml_envelope" in fset and "lyd_free_tree" in fset and entry.startswith("lyd_parse_op.rpc-netconf") and b"action" in inp:
        return "F54"
    if "null pointer passed as argument" in stderr and "restconf" in entry and \
            ("lydjson_envelope" in fset or ("lydjson_parse_name" in fset and "lyd_parse_json_restconf" in fset)):
        return "F55"
    if "lyplg_type_store_hex_string" in fset and "heap-buffer-overflow" in stderr and b"\x00" in inp:
        return "F100"
    if "ly_time_str2time" in fset and "heap-buffer-overflow" in stderr and len(inp.split(b"\x00")[0]) in (18, 19):
        return "F101"
    if "heap-use-after-free" in stderr and "lydict_remove" in fset and "lyd_value_validate" in fset and b"\x00" in inp:
        return "F102"
    if fset & {"ipv4prefix_str2ip", "ipv6prefix_str2ip"} and "null pointer" in stderr:
        store_only = (len(req) > 4 and req[2] == "value" and int(req[4], 16) & 0x2) or (len(req) > 4 and req[2] == "data" and int(req[4], 16) & 0x2000000)
        if store_only:
            return "F59"
    return None


# shapes that are *expected* to abort the harness while a finding is open.  They are held back; a few are probed first, and the
# rest of a shape is run only when no probe aborts (each abort costs a process restart).  Precise on purpose: an input of the
# shape that does not abort costs nothing, an aborting input outside the shapes costs one restart and is classified as usual.
def _balanced(e):
    d = q = 0
    for ch in e:
        if ch in b"([": d += 1
        elif ch in b")]":
            d -= 1
            if d < 0: return False
        elif ch == 0x27: q ^= 1
    return d == 0 and q == 0


def suspect(c):
    inp, req = c["input"], c["req"]
    if c["entry"].startswith("lys_parse_mem"):
        if b"if-feature" in inp:
            for a in _iff_args(inp):
                if _paren_underflow(a) and a.count(b"(") == a.count(b")") and re.search(rb"[a-z]", a): return "F3"
                if re.search(rb"not\s*\(+\s*not\s+[a-z:]+\s*\)", a): return "F13"
        if b"typedef" in inp and b"||" in inp:
            for a in _range_args(inp):
                if re.search(rb"[^|\s]\s*\|\|\s*$", a): return "F30"
        if b"path" in inp:
            for a in _path_args(inp):
                if re.match(rb"\s{2,}[./]", a): return "F31"
        return None
    if c["entry"] in ("lyd_find_xpath", "lyd_eval_xpath4"):
        if b"(" in inp and _balanced(inp):
            if re.search(rb"(deref|bit-is-set|enum-value)\(/[),|]", inp): return "F32"
            if re.search(rb"deref\(/fz:t/[a-z0-9]+\)", inp) and not re.search(rb"deref\(/fz:t/(lref|lrefn|iid|iidn)\)", inp): return "F52"
            if re.search(rb"(string|floor|ceiling|round)\(-?\d{19,}\)", inp): return "F37"
        return None
    if req.startswith("value "):
        t = req.split()
        if t[1] == "un" and re.fullmatch(rb"\s*([+-]\d*|\d+)\.", inp): return "F51"
        if t[1] in ("ipp4", "ipp6") and int(t[2], 16) & 2 and b"/" not in inp and inp.strip(): return "F59"
        if t[1] in ("hs", "mac", "uuid") and b"\x00" in inp[:-1]: return "F100"
        if t[1] == "dt" and b"\x00" not in inp and len(inp) in (18, 19): return "F101"
        if t[1] == "xp" and b"\x00" in inp[:-1]: return "F102"
    return None


# ---------------------------------------------------------------------------------------------------------------
# part 1: JSON number lexer, model vs code, and the value law

if hasattr(sys, "set_int_max_str_digits"):
    sys.set_int_max_str_digits(200000)
RE_NUM = re.compile(r"(-?)(\d+)(?:\.(\d+))?(?:[eE]([+-]?\d+))?")


def denote(s):
    m = RE_NUM.fullmatch(s)
    if not m:
        return None
    v = Fraction(int(m.group(2) + (m.group(3) or "")), 10 ** len(m.group(3) or ""))
    if m.group(4) and v != 0:
        e = int(m.group(4))
        if abs(e) > 70000:
            return ("huge", e > 0)
        v *= Fraction(10) ** e
    return -v if m.group(1) else v


def run_jsonnum(cx):
    rng = cx.sub_rng("jsonnum")
    texts = list(dict.fromkeys(G.json_numbers(full=True)))
    # long inputs: the uint16_t limits of lyjson_exp_number
    texts += ["1" + "0" * 65534 + "e1", "1" + "0" * 65535 + "e1", "1" * 65535 + "e-65535", "0." + "0" * 65532 + "1e1", "0." + "0" * 65533 + "1e1",
              "-0." + "0" * 65531 + "1e65535", "1" * 70000, "0." + "0" * 30 + "1e31", "0." + "0" * 30 + "1e30", "5" + "0" * 30 + "e-30"]
    for _ in range(cx.n(3000, 200000)):
        ip = rng.choice(["0", str(rng.randrange(1, 10 ** rng.randrange(1, 22)))])
        fp = "".join(rng.choice("0000123456789") for _ in range(rng.randrange(0, 24)))
        e = rng.choice([rng.randrange(0, 30), rng.randrange(0, 30), rng.randrange(0, 70000), len(fp), len(fp) + 1, max(0, len(fp) - 1)])
        texts.append(rng.choice(["", "-"]) + ip + ("." + fp if fp else "") + rng.choice(["e", "E", "e+", "e-", "e-", "E-"]) + rng.choice(["", "0", "00"]) + str(e))
    texts = list(dict.fromkeys(texts))
    tails = ["", ",", " ", "}", "x", "]", "e", ".", "-", "+"]
    lines, meta = [], []
    for t in texts:
        for tail in (tails if len(t) < 8 else [","]):
            lines.append("%d lex jsonnum %s" % (len(lines), hexs(t + tail)))
            meta.append((t, tail))
    cx.rule("jsonnum: number micro-grammar (sign x int x frac x e/E x +/- x magnitude 0..25,300,65535,65536,100000, digit strings "
            "0,00,1,10,5,12,10203,9*20) followed by every kind of terminator, random mantissa/exponent pairs around the point position, "
            "65535-byte mantissas; non-trivial = distinct text whose reply is ok or a distinct error kind")

    def kind(line, reply):
        return "lyjson_number:" + (("ok-dynamic" if reply[3] == "1" else "ok-static") if reply[0] == "ok" else reply[1])

    ri, rm = cx.differential("lex", lines, "wb_jsonnum", kind=kind)
    # model-side cross-check of the bounds theorem on the very same inputs (alloc, max write index, min length argument)
    lx = ["%d lex jsonnumx %s" % (i, l.split()[3]) for i, l in enumerate(lines)]
    rx = cx.run_model(lx)
    for i, l in enumerate(lines):
        r = rx.get(str(i), ["err"])
        if r[0] == "ok" and len(r) >= 5 and r[1] != "static":
            if not (int(r[2]) < int(r[1]) and int(r[3]) >= 0):
                cx.disagree("lex", l, ["model-bounds"], r)
    # (L) the value law on the implementation: same rational, no exponent
    for i, (t, tail) in enumerate(meta):
        a = ri.get(str(i), ["err", "NoReply"])
        if a[0] != "ok":
            continue
        inp = t + tail
        try:
            val = unhex(a[1]).decode()
        except UnicodeDecodeError:
            val = None
        txt = inp[:len(inp) - int(a[2])]
        d1, d2 = denote(txt), (denote(val) if val is not None else None)
        good = val is not None and d2 is not None and not isinstance(d2, tuple) and d1 == d2 and re.fullmatch(r"-?\d+(\.\d+)?", val) is not None
        cx.count(("numlaw", txt), True, "law:json-number-value:" + ("holds" if good else "fails"))
        if not good:
            cx.fail("lex", "JSON number %r is turned into %r (not the same rational / not a plain decimal)" % (txt, val),
                    {"law": "json-number-value", "input_hex": hexs(txt), "value_hex": a[1], "line": lines[i]})


# ---------------------------------------------------------------------------------------------------------------
# part 2: api_fuzz

class Api:
    def __init__(self, cx):
        self.cx = cx
        self.exe = cx.harness("api_fuzz")
        self.env = {"VERIF_FUZZ_SEARCHDIR": os.path.join(paths.REPO, "tests", "modules", "yang"),
                    "VERIF_FUZZ_CPU": os.environ.get("VERIF_FUZZ_CPU", "10")}
        self.stats = collections.defaultdict(lambda: {"n": 0, "ok": 0, "err": collections.Counter(), "sizes": [], "gens": collections.Counter()})
        self.crashes = 0
        self.deferred = collections.defaultdict(list)
        self.probed = collections.Counter()
        self.leak_probes = collections.Counter()
        self.timing = collections.OrderedDict()
        self.leak_confirmed = collections.Counter()
        self.t_spent = 0.0

    # -- one batch through a (restarting) harness process
    def _run(self, cases, leak_every=1500, health=True):
        lines, idx = [], {}
        for c in cases:
            i = len(lines)
            idx[str(i)] = c
            lines.append("%d fuzz %s" % (i, c["req"]))
            if leak_every and (len(idx) % leak_every) == 0:
                lines.append("%d fuzz leakcheck" % len(lines))
        if health:
            lines.append("%d fuzz health" % len(lines))
            lines.append("%d fuzz leakcheck" % len(lines))
        crashes = []
        t = time.time()
        replies, _ = proto.run_lines([self.exe], lines, timeout=600, env=self.env, per_crash=crashes.append)
        self.t_spent += time.time() - t           # (summed over the parallel workers)
        return lines, idx, replies, crashes

    def run(self, cases, tag, batch=4000):
        """batches run in parallel harness processes; their results are evaluated in submission order (deterministic)"""
        cases = list(cases)
        t0, c0 = time.time(), self.crashes
        chunks = [cases[k:k + batch] for k in range(0, len(cases), batch)]
        if len(chunks) <= 1:
            results = [self._run(ch) for ch in chunks]
        else:
            with concurrent.futures.ThreadPoolExecutor(max_workers=WORKERS) as ex:
                results = list(ex.map(self._run, chunks))
        for res in results:
            self._batch(res, tag)
        a = self.timing.setdefault(tag, [0, 0, 0.0])
        a[0] += len(cases); a[1] += self.crashes - c0; a[2] += time.time() - t0

    def _batch(self, res, tag):
        cx = self.cx
        lines, idx, replies, crashes = res
        by_id = {c["id"]: c for c in crashes if c.get("id") is not None}
        window = []                 # leak candidates since the last leakcheck: (line, case, reply)
        leaked_before = False       # LeakSanitizer repeats old leaks at every later check of the same process
        for i, l in enumerate(lines):
            key = str(i)
            r = replies.get(key, ["err", "NoReply"])
            c = idx.get(key)
            if c is None:           # leakcheck / health lines
                op = l.split()[2]
                if r[0] != "ok":
                    if key in by_id:
                        self._crash(by_id[key], {"req": op, "entry": op, "gen": "framework", "arg": b"", "input": b""}, l)
                    elif op == "leakcheck":
                        self._leak(lines, i, window, leaked_before)
                        leaked_before = True
                    else:
                        cx.fail("fuzz", "context health battery differs from the pristine context after the batch: " + " ".join(r),
                                {"line": l, "reply": r, "batch_first": lines[0][:200], "batch_len": len(lines)})
                if op == "leakcheck":
                    window = []
                continue
            self._account(c, r)
            if (key + "m") in replies and not (c["req"].startswith("schema") and r[0] == "ok"):
                window.append((l, c, r))
            if r[0] == "ok":
                continue
            if r[1] in ("Crash", "Timeout"):
                self._crash(by_id.get(key, {}), c, l, timeout=(r[1] == "Timeout"))
                window, leaked_before = [], False         # the process restarted
            elif r[1] == "OutParam":
                cx.fail("fuzz", "%s failed (%s) but handed back %s" % (c["entry"], r[2] if len(r) > 2 else "?", " ".join(r[3:])),
                        {"line": l, "entry": c["entry"], "input_hex": hexs(c["input"]), "reply": r, "law": "out-parameter"})
            elif r[1] == "Health":
                cx.fail("fuzz", "context health: after the failing %s call the %s no longer behaves like a fresh one" % (c["entry"], r[2] if len(r) > 2 else "context"),
                        {"line": l, "entry": c["entry"], "input_hex": hexs(c["input"]), "reply": r, "law": "context-health"})
            elif r[1] in ("BadHex", "BadOp", "BadLeaf", "BadLine", "NoReply", "NotRun"):
                cx.notes.append("harness protocol problem: %s -> %s" % (l[:120], r))
                cx.disagree("fuzz", l[:300], r, ["protocol"])
            elif len(r) >= 3 and r[2] == "0" and r[1] not in NONERROR_CODES:
                cx.fail("fuzz", "%s returned %s without an error record" % (c["entry"], r[1]),
                        {"line": l, "entry": c["entry"], "input_hex": hexs(c["input"]), "reply": r, "law": "error-record"})

    def _account(self, c, r):
        cx = self.cx
        out = "ok" if r[0] == "ok" else r[1]
        st = self.stats[c["entry"]]
        st["n"] += 1
        st["gens"][c["gen"]] += 1
        if len(st["sizes"]) < 20000:
            st["sizes"].append(len(c["input"]))
        if r[0] == "ok":
            st["ok"] += 1
            cx.count(c["req"], True, "%s:ok" % c["entry"].split(".")[0])
        else:
            st["err"][out] += 1
            # an error is a non-trivial case once per (entry point, error code, message shape)
            shape = r[3] if len(r) > 3 else ""
            cx.count((c["entry"], out, shape), True, "%s:%s" % (c["entry"].split(".")[0], out))
        cx.dist["gen:" + c["gen"]] += 1

    def _crash(self, cr, c, line, timeout=False):
        cx = self.cx
        self.crashes += 1
        stderr = cr.get("stderr", "")
        timeout = timeout or "VERIF-TIMEOUT" in stderr
        # does it reproduce on its own (fresh process, nothing before it)?  cheap and makes the replay minimal
        alone = None
        if self.crashes <= 300:
            r2, c2 = proto.run_lines([self.exe], ["0 fuzz " + c["req"]], timeout=60, env=self.env, restart=False)
            alone = bool(c2) and c2[0].get("id") == "0"
            if alone and c2[0].get("stderr"):
                stderr = c2[0]["stderr"]
        what = ("hang: more than %s s of CPU in %s" % (self.env["VERIF_FUZZ_CPU"], c["entry"])) if timeout else \
               "sanitizer abort / crash in %s: %s" % (c["entry"], summary(stderr))
        cx.fail("fuzz", what, {"line": line if alone is not False else None, "entry": c["entry"], "gen": c["gen"], "input_hex": hexs(c["input"]),
                               "arg_hex": hexs(c["arg"]), "stderr": stderr[-2600:], "crash": True, "timeout": timeout, "standalone": alone,
                               "request": "0 fuzz " + c["req"] if len(c["req"]) < 20000 else None})

    def _leak_alone(self, c):
        """one request + leakcheck in a fresh process: (leaks?, LeakSanitizer report)"""
        r, cr = proto.run_lines([self.exe], ["0 fuzz " + c["req"], "1 fuzz leakcheck"], timeout=120, env=self.env, restart=False)
        err = "".join(x.get("stderr", "") for x in cr)
        return r.get("1", ["ok"])[0] != "ok", err

    def _leak(self, lines, at, window, leaked_before=False):
        """a leakcheck failed: the candidates are the requests of the window after which the live heap had grown
        (the harness reports that); each is confirmed on its own with LeakSanitizer.  Candidates of a shape that is
        already a listed leak are sampled, everything else is confirmed one by one."""
        cx = self.cx
        explained = False
        for (l, c, r) in window:
            shape = leak_shape(c, r)
            if shape is not None:
                if self.leak_probes[shape] >= MAX_LEAK_PROBES:
                    cx.dist["leak-candidate-not-confirmed(known shape %s)" % shape] += 1
                    explained = explained or self.leak_confirmed[shape] > 0
                    continue
                self.leak_probes[shape] += 1
            elif self.leak_probes[None] >= 60:
                continue
            else:
                self.leak_probes[None] += 1
            leaks, err = self._leak_alone(c)
            if leaks:
                explained = True
                if shape is not None:
                    self.leak_confirmed[shape] += 1
                cx.fail("fuzz", "memory leak (LeakSanitizer) in %s: %s" % (c["entry"], leak_summary(err)),
                        {"line": "0 fuzz " + c["req"] if len(c["req"]) < 20000 else None, "entry": c["entry"], "gen": c["gen"], "input_hex": hexs(c["input"]),
                         "reply": r, "stderr": err[-3000:], "law": "leak", "request": "0 fuzz " + c["req"] if len(c["req"]) < 20000 else None})
        if explained or leaked_before:
            return
        # no candidate explains it: bisect the window
        lo = max([j for j in range(at) if lines[j].split()[2] == "leakcheck"] + [-1]) + 1
        win = [l for l in lines[lo:at]]
        if os.environ.get("VERIF_DEBUG_DUMP"):
            open(os.path.join(os.environ["VERIF_DEBUG_DUMP"], "leakwin-%d-%d.txt" % (at, len(win))), "w").write("\n".join(lines[:at + 1]) + "\n")
        for _ in range(14):
            if len(win) <= 1:
                break
            half = win[:len(win) // 2]
            probe = ["%d fuzz %s" % (i, " ".join(l.split()[2:])) for i, l in enumerate(half)] + ["%d fuzz leakcheck" % len(half)]
            r, _c = proto.run_lines([self.exe], probe, timeout=600, env=self.env)
            win = half if r.get(str(len(half)), ["ok"])[0] != "ok" else win[len(win) // 2:]
        culprit = win[0] if len(win) == 1 else None
        err, entry, reply, inp = "", None, [], b""
        if culprit:
            c = {"req": " ".join(culprit.split()[2:])}
            _leaks, err = self._leak_alone(c)
            r1, _c1 = proto.run_lines([self.exe], ["0 fuzz " + c["req"]], timeout=120, env=self.env, restart=False)
            reply = r1.get("0", [])
            t = c["req"].split()
            entry = {"data": "lyd_parse_data_mem." + (t[1] if len(t) > 1 else ""), "schema": "lys_parse_mem." + (t[1] if len(t) > 1 else "")}.get(t[0], t[0])
            try:
                inp = unhex(t[-1])
            except Exception:
                inp = b""
        cx.fail("fuzz", "memory leak reported by LeakSanitizer" + (" after request: " + culprit[:160] + " " + leak_summary(err) if culprit else ""),
                {"line": culprit, "request": culprit, "window_len": at - lo, "law": "leak", "stderr": err[-3000:], "entry": entry, "reply": reply,
                 "input_hex": hexs(inp)})

    # -- known-crash shapes: run a few, defer the rest
    def feed(self, cases, tag, batch=4000):
        """consume an iterator of cases in chunks (bounded memory), holding back the known-crash shapes"""
        it = iter(cases)
        while True:
            chunk = list(itertools.islice(it, batch * WORKERS * 3))
            if not chunk:
                break
            keep = []
            for c in chunk:
                fid = suspect(c)
                if fid is not None:
                    if len(self.deferred[fid]) < 2000:
                        self.deferred[fid].append(c)
                    else:
                        self.cx.dist["skipped-known-crash-shape:" + fid] += 1
                else:
                    keep.append(c)
            self.run(keep, tag, batch)

    def flush_deferred(self):
        cx = self.cx
        for fid, cs in sorted(self.deferred.items()):
            cs.sort(key=lambda c: (len(c["input"]), c["input"]))
            probes, rest = cs[:MAX_SUSPECT_PROBES], cs[MAX_SUSPECT_PROBES:]
            before = self.crashes
            self.run(probes, "suspect:" + fid)
            if self.crashes > before:
                # still open: a probe aborted the harness; the remaining inputs of this shape are not run (each costs a restart)
                if rest:
                    cx.dist["skipped-known-crash-shape:" + fid] += len(rest)
            elif rest:
                self.run(rest, "suspect-rest:" + fid)
        self.deferred.clear()

    def report(self):
        tab = {}
        for e, st in sorted(self.stats.items()):
            sz = sorted(st["sizes"])
            tab[e] = {"n": st["n"], "ok": st["ok"], "err": dict(st["err"]), "size_min_med_max": [sz[0], sz[len(sz) // 2], sz[-1]] if sz else [],
                      "generators": dict(st["gens"].most_common(8))}
        return tab


def leak_shape(c, r):
    """request/reply shapes of the listed leaks (so that their many instances are sampled, not each confirmed)"""
    t = c["req"].split()
    if t[0] == "data" and r[0] == "err" and r[1] == "EVALID" and int(t[3], 16) & G.V_MULTI_ERROR:
        return "F58"
    if r[0] == "ok" and "print-failed" in r:
        return "F57"
    if t[0] == "data" and t[1] == "json" and r[0] == "err" and r[1] == "EVALID" and re.search(rb'"any"\s*:\s*\{[^}]*\[[^\]]*,', c["input"]):
        return "F60"
    return None


def leak_summary(err):
    fr = re.findall(r"#\d+ 0x[0-9a-f]+ in (\S+)", err or "")
    fr = [f for f in fr if not f.startswith("__interceptor") and f not in ("malloc", "calloc", "realloc", "strdup", "strndup")]
    return " < ".join(fr[:6]) if fr else "(no stack)"


def summary(err):
    for l in (err or "").split("\n"):
        if "ERROR: AddressSanitizer" in l or "runtime error:" in l or "ERROR: LeakSanitizer" in l or "VERIF-TIMEOUT" in l:
            return l.strip()[:240]
    tail = [l for l in (err or "").strip().split("\n") if l.strip()]
    return tail[-1][:240] if tail else "(no diagnostic)"


def run_api(cx):
    api = Api(cx)
    rng = cx.sub_rng("api")
    thorough = cx.tier == "thorough"
    counter = itertools.count(1)
    L = cx.n(3, 4)
    cx.rule("fuzz: exhaustive token sequences of length <= %d (token sets of more than 16 tokens: one less, plus sampled longer sequences in the thorough tier) over the micro-grammar of every argument kind (range, length, derived ranges, if-feature, "
            "must, when, leafref path, unique, bits/enum/int/dec64 default, pattern, key, augment/deviation target, numeric arguments, identifiers, "
            "quoted strings, statements, YIN arguments/elements, XPath on data and schema, data paths, predicates, JSON members, XML elements, "
            "number lexicals, UTF-8 sequences, JSON numbers), boundary value pool x every leaf type, structure-aware and raw mutations of the "
            "seeds (tests/fuzz/corpus, tests/modules/yang, own YANG/YIN/XML/JSON/RPC/notification/NETCONF/RESTCONF documents) through every "
            "parser/validation option set; non-trivial = distinct input accepted, or distinct (entry point, error code, message shape)" % L)

    # --- micro-grammars: schema side.  Exhaustive up to length L for token sets of at most 16 tokens; the bigger sets one
    # level less (quick: `must` stays at 3, the F30/F32-style defects sat there) plus, in the thorough tier, a sample of length-L/L+1 sequences
    ntok = {k: len(v[1]) for d in (G.SCHEMA_KINDS, G.RAW_KINDS, G.YIN_KINDS) for k, v in d.items()}
    small = {k: (L if n <= 16 else L - 1) for k, n in ntok.items()}
    if not thorough:
        small["must"] = L
    api.feed(G.schema_micro(None, small, counter), "micro-schema")
    if thorough:
        api.feed(G.schema_micro_sample(rng, [k for k, n in ntok.items() if n > 16], (L, L + 1), 60000, counter), "micro-schema-sampled")

    # --- micro-grammars: data side
    api.feed(G.xpath_micro(L - 1), "micro-xpath")
    # longer XPath sequences: every one over the function/axis/root tokens
    sel = [G.b(t) for t in ("/", "(", ")", "deref(", "string(", "floor(", "enum-value(", "bit-is-set(", ",'a')", "100000000000000000000", "current()",
                             ".", "[", "]", "count(", "not(", "-", "|", "//", "*", " div ", "0", "/fz:t/bi", "re-match(", ",", "'a'")]
    api.feed((c for e in G.seqs(sel if not thorough else sel[:18], L)
              for c in (G.case("xpath eval %s" % hexs(e), "lyd_eval_xpath4", "micro:xpath", e, e),
                        G.case("xpath sfind %s" % hexs(e), "lys_find_xpath", "micro:xpath", e, e))), "micro-xpath-long")
    if thorough:
        xt = [G.b(t) for t in G.T_XPATH]
        api.feed((G.case("xpath %s %s" % (w, hexs(e)), ent, "micro:xpath-sampled", e, e)
                  for e in (b"".join(rng.choice(xt) for _ in range(rng.choice((3, 4, 5, 6)))) for _ in range(400000))
                  for w, ent in (("find", "lyd_find_xpath"), ("eval1", "lyd_eval_xpath4"), ("satoms", "lys_find_xpath_atoms"))), "micro-xpath-sampled")
    api.feed(G.path_micro(L - 1), "micro-path")
    api.feed(G.fragment_micro(L if not thorough else L - 1), "micro-fragments")
    if thorough:
        tj, tx = [G.b(t) for t in G.T_JSON], [G.b(t) for t in G.T_XML]
        api.feed((G.data_case("json", b'{"fz:c":{' + f + b'}}', "micro:json-members-sampled", f, G.P_OPAQ, G.V_PRESENT)
                  for f in (b"".join(rng.choice(tj) for _ in range(rng.choice((4, 5, 6, 8)))) for _ in range(200000))), "micro-fragments-sampled")
        api.feed((G.data_case("xml", b'<c xmlns="urn:fz">' + f + b'</c>', "micro:xml-elements-sampled", f, G.P_OPAQ | G.P_ONLY, 0)
                  for f in (b"".join(rng.choice(tx) for _ in range(rng.choice((4, 5, 6, 8)))) for _ in range(200000))), "micro-fragments-sampled")
    api.feed(G.lexical_micro(2, 3), "micro-lexical")
    api.feed(G.utf8_micro(L), "micro-utf8")
    nums = list(dict.fromkeys(G.json_numbers(full=thorough)))
    api.feed((G.case("opaq json %s" % hexs(t), "lyd_parse_data_mem.json", "micro:json-number", G.b(t), G.b(t)) for t in nums), "micro-jsonnum")
    api.feed((G.data_case("json", b'{"fz:t":{"' + leaf + b'":' + G.b(t) + b'}}', "micro:json-number-typed", G.b(t), G.P_STRICT, G.V_PRESENT)
              for t in nums[::(1 if thorough else 7)] for leaf in (b"d2", b"i32", b"u8")), "micro-jsonnum-typed")
    api.feed(G.value_cases(rng, cx.n(4000, 150000)), "values")

    # --- patterns through ly_pattern_compile
    ptoks = [G.b(t) for t in G.SCHEMA_KINDS["pattern"][1]]
    api.feed((G.case("pattern %s %s" % (hexs(p), hexs("ab")), "ly_pattern_compile", "micro:pattern", p, p) for p in G.seqs(ptoks, L - 1)), "micro-pattern")

    # --- seeds and mutations
    seeds = G.load_seeds(paths.REPO)
    cases = []
    n_small, n_big, n_raw = cx.n(60, 1500), cx.n(25, 400), cx.n(25, 600)
    for fmt, tgt, data, name in seeds:
        srng = cx.sub_rng("seed/" + name)
        if tgt.startswith("schema"):
            cases.append(G.schema_case(fmt, data, "seed", b""))
            nmut = n_big if tgt == "schema-big" else n_small
            for m, what in G.struct_mutants(srng, fmt, data, nmut, all_truncations=(len(data) < 1500 or thorough) and tgt != "schema-big"):
                cases.append(G.schema_case(fmt, m, "struct:" + what, b""))
            for _ in range(n_raw if tgt != "schema-big" else n_raw // 5):
                m = G.mutate_bytes(srng, data, 1 + srng.randrange(4))
                cases.append(G.schema_case(fmt, m, "raw-bytes", b""))
        else:
            for po in G.PARSE_SETS:
                for vo in G.VALIDATE_SETS:
                    cases.append(G.data_case(fmt, data, "seed", b"", po, vo))
            for m, what in G.struct_mutants(srng, fmt, data, n_small * 2, all_truncations=len(data) < 1500 or thorough):
                cases.append(G.data_case(fmt, m, "struct:" + what, b"", srng.choice(G.PARSE_SETS), srng.choice(G.VALIDATE_SETS)))
            for _ in range(n_raw):
                m = G.mutate_bytes(srng, data, 1 + srng.randrange(4))
                cases.append(G.data_case(fmt, m, "raw-bytes", b"", srng.choice(G.PARSE_SETS), srng.choice(G.VALIDATE_SETS)))
    for fmt, kind, parent, doc in G.OPS:
        srng = cx.sub_rng("op/%s/%s/%d" % (fmt, kind, len(doc)))
        cases.append(G.op_case(fmt, kind, parent, doc, "seed", b""))
        # a document of one operation type offered to every other entry type as well
        for k2 in G.OP_TYPES:
            if k2 != kind and (fmt == "xml" or "netconf" not in k2):
                cases.append(G.op_case(fmt, k2, parent if k2.startswith("reply") or "restconf" in k2 else 0, doc, "seed-cross-type", b""))
        for m, what in G.struct_mutants(srng, fmt, doc, n_small * 2, all_truncations=True):
            cases.append(G.op_case(fmt, kind, parent, m, "struct:" + what, b""))
        for _ in range(n_raw):
            cases.append(G.op_case(fmt, kind, parent, G.mutate_bytes(srng, doc, 1 + srng.randrange(3)), "raw-bytes", b""))
    # deep nesting (resource bounds)
    for depth in (50, 400, 3000) + ((20000,) if thorough else ()):
        cases.append(G.data_case("xml", b'<c xmlns="urn:fz">' + b"<any>" * depth + b"</any>" * depth + b"</c>", "deep-nesting", b"", G.P_ONLY | G.P_OPAQ, 0))
        cases.append(G.data_case("xml", b"<a>" * depth, "deep-nesting", b"", G.P_ONLY | G.P_OPAQ, 0))
        cases.append(G.data_case("json", b'{"fz:c":{"any":' + b'{"a":' * depth + b"1" + b"}" * depth + b"}}", "deep-nesting", b"", G.P_ONLY | G.P_OPAQ, 0))
        cases.append(G.data_case("json", b'{"fz:c":{"any":' + b"[" * depth, "deep-nesting", b"", G.P_ONLY | G.P_OPAQ, 0))
        n = next(counter)
        cases.append(G.schema_case("yang", (G.HDR % (n, n)) + b"container c {" * depth + b"}" * depth + b"}", "deep-nesting", b""))
        cases.append(G.case("xpath find %s" % hexs(b"(" * depth + b"1" + b")" * depth), "lyd_find_xpath", "deep-nesting", b"", b"(" * depth))
        cases.append(G.case("xpath find %s" % hexs(b"/fz:c" + b"[.//y" * depth), "lyd_find_xpath", "deep-nesting", b"", b"[" * depth))
        cases.append(G.case("xpath find %s" % hexs(b"-" * depth + b"1"), "lyd_find_xpath", "deep-nesting", b"", b"-" * depth))
        n = next(counter)
        cases.append(G.schema_case("yang", (G.HDR % (n, n)) + b'feature a; leaf x { if-feature "' + b"(" * depth + b"a" + b")" * depth + b'"; type string; } }',
                                   "deep-nesting", b""))
    rng.shuffle(cases)
    api.feed(cases, "mutations")

    api.flush_deferred()
    # the dictionary must be empty when the contexts go away
    lines, idx, replies, crashes = api._run([], leak_every=0, health=False)
    r, _ = proto.run_lines([api.exe], ["0 fuzz ctxreset", "1 fuzz leakcheck"], timeout=120, env=api.env)
    if r.get("0", ["err"])[0] != "ok" or r.get("1", ["err"])[0] != "ok":
        cx.fail("fuzz", "context teardown: " + str(r), {"line": "0 fuzz ctxreset", "reply": r})

    lexer_outcomes(cx, api)
    c05yin.run(cx, api.exe, api.env)
    cx.notes.append("api_fuzz input distribution per entry point: " + json.dumps(api.report(), sort_keys=True))
    cx.notes.append("api_fuzz: %d harness aborts handled, %.1f s in the harness; %s" % (api.crashes, api.t_spent, "; ".join("%s: %d requests, %d aborts, %.1fs" % (k, v[0], v[1], v[2]) for k, v in api.timing.items())))


def lexer_outcomes(cx, api):
    """where a model of the lexer exists, the outcome seen through the public API must be the model's outcome"""
    rng = cx.sub_rng("lexer-outcomes")
    utf = list(G.seqs(G.T_UTF8, cx.n(3, 4)))
    txt = [G.b(w) for w in ["a&lt;b", "&#x41;&#65;", "<![CDATA[x&y]]>z", "&amp", "&#xD800;", "a]]>b", " \n", "&quot;&apos;&gt;", "&#0;", "&#x110000;", "\\u0041", "\\n\\t\\\\", "\\uD800",
                            "\\u00", "\\x", "a\\", "\xc3\xa9\xe2\x82\xac", "tab\there"]]
    nums = [G.b(t) for t in dict.fromkeys(G.json_numbers(full=False))]
    jobs = []      # (api request, model request, how to compare)
    for s in utf + txt:
        if b"<" not in s.replace(b"<![CDATA[", b"") and b"]]>" not in s or True:
            jobs.append(("opaq xml " + hexs(s), "text xmlparse 3c " + hexs(s + b"</nx>"), "xml", s))
        if b'"' not in s:
            jobs.append(("opaq jsonstr " + hexs(s), "text jsonparse " + hexs(s + b'"}'), "jsonstr", s))
    for t in nums:
        jobs.append(("opaq json " + hexs(t), "lex jsonnum " + hexs(t + b"}"), "jsonnum", t))
    la = ["%d fuzz %s" % (i, j[0]) for i, j in enumerate(jobs)]
    lm = ["%d %s" % (i, j[1]) for i, j in enumerate(jobs)]
    ra, _ = proto.run_lines([api.exe], la, timeout=600, env=api.env)
    rm = cx.run_model(lm)
    for i, (areq, mreq, how, s) in enumerate(jobs):
        a, m = ra.get(str(i), ["err", "NoReply"]), rm.get(str(i), ["err", "NoReply"])
        if how == "xml":
            # the lexer stops at '<': the API document is well-formed exactly when it stopped at our closing tag
            mok = m[0] == "ok" and m[3] == "5"
            mval = m[1] if mok else None
        elif how == "jsonstr":
            mok = m[0] == "ok" and m[2] == "1"
            mval = m[1] if mok else None
        else:
            mok = m[0] == "ok" and m[2] == "1"
            mval = m[1] if mok else None
        aok = a[0] == "ok"
        cx.count(("lexer-outcome", how, s), True, "lexer-outcome:%s:%s" % (how, "ok" if aok else "err"))
        if a[:2] in (["err", "Crash"], ["err", "Timeout"], ["err", "NoReply"]):
            cx.fail("fuzz", "harness died on " + areq[:100], {"line": la[i], "crash": True, "entry": "lyd_parse_data_mem", "input_hex": hexs(s), "stderr": ""})
            continue
        if aok != mok or (aok and a[1] != mval and not (how == "xml" and False)):
            cx.disagree("lex", la[i], a, m)
        # F11 law: what the lexers accept is well-formed UTF-8
        if aok and how in ("xml", "jsonstr"):
            try:
                unhex(a[1]).decode("utf-8")
            except UnicodeDecodeError:
                cx.fail("fuzz", "the %s lexer accepts ill-formed UTF-8 %s" % (how, hexs(s)), {"law": "utf8-wellformed", "input_hex": hexs(s), "line": la[i]})


def run_lex_models(cx):
    """the buffer-explicit lexer models (instrumented lyxml_parse_value, lyjson_string, ly_getutf8) against the code"""
    from checks import textcomp
    strings = textcomp.gen_strings(cx, 3000, 100000)
    rng = cx.sub_rng("lexbuf")
    # inputs that make the buffers grow: long runs before / between references, escapes and CDATA sections
    pieces_x = [b"&lt;", b"&#x41;", b"&#1114111;", b"<![CDATA[" + b"c" * 5 + b"]]>", b"<![CDATA[" + b"d" * 300 + b"]]>", b"&amp;", b"&bad;", b"&#xD800;"]
    pieces_j = [b"\\n", b"\\u0041", b"\\u20AC", b"\\\"", b"\\uD800", b"\\x", b"\\u00e9"]
    runs = [0, 1, 18, 19, 20, 21, 23, 24, 25, 120, 127, 128, 129, 146, 147, 148, 149, 150, 151, 152, 153, 275, 276, 277, 400, 1000]
    cases = []
    for s in strings:
        cases.append("xmlparse 3c " + hexs(s + b"<rest"))
        cases.append("xmlparse 22 " + hexs(s + b"\" b"))
        cases.append("jsonparse " + hexs(s + b"\","))
        if len(s) <= 6:
            cases.append("getutf8 " + hexs(s))
    for n in runs:
        for m in (0, 1, 3, 127, 128, 200):
            for p in pieces_x:
                body = b"a" * n + p + b"\xc3\xa9" * (m // 2) + rng.choice(pieces_x) + b"z" * (m % 7)
                cases.append("xmlparse 3c " + hexs(body + b"<"))
            for p in pieces_j:
                body = b"a" * n + p + b"\xc3\xa9" * (m // 2) + rng.choice(pieces_j) + b"z" * (m % 7)
                cases.append("jsonparse " + hexs(body + b"\""))
    for _ in range(cx.n(1500, 40000)):
        k = rng.randrange(1, 6)
        cases.append("xmlparse 3c " + hexs(b"".join(rng.choice(pieces_x + [b"x" * rng.choice(runs[:16])]) for _ in range(k)) + b"<"))
        cases.append("jsonparse " + hexs(b"".join(rng.choice(pieces_j + [b"x" * rng.choice(runs[:16])]) for _ in range(k)) + b"\""))
    cases = list(dict.fromkeys(cases))
    lines = ["%d lex %s" % (i, c) for i, c in enumerate(cases)]
    cx.rule("lexbuf: the instrumented models (explicit len/offset/size/allocation, every store asserted) against lyxml_parse_value, lyjson_string, "
            "ly_getutf8 on the text pool plus runs of 0..1000 plain bytes around references / escapes / CDATA sections at every growth boundary "
            "(24, 24+128k, the +4 slack)")

    def kind(line, reply):
        return "lexbuf:%s:%s" % (line.split()[2], reply[0] if reply[0] == "ok" else reply[1])

    cx.differential("lex", lines, "wb_text", kind=kind)


def run(cx):
    from checks import fncomp; fncomp.run_fn(cx, ['utf8', 'json'])
    run_jsonnum(cx)
    run_lex_models(cx)
    run_api(cx)


def replay(cx, payload):
    f = payload.get("failure", {})
    case = f.get("case", {})
    line = case.get("request") or case.get("line")
    if not line:
        cx.notes.append("nothing to replay")
        return
    comp = line.split()[1]
    if comp == "fuzz":
        api = Api(cx)
        c = {"req": " ".join(line.split()[2:]), "entry": case.get("entry", "?"), "gen": "replay", "arg": b"", "input": unhex(case.get("input_hex", "-"))}
        api.run([c], "replay")
    else:
        cx.differential("lex", [line], "wb_jsonnum")
        run_jsonnum_one(cx, line)


def run_jsonnum_one(cx, line):
    r = cx.run_impl("wb_jsonnum", [line])
    a = r.get(line.split()[0], ["err"])
    if a[0] == "ok":
        inp = unhex(line.split()[3]).decode("latin-1")
        txt = inp[:len(inp) - int(a[2])]
        val = unhex(a[1]).decode("latin-1")
        if denote(txt) != denote(val):
            cx.fail("lex", "JSON number %r is turned into %r" % (txt, val), {"law": "json-number-value", "input_hex": hexs(txt), "line": line})
