"""C11 — compilation gives schema constructs their RFC 7950 meaning.

Part 1 (this file, component `iff`): if-feature compiler/evaluator and range/length restriction compiler, model vs
implementation (white-box `wb_iff`) plus the property's laws evaluated on the implementation's own replies against an
independent reference written from RFC 7950 §14 (`if-feature-expr`, `range-arg`, `length-arg`), NOT from libyang:
  * a grammatical if-feature expression compiles, and its prefix code / the existence of the guarded node equals the
    boolean value of the expression under every feature assignment; an ungrammatical one is rejected;
  * a grammatical range/length argument compiles to the parts the RFC gives it; an ungrammatical one is rejected; an
    accepted derived restriction accepts a subset of what its base accepts; value validation = membership.
Part 2 (checks/c11meta.py): structured vs hand-flattened module pairs and load-order independence through `api_compile`.
"""
import itertools, os, re
from vlib.proto import hexs, unhex

LEAN_TARGETS = ["LyModel.Props.C11", "LyModel.Props.C11Range", "LyModel.Props.C11Compile"]
AUDIT = ["Audit/C11.lean", "Audit/C11Fn.lean"]
GENERATED = ["Consts", "IffSrc", "CompileSrc"]
LEAN_TARGETS += ["LyModel.Props.C11Fn"]; GENERATED += ["FnIff"]     # functions translated from the C source (tools/c2lean.py), bridged in lean/LyModel/Bridge
ASSUMPTIONS = [
    "if-feature: `lysp_feature_find` (prefix resolution + lookup by name) is an abstract function `lookup` in the theorems; the driver instantiates it with the module/import table of the request",
    "if-feature theorems are about YANG 1.1 modules (the YANG 1.0 `checkversion` path is covered by the correspondence only); feature names in the grammar AST are any blank/parenthesis-free words other than the literal keywords not/and/or",
    "range: `strtoll`/`strtoull` are modelled on the strings that can reach them (`[+-]?[0-9]*`), decimal64 through the normalised copy exactly as the C code builds it; the grammar theorem (range_parse_correct_partial) covers integer ranges and lengths, decimal64 is covered by the correspondence only",
    "models are parametrised by which candidate repairs (fixes/F3, F13, F30, F75) the source contains; Generated/IffSrc.lean (tools/extractors/iff.py) reads that off the C text of $VERIF_REPO on every run and refuses unknown shapes; theorems are stated for every flag value, `_fails` for the pinned tree ({}), `_fixed` for the repaired one",
    "the expansion core of the schema compiler (uses/refine/augment/deviation, config/status/mandatory propagation) is modelled in lean/LyModel/Compile and compared with libyang's compiled tree (tools/checks/c11exp.py); compile = compile of the RFC expansion is CHECKED on every generated input and proved false in general (F390), not proved for the remaining shapes; typedef folding, submodules and load-order independence stay metamorphic (c11meta.py, c11aug.py); instance acceptance of the two renderings is not compared (only the effective schema)",
]
TRUSTED = ["harness/wb_iff.c", "harness/api_compile.c", "reference grammar readers in tools/checks/c11.py (written from RFC 7950 §14)"]
HARNESS = "wb_iff"

PRED = {}          # request (without id) -> model reply; used by classify()
CRASH_KINDS = {"CrashOobWrite": "F13", "CrashOobFeat": "F13", "CrashUnderflow": "F3", "CrashOobRead": "F30"}


def classify(component, what, case):
    """A failing case is an instance of a known finding only if it has exactly that finding's mechanism."""
    from checks import c11exp
    fid = c11exp.classify_exp(component, what, case)
    if fid:
        return fid
    if case.get("crash") and component == "compile":
        err = case.get("stderr", "")
        # UBSan reports "schema_compile_node.c:<line>:<col>: runtime error: member access within null pointer of type
        # 'struct lysc_type'" (for a deep stack only the SUMMARY line survives in the kept tail of stderr): the finding is
        # recognised by WHAT the reported source line is, read from the tree under test
        m = re.search(r"schema_compile_node\.c:(\d+):", what)
        if m and ("undefined-behavior" in what or "null pointer of type 'struct lysc_type'" in what):
            try:
                from vlib import paths
                line = open(os.path.join(paths.REPO, "src", "schema_compile_node.c")).read().split("\n")[int(m.group(1)) - 1]
            except (OSError, IndexError):
                line = ""
            if "tpdf_chain.objs[tpdf_chain.count - 1]" in line and "type.compiled->basetype" in line:
                return "F78"
        if "SEGV" in what and "lys_compile_type" in err:
            return "F78"
        return None
    if case.get("crash"):
        line = case.get("line") or ""
        key = " ".join(line.split()[1:])
        pred = PRED.get(key)
        if pred and pred[0] == "err":
            k = pred[-1]
            if k in CRASH_KINDS and sanitizer_site(CRASH_KINDS[k], case.get("stderr", "")):
                return CRASH_KINDS[k]
        return None
    return case.get("finding_class")


def sanitizer_site(fid, stderr):
    """the abort must be where the model says the out-of-bounds access happens"""
    if fid == "F13":
        return "iff_setop" in stderr or "lys_compile_iffeature" in stderr
    if fid == "F3":
        return "iff_stack_pop" in stderr or "lys_compile_iffeature" in stderr
    if fid == "F30":
        return "lys_compile_type_range" in stderr
    return False


# ======================================================================================================================
# reference: RFC 7950 if-feature-expr
# ======================================================================================================================
WSP = b" \t"
IDSTART = set(b"abcdefghijklmnopqrstuvwxyzABCDEFGHIJKLMNOPQRSTUVWXYZ_")
IDCHAR = IDSTART | set(b"0123456789-.")


class NoParse(Exception):
    pass


def _sep(s, i, need):
    j = i
    while j < len(s):
        if s[j] in WSP or s[j] == 0x0A:
            j += 1
        elif s[j] == 0x0D and j + 1 < len(s) and s[j + 1] == 0x0A:
            j += 2
        else:
            break
    if need and j == i:
        raise NoParse()
    return j


def _ident(s, i):
    j = i
    if j >= len(s) or s[j] not in IDSTART:
        raise NoParse()
    j += 1
    while j < len(s) and s[j] in IDCHAR:
        j += 1
    return j


def _idref(s, i):
    j = _ident(s, i)
    if j < len(s) and s[j] == 0x3A:
        j = _ident(s, j + 1)
    name = s[i:j]
    if name in (b"not", b"and", b"or"):
        raise NoParse()
    return ("f", name), j


def _factor(s, i):
    if s[i:i + 3] == b"not":
        try:
            j = _sep(s, i + 3, True)
            f, j = _factor(s, j)
            return ("not", f), j
        except NoParse:
            pass
    if i < len(s) and s[i] == 0x28:
        j = _sep(s, i + 1, False)
        e, j = _expr(s, j)
        j = _sep(s, j, False)
        if j >= len(s) or s[j] != 0x29:
            raise NoParse()
        return ("par", e), j + 1
    return _idref(s, i)


def _term(s, i):
    f, j = _factor(s, i)
    try:
        k = _sep(s, j, True)
        if s[k:k + 3] != b"and":
            raise NoParse()
        k = _sep(s, k + 3, True)
        t, k = _term(s, k)
        return ("and", f, t), k
    except NoParse:
        return f, j


def _expr(s, i):
    t, j = _term(s, i)
    try:
        k = _sep(s, j, True)
        if s[k:k + 2] != b"or":
            raise NoParse()
        k = _sep(s, k + 2, True)
        e, k = _expr(s, k)
        return ("or", t, e), k
    except NoParse:
        return t, j


def iff_parse(s):
    """AST of the RFC grammar or None."""
    try:
        e, j = _expr(s, 0)
    except (NoParse, IndexError, RecursionError):
        return None
    return e if j == len(s) else None


def iff_val(e, asg):
    k = e[0]
    if k == "f": return asg[e[1]]
    if k == "not": return not iff_val(e[1], asg)
    if k == "par": return iff_val(e[1], asg)
    if k == "and": return iff_val(e[1], asg) and iff_val(e[2], asg)
    return iff_val(e[1], asg) or iff_val(e[2], asg)


def iff_names(e, acc):
    if e[0] == "f": acc.append(e[1])
    else:
        for x in e[1:]: iff_names(x, acc)
    return acc


def prefix_eval(codes, feats, vals):
    """independent evaluator of the 2-bit prefix code (0 not, 1 and, 2 or, 3 feature); raises on malformed code"""
    pos = [0, 0]
    def go():
        op = codes[pos[0]]; pos[0] += 1
        if op == 3:
            v = vals[feats[pos[1]]]; pos[1] += 1
            return v
        if op == 0:
            return not go()
        a = go(); b = go()
        return (a and b) if op == 1 else (a or b)
    v = go()
    return v, pos[0], pos[1]


# ---- environments ----------------------------------------------------------------------------------------------------
ENV3 = "m=a,b,c"                                   # exhaustive stream
ENVP = "m=a,b,c,nota,orx,and-1,x.y;i=a,x;jj=b"     # names starting with keywords, prefixed names


def env_table(env):
    """name (as written in an expression of the local module) -> global feature id, per the RFC: own prefix or import prefix"""
    mods = []
    for m in env.split(";"):
        p, fs = m.split("=")
        mods.append((p, fs.split(",")))
    tab, gid = {}, 0
    for k, (p, fs) in enumerate(mods):
        for f in fs:
            if k == 0:
                tab[f.encode()] = gid
            tab[(p + ":" + f).encode()] = gid
            gid += 1
    return tab, gid


def all_bits(n):
    return ["".join(t) for t in itertools.product("01", repeat=n)]


# ---- generators ------------------------------------------------------------------------------------------------------
TOKS = [b"a", b"b", b"c", b"not", b"and", b"or", b"(", b")"]


def join_tight(toks):
    """canonical spelling: blanks between tokens except after '(' and before ')'"""
    out = b""
    for i, t in enumerate(toks):
        if i and not (toks[i - 1] == b"(" or t == b")"):
            out += b" "
        out += t
    return out


def gen_expr(rng, depth, names):
    """random grammatical expression (token list) with random RFC whitespace"""
    def ws(need):
        n = rng.choice([1, 1, 1, 2, 3]) if need else rng.choice([0, 0, 1, 2])
        return b"".join(rng.choice([b" ", b" ", b"\t", b"\n", b"\r\n"]) for _ in range(n))
    def factor(d):
        r = rng.random()
        if d <= 0 or r < 0.35:
            return rng.choice(names)
        if r < 0.65:
            return b"not" + ws(True) + factor(d - 1)
        return b"(" + ws(False) + expr(d - 1) + ws(False) + b")"
    def term(d):
        s = factor(d)
        while rng.random() < 0.35:
            s += ws(True) + b"and" + ws(True) + factor(d)
        return s
    def expr(d):
        s = term(d)
        while rng.random() < 0.35:
            s += ws(True) + b"or" + ws(True) + term(d)
        return s
    return expr(depth)


def mutate(rng, s):
    """malformed stream: splice / delete / duplicate around token boundaries"""
    if not s:
        return b")"
    k = rng.randrange(len(s) + 1)
    r = rng.random()
    junk = [b"(", b")", b" ", b"not ", b"and ", b"or ", b"not", b"()", b") (", b"\x0b", b"\x0c", b"\r", b":", b"a", b"\xc3\xa9", b"nota", b" or", b"(("]
    if r < 0.5:
        return s[:k] + rng.choice(junk) + s[k:]
    if r < 0.8:
        j = min(len(s), k + rng.randrange(1, 4))
        return s[:k] + s[j:]
    return s[:k] + s[k:] + s[k:]


def _lines(cases, start=0):
    return ["%d iff %s" % (start + i, c) for i, c in enumerate(cases)]


def model_first(cx, cases, crash_budget):
    """Run the model on all cases, the implementation on those for which the model does not predict a crash plus
    `crash_budget` predicted crashes per kind (every crash costs a harness restart). Returns (lines, impl, model)."""
    lines = _lines(cases)
    rm = cx.run_model(lines)
    send, skipped = [], 0
    seen = {}
    for l in lines:
        i = l.split()[0]
        rep = rm.get(i, ["err", "NoReply"])
        PRED[" ".join(l.split()[1:])] = rep
        k = rep[-1] if rep[0] == "err" else None
        if k in CRASH_KINDS:
            seen[k] = seen.get(k, 0) + 1
            if seen[k] > crash_budget:
                skipped += 1
                continue
        send.append(l)
    ri = cx.run_impl(HARNESS, send, component="iff")
    sent = set(l.split()[0] for l in send)
    for l in lines:
        i = l.split()[0]
        if i not in sent:
            continue
        a, b = ri.get(i, ["err", "NoReply"]), rm.get(i, ["err", "NoReply"])
        if a[:2] == ["err", "Crash"]:
            if not (b[0] == "err" and b[-1] in CRASH_KINDS):
                pass  # unexpected crash: already recorded as an unclassified failure by run_impl
            continue
        if a[:2] == ["err", "Timeout"]:
            continue
        if a != b:
            cx.disagree("iff", l, a, b)
    if skipped:
        cx.dist["iff:predicted-crash-not-sent"] += skipped
    return lines, ri, rm


# ======================================================================================================================
# if-feature
# ======================================================================================================================
def run_iff(cx):
    rng = cx.sub_rng("iff")
    tab3, n3 = env_table(ENV3)
    tabp, np_ = env_table(ENVP)
    maxtok = cx.n(6, 7)
    cx.rule("if-feature: ALL token strings of <= %d tokens over {a,b,c,not,and,or,(,)} (canonical spelling; valid and invalid) through "
            "lys_compile_iffeature, every accepted prefix code evaluated under all 8 assignments against the RFC reference; all grammatical ones "
            "also end-to-end (lys_parse + node existence) under all 8 assignments; random deeper expressions with RFC whitespace, prefixed and "
            "keyword-prefixed names, and a mutated (malformed) stream; non-trivial = distinct request" % maxtok)
    cases, meta = [], {}
    def add(ver, env, s):
        c = "iffcompile %s %s %s" % (ver, hexs(env), hexs(s))
        if c not in meta:
            meta[c] = (ver, env, s)
            cases.append(c)
    for n in range(0, maxtok + 1):
        for t in itertools.product(TOKS, repeat=n):
            add("11", ENV3, join_tight(t))
    # spaced spelling "( a )" for the shorter ones, YANG 1.0 modules
    for n in range(0, min(maxtok, 5) + 1):
        for t in itertools.product(TOKS, repeat=n):
            if b"(" in t or b")" in t:
                add("11", ENV3, b" ".join(t))
            if n <= 3:
                add("10", ENV3, join_tight(t))
                add("10", ENV3, b" " + join_tight(t))
                add("10", ENV3, join_tight(t) + b" ")
    names = [b"a", b"b", b"c", b"nota", b"orx", b"and-1", b"x.y", b"i:a", b"i:x", b"jj:b", b"m:a"]
    deep = []
    for _ in range(cx.n(3000, 60000)):
        s = gen_expr(rng, rng.randrange(1, 6), names if rng.random() < 0.7 else names + [b"zz", b"q:a", b"i:b", b"m:", b":b", b"not", b"or"])
        if rng.random() < 0.3:
            for _ in range(rng.randrange(1, 3)):
                s = mutate(rng, s)
        if b"\x00" in s: continue
        deep.append(s)
        add("11", ENVP, s)
    lines, ri, rm = model_first(cx, cases, cx.n(3, 12))

    # ---- laws on the implementation's own replies -------------------------------------------------------------------
    gram = []
    for l in lines:
        i = l.split()[0]
        c = " ".join(l.split()[2:])
        ver, env, s = meta[c]
        rep = ri.get(i)
        pred = rm.get(i, ["err", "NoReply"])
        if rep is None:
            cx.count(c, True, "iff:compile:not-sent")
            continue
        tab, nf = (tab3, n3) if env == ENV3 else (tabp, np_)
        ast = iff_parse(s)
        names_ok = ast is not None and all(x in tab for x in iff_names(ast, []))
        kind = "ok" if rep[0] == "ok" else rep[1]
        cx.count(c, True, "iff:compile:%s:%s" % ("gram" if ast is not None else "ungram", kind))
        if rep[:2] == ["err", "Crash"]:
            continue
        if ast is not None and names_ok and (ver == "11" or ast[0] == "f" and s == ast[1]):
            gram.append((ver, env, s, ast))
            if rep[0] != "ok":
                cx.fail("iff", "grammatical if-feature rejected", {"expr_hex": hexs(s), "env": env, "ver": ver, "reply": rep})
                continue
            codes = [int(ch) for ch in rep[2]]
            feats = [] if rep[3] == "-" else [int(x) for x in rep[3].split(",")]
            used = sorted(set(tab[x] for x in iff_names(ast, [])))
            for bits in itertools.product([False, True], repeat=len(used)):
                vals = {g: False for g in range(nf)}
                vals.update(dict(zip(used, bits)))
                want = iff_val(ast, {nm: vals[g] for nm, g in tab.items()})
                try:
                    got, ne, nfe = prefix_eval(codes, feats, vals)
                except Exception:
                    got, ne, nfe = None, -1, -1
                if got != want or nfe != len(feats) or any(x for x in codes[ne:]):
                    cx.fail("iff", "compiled prefix code does not denote the expression",
                            {"expr_hex": hexs(s), "env": env, "codes": rep[2], "feats": rep[3], "assignment": [int(b) for b in bits], "want": want, "got": got})
                    break
        elif ast is None and rep[0] == "ok" and all(ch in b" \t\n" or ch > 0x20 for ch in s) and b"\r" not in s:
            # ungrammatical (over RFC whitespace) but accepted
            cx.fail("iff", "ungrammatical if-feature accepted", {"expr_hex": hexs(s), "env": env, "reply": rep, "finding_class": "F74"})

    # ---- end-to-end: node exists <=> value of the expression --------------------------------------------------------
    e2e = []
    seen = set()
    for ver, env, s, ast in gram:
        if ver != "11" or b"\n" in s or b"\r" in s or (env, s) in seen:
            continue
        seen.add((env, s))
        e2e.append((env, s, ast))
    rng.shuffle(e2e)
    cap = cx.n(2500, 40000)
    small = [x for x in e2e if x[0] == ENV3][:cap]
    big = [x for x in e2e if x[0] == ENVP][:cx.n(150, 1500)]
    reqs, rmeta = [], {}
    def batches(items, env, nf, bitsets):
        B = 48
        for k in range(0, len(items), B):
            chunk = items[k:k + B]
            for bits in bitsets:
                c = "iffeval 11 %s %s %s" % (hexs(env), bits, " ".join(hexs(s) for _, s, _ in chunk))
                rmeta[c] = (env, bits, chunk)
                reqs.append(c)
    # predicted crashes inside a batch would hide the other leaves: keep them out (they are exercised white-box)
    def safe(items):
        out = []
        for env, s, ast in items:
            p = PRED.get("iff iffcompile 11 %s %s" % (hexs(env), hexs(s)))
            if p and p[0] == "ok":
                out.append((env, s, ast))
        return out
    batches(safe(small), ENV3, n3, all_bits(n3))
    prng = cx.sub_rng("iffbits")
    batches(safe(big), ENVP, np_, ["".join(prng.choice("01") for _ in range(np_)) for _ in range(cx.n(4, 16))])
    # one-leaf modules: rejected / crashing expressions end to end (a few)
    bad = [b")a(", b"not (not a)", b"a and", b"(a", b"a b", b"a ()", b"a not and b", b"zz", b"a (or b)"]
    for s in bad:
        c = "iffeval 11 %s %s %s" % (hexs(ENV3), "111", hexs(s))
        rmeta[c] = (ENV3, "111", [(ENV3, s, iff_parse(s))])
        reqs.append(c)
    elines, eri, erm = model_first(cx, reqs, 4)
    for l in elines:
        i = l.split()[0]
        c = " ".join(l.split()[2:])
        env, bits, chunk = rmeta[c]
        rep = eri.get(i)
        if rep is None or rep[:2] == ["err", "Crash"]:
            cx.count(c, True, "iff:e2e:crash-or-not-sent")
            continue
        tab, nf = (tab3, n3) if env == ENV3 else (tabp, np_)
        vals = {g: bits[g] == "1" for g in range(nf)}
        for k, (_, s, ast) in enumerate(chunk):
            cx.count(("e2e", env, bits, s), True, "iff:e2e:" + rep[0])
            if ast is None:
                if rep[0] == "ok":
                    cx.fail("iff", "ungrammatical if-feature accepted", {"expr_hex": hexs(s), "env": env, "reply": rep, "finding_class": "F74", "e2e": True})
                continue
            if not all(x in tab for x in iff_names(ast, [])):
                continue
            if rep[0] != "ok":
                cx.fail("iff", "module with a grammatical if-feature rejected", {"expr_hex": hexs(s), "env": env, "reply": rep})
                break
            want = iff_val(ast, {nm: vals[g] for nm, g in tab.items()})
            if (rep[1][k] == "1") != want:
                cx.fail("iff", "node existence differs from the value of its if-feature expression",
                        {"expr_hex": hexs(s), "env": env, "enabled": bits, "exists": rep[1][k], "want": want})


def run(cx):
    from checks import fncomp; fncomp.run_fn(cx, ['iff'])
    run_iff(cx)
    from checks import c11range, c11meta
    c11range.run_range(cx, model_first, PRED)
    c11meta.run_meta(cx)
    from checks import c11aug
    c11aug.run_aug(cx)
    from checks import c11exp
    c11exp.run_exp(cx)


def replay(cx, payload):
    run(cx)
