"""Shared plumbing of the check modules of component `valid` (c02.py, c07.py): schema registration in front of every batch,
differential runs against the model driver, decoding of replies, replay schemas."""
import os
from vlib import treegen as tg, paths
from checks import validgen as vg

COMP = "valid"
ENV = {"VERIF_YANG_DIR": os.path.join(paths.REPO, "tests", "modules", "yang")}     # ietf-netconf-with-defaults for the tagged print modes

NO_STATE, PRESENT, MULTI, OPER = 1, 2, 4, 8


def schema_line(i, s):
    return "%s %s schema %s %s" % (i, COMP, tg.hx(s.dsl()), tg.hx(s.yang().encode()))


def heads(schemas):
    return [schema_line("S%d" % i, s) for i, s in enumerate(schemas)]


def run_impl(cx, harness, schemas, lines):
    """request lines with the schema registrations in front; what a restarted harness answered with NoSchema is re-run"""
    head = heads(schemas)
    rep = cx.run_impl(harness, head + lines, component=COMP, env=ENV)
    for _ in range(3):
        lost = [l for l in lines if rep.get(l.split()[0], [None, None])[:2] == ["err", "NoSchema"]]
        if not lost:
            break
        rep.update(cx.run_impl(harness, head + lost, component=COMP, env=ENV))
    return rep


def differential(cx, harness, schemas, lines, kind, nontrivial=None):
    """same lines to harness and model; counts every line; records disagreements; returns (impl replies, model replies)"""
    if not lines:
        return {}, {}
    ri = run_impl(cx, harness, schemas, lines)
    rm = cx.run_model(heads(schemas) + lines)
    for l in heads(schemas) + lines:
        i = l.split()[0]
        a, b = ri.get(i, ["err", "NoReply"]), rm.get(i, ["err", "NoReply"])
        if l in lines or True:
            if i[0] != "S":
                cx.count(" ".join(l.split()[2:]), True if nontrivial is None else nontrivial(l, a), kind(l, a))
        if a != b and l.split()[2] == "valx" and a[:3] == ["ok", "invalid", "1"] and a[3:] == ["Other:-:-"] and "Other:-:-" not in b:
            # OPEN, not compared (same class as XP_WHEN_CONTINUE in c02.py, here reached without MULTI_ERROR / OPERATIONAL by nodes that carry
            # two whens of different origin): libyang aborts the evaluation of a must / when with an error that has no path and no
            # app-tag ("... depends on a node with a when condition, which has not been evaluated") where the model evaluates it.
            cx.dist["xpath:libyang-aborted-evaluation(error-without-path;not-compared;OPEN)"] += 1
            continue
        if a != b and a[:2] not in (["err", "Crash"], ["err", "Timeout"]):
            # keep what differs (replies of histories are long)
            da = [x for x in a if x not in b][:12] if len(a) > 40 else a
            db = [x for x in b if x not in a][:12] if len(b) > 40 else b
            cx.disagree(COMP, l[:6000], da, db)
    cx.sample(lines[cx.rng.randrange(len(lines))][:600])
    return ri, rm


def dec_err(tok):
    """<kind>:<apptag>:<pathhex> -> (kind, apptag | None, path text)"""
    k, a, p = tok.split(":")
    return k, (None if a == "-" else a), tg.unhx(p).decode("utf-8", "replace")


class ReplaySchema:
    """schema of a replay file: the texts as recorded (no python structure needed to re-run)"""

    def __init__(self, dsl, xdsl, yang):
        self._dsl, self._xdsl, self._yang = dsl.encode(), xdsl.encode(), yang
        self.name = dsl.split("\n")[0].split(" ")[1]
        self.nodes = _nodes_from_dsl(dsl)

    def dsl(self):
        return self._dsl

    def xdsl(self):
        return self._xdsl

    def yang(self):
        return self._yang


def _nodes_from_dsl(dsl):
    """enough of SNode for parse_dump/pretty"""
    out, stack = [], []
    for line in dsl.split("\n")[1:]:
        f = line.split(" ")
        d, kind, name = int(f[0]), f[1], f[2]
        n = tg.SNode(kind, name)
        if kind == "list":
            n.keys = ["k"] * int(f[3])
            n.userord = f[4] == "1"
            n.config = f[7] == "1"
        elif kind == "leaflist":
            n.userord = f[4] == "1"
            n.config = f[7] == "1"
            n.ty = tg.Ty("string")
        elif kind == "leaf":
            n.ty = tg.Ty("string")
        n.sid = len(out)
        del stack[d:]
        n.parent = stack[-1] if stack else None
        stack.append(n)
        out.append(n)
    return out


def schema_payload(s):
    return {"schema_dsl": s.dsl().decode(), "schema_xdsl": s.xdsl().decode(), "schema_yang": s.yang()}
