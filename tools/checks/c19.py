"""C19 — a context can be rebuilt from its own yang-library description; change counter; module-set hash.

(K) `ctx ylhistory`: the histories of C09 without source edits; after every call the snapshot (incl. the 32-bit modules hash and
    the change counter) is compared with the model, then ly_ctx_get_yanglib_data -> ly_ctx_new_yldata into a fresh context
    served by the same sources is compared with the model's `ylLoad (ylGen s)` token for token (module order, revisions,
    implemented, latest bits, features, compiled print classes, hash, counter).
    `ctx jenkins`: lyht_hash against the BitVec model (all 1-byte keys, random keys incl. bytes >= 0x80).
(L) on the implementation only: generated data valid for ietf-yang-library; through the printed XML document and a search
    directory (ly_ctx_new_ylmem): same implemented modules / revisions / enabled features, same compiled print of every
    implemented module, every listed module present; counter differs after every successful change; equal ordered module
    sets built by different histories have equal hashes, different ones different hashes; real modules from
    tests/modules/yang and models/."""
import itertools, os, shutil
from vlib import paths
from vlib.proto import hexs
from checks import ctxcomp as cc
from checks.ctxcomp import Mod, Feat, Sub, History, Snap

LEAN_TARGETS = ["LyModel.Props.C19"]
AUDIT = ["Audit/C19.lean", "Audit/C19Fn.lean"]
GENERATED = ["CtxFacts"]
LEAN_TARGETS += ["LyModel.Props.C19Fn"]; GENERATED += ["FnHash"]     # functions translated from the C source (tools/c2lean.py), bridged in lean/LyModel/Bridge
ASSUMPTIONS = [
    "see C09: module contents abstract, imports through the import callback, internal modules left out of the model and of the compared snapshots "
    "(whether ly_ctx_get_modules_hash covers them is read from context.c: the model then hashes name, revision and implemented of the rows of "
    "internal_modules[] in front of the other modules; none of its histories implements an internal module — that is checked on real modules only)",
    "yl_roundtrip is OPEN as a theorem (Props/C19.lean): the claim rests on `ylLoad` = ly_ctx_new_yldata by correspondence and on the law "
    "evaluated on the implementation",
    "`char` is signed on the build host (the hash adds sign-extended bytes); mirrored in the model, checked by the jenkins cases",
]
TRUSTED = ["tools/checks/ctxcomp.py: YANG renderer and descriptor"]
HARNESS = "api_yl"
REAL_SETS = [["ietf-interfaces", "ietf-ip", "iana-if-type"], ["ietf-netconf-acm", "ietf-netconf"], ["ietf-origin", "ietf-netconf-with-defaults"],
             ["ietf-ip"], ["ietf-restconf", "ietf-netconf-nmda"], ["ietf-netconf", "ietf-netconf-acm", "ietf-interfaces"],
             ["ietf-netconf-nmda", "ietf-ip", "ietf-netconf-acm"], ["notifications", "ietf-netconf"], ["ietf-yang-types", "ietf-inet-types"]]


PRED = {}          # request line -> model reply tokens (for classify() of harness crashes)


def classify(component, what, case):
    k = case.get("kind")
    if case.get("crash"):
        pred = PRED.get(case.get("line"))
        err = case.get("stderr", "")
        if pred and "heap-use-after-free" in err and "collect_foreign" in err and any(cc.stale_compiled(t) for t in pred):
            return "F380"
        return None
    if k == "hash-collision" and case.get("features_of_later_module_only") and case.get("model_agrees"):
        return "F23"
    if k == "counter-unchanged" and case.get("pending_batch") and case.get("model_agrees"):
        return "F133"
    if k == "yl-differs" and case.get("undated_with_other_revision") and case.get("model_agrees"):
        return "F135"
    if k == "yl-differs" and case.get("two_revisions_in_context") and case.get("model_agrees") and case.get("z", "").startswith("Zv1r1m1"):
        return "F135"      # second form: implemented modules reproduced, a dateless import re-resolved to another revision
    if k == "hash-collision" and case.get("internal_only"):
        return "F136"
    if k == "hash-differs" and case.get("model_agrees"):
        return "F23"      # which features are visited depends on their position (main module / i-th submodule), not only on their names
    if k == "yl-differs" and case.get("implemented_not_compiled") and case.get("model_agrees"):
        return "F137"
    return None


def obs_key(s):
    """ordered module set as the hash should see it"""
    return tuple((m["key"], m["impl"], m["feats"]) for m in s.mods)


def pending_batch(h, idx, si):
    from checks.c09 import pending_at
    return pending_at(h, idx, si)


def run_hist(cx, hs, tag, hashes):
    base = os.path.join(paths.BUILD, "yltmp-%s-%d-%d" % (cx.prop, cx.seed, os.getpid()))
    for i, h in enumerate(hs):
        h.write_files(os.path.join(base, "%s%d" % (tag, i)))
    lines = [h.yl_line("%s%d" % (tag, i)) for i, h in enumerate(hs)]
    rm = cx.run_model(lines)
    for l in lines:
        r = rm.get(l.split()[0], ["err", "NoReply"])
        PRED[l] = r[1:] if r[0] == "ok" else []
    ri = cx.run_impl(HARNESS, lines, component="ctx")
    for h, l in zip(hs, lines):
        i = l.split()[0]
        a, b = ri.get(i, ["err", "NoReply"]), rm.get(i, ["err", "NoReply"])
        if a[:2] in (["err", "Crash"], ["err", "Timeout"]):
            continue
        if a[0] != "ok" or b[0] != "ok":
            cx.disagree("ctx", l[:160], a[:3], b[:3]); continue
        z = a[-1]
        impl = a[1:-1]
        def cf(t):
            return cc.strip_fnv(t) if not t.startswith("Y") else (t if "|" not in t else "Y" + cc.strip_fnv("0" + t[1:])[1:])
        model = [cf(cc.strip_x(t)) for t in b[1:]]
        canon = [cf(t) for t in impl]
        agrees = canon == model
        for (call, t) in zip(h.calls(), impl):
            cx.count(("yl", call[0], t), True, "ctx:%s" % call[0])
        cx.count(("ylY", impl[-1] if impl else ""), True, "yl:new_yldata:" + ("ok" if impl and "|" in impl[-1] else "refused"))
        for k in h.meta.get("kinds", []):
            cx.dist["history:" + k.split(":")[0]] += 1
        if not agrees:
            j = next((n for n, (x, y) in enumerate(zip(canon, model)) if x != y), min(len(canon), len(model)))
            cx.disagree("ctx", {"history": h.describe(), "token": j}, canon[j] if j < len(canon) else None, model[j] if j < len(model) else None)
        # ---- laws -----------------------------------------------------------------------------------------
        si = [Snap(t) for t in impl[:len(h.calls())]]
        case0 = {"line": l[:100] + "...", "history": h.describe(), "model_agrees": agrees}
        prev = None
        for j, (call, s) in enumerate(zip(h.calls(), si)):
            if s.kind == "D":
                continue
            before = prev
            prev = s
            # hash: a function of the ordered module set ...
            k = obs_key(s)
            if k in hashes and hashes[k][0] != s.hash:
                cx.fail("ctx", "equal ordered module sets, different hashes", dict(case0, kind="hash-differs", set=k, hashes=[hashes[k][0], s.hash]))
            hashes.setdefault(k, (s.hash, h.describe()))
            if before is None:
                continue
            changed = obs_key(before) != obs_key(s)
            if s.rc == 0 and changed:
                cx.count(None, False, "law:successful-change")
                # ... the counter has a different value after every successful change
                if s.cc == before.cc:
                    cx.fail("ctx", "change counter unchanged after a successful change of modules / features / implemented",
                            dict(case0, kind="counter-unchanged", call=j, step=[call[0]] + call[1], before=before.raw, after=s.raw,
                                 pending_batch=pending_batch(h, j + 1, si)))
                # ... and depends on name, revision, feature state, implemented state of every module
                if s.hash == before.hash:
                    same_but_feats = [(m["key"], m["impl"]) for m in s.mods] == [(m["key"], m["impl"]) for m in before.mods]
                    fd = [n for n, (m, p) in enumerate(zip(s.mods, before.mods)) if m["feats"] != p["feats"]] if same_but_feats else []
                    cx.fail("ctx", "module set changed, hash did not", dict(case0, kind="hash-collision", call=j, step=[call[0]] + call[1],
                            before=before.raw, after=s.raw, features_of_later_module_only=bool(fd) and min(fd) >= 1))
        # the rebuilt context
        if len(z) < 2 or not z.startswith("Zv"):
            cx.fail("ctx", "ly_ctx_get_yanglib_data failed", dict(case0, kind="yl-gen", z=z)); continue
        bits = {z[n]: z[n + 1] for n in range(1, len(z) - 1, 2)}
        cx.count(None, False, "law:yl:" + z)
        fin = next((s for s in reversed(si) if s.kind == "S"), None)
        tworev = bool(fin) and len({m["key"].split("@")[0] for m in fin.mods}) < len(fin.mods)
        undated = False
        unc = bool(fin) and any(m["impl"] and m["fnv"] == "-" for m in fin.mods) and not pending_batch(h, len(h.calls()), si)
        if fin:
            repo = h.final_repo()
            for m in fin.mods:
                name, rev = m["key"].split("@")
                if m["impl"] and rev == "-" and any(x.name == name and x.rev for x in repo.values()):
                    undated = True
        if bits.get("v") != "1":
            cx.fail("ctx", "generated yang-library data is not valid", dict(case0, kind="yl-invalid", z=z))
        if pending_batch(h, len(h.calls()), si):
            bits["c"] = "1"          # calls not yet committed by ly_ctx_compile(): the compiled modules are not up to date, nothing to compare
        if not (bits.get("r") == "1" and bits.get("m") == "1" and bits.get("c") == "1" and bits.get("i") == "1"):
            cx.fail("ctx", "the context rebuilt from the yang-library data differs (Z: created / same implemented+features / same compiled / all listed present)",
                    dict(case0, kind="yl-differs", z=z, undated_with_other_revision=undated, implemented_not_compiled=unc, two_revisions_in_context=tworev))
        elif impl and "|" in impl[-1] and fin:
            # the same through ly_ctx_new_yldata (Y): implemented modules with features, as sets
            y = Snap("0" + impl[-1][1:])
            v1 = sorted((m["key"], m["feats"]) for m in fin.mods if m["impl"])
            v2 = sorted((m["key"], m["feats"]) for m in y.mods if m["impl"])
            if v1 != v2:
                cx.fail("ctx", "ly_ctx_new_yldata: implemented modules / features differ",
                        dict(case0, kind="yl-differs", y=impl[-1], undated_with_other_revision=undated, implemented_not_compiled=unc))
    shutil.rmtree(base, ignore_errors=True)


def real_modules(cx):
    d = os.path.join(paths.BUILD, "ylreal-%s-%d-%d" % (cx.prop, cx.seed, os.getpid()))
    shutil.rmtree(d, ignore_errors=True)
    os.makedirs(d)
    for src in (os.path.join(paths.REPO, "tests", "modules", "yang"), os.path.join(paths.REPO, "models")):
        for f in os.listdir(src):
            if f.endswith(".yang"):
                shutil.copy(os.path.join(src, f), os.path.join(d, f))
    lines, meta = [], []
    sets = list(REAL_SETS)
    if cx.tier == "thorough":
        names = sorted({n for s in REAL_SETS for n in s})
        sets += [list(c) for c in itertools.permutations(names[:7], 3)][:150]
    for si, s in enumerate(sets):
        for fm in (0, 1, 2):
            lines.append("R%d_%d ctx ylreal %s %s %d" % (si, fm, hexs(d), hexs(",".join(s)), fm))
            meta.append((s, fm))
    ri = cx.run_impl(HARNESS, lines, component="ctx")
    for l, (s, fm) in zip(lines, meta):
        r = ri.get(l.split()[0], ["err", "NoReply"])
        cx.count(("real", tuple(s), fm), True, "yl:real:" + (r[-1] if r[0] == "ok" else r[1]))
        if r[0] != "ok":
            if r[:2] != ["err", "Crash"]:
                cx.fail("ctx", "real module set could not be processed", {"kind": "real", "set": s, "featmode": fm, "reply": r})
            continue
        cbits, hbits, z = r[1][1:], r[2][1:], r[3]
        case = {"kind": "real", "set": s, "featmode": fm, "reply": r}
        if "x" in cbits:
            cx.fail("ctx", "real module failed to load", case); continue
        if "0" in cbits:
            cx.fail("ctx", "change counter unchanged after loading a module", dict(case, kind="counter-unchanged", pending_batch=False, model_agrees=False))
        if "0" in hbits:
            internal = {"ietf-yang-metadata", "yang", "ietf-inet-types", "ietf-yang-types", "ietf-yang-schema-mount", "ietf-yang-structure-ext",
                        "ietf-datastores", "ietf-yang-library"}
            cx.fail("ctx", "modules hash unchanged after loading (implementing) a module",
                    dict(case, kind="hash-collision", model_agrees=False, internal_only=all(n in internal for n, b in zip(s, hbits) if b == "0")))
        if not z.startswith("Zv1r1m1c1i1"):
            cx.fail("ctx", "context rebuilt from yang-library data of real modules differs", dict(case, kind="yl-differs", undated_with_other_revision=False, model_agrees=False))
    shutil.rmtree(d, ignore_errors=True)


def jenkins(cx):
    rng = cx.sub_rng("jenkins")
    keys = [b""] + [bytes([b]) for b in range(256)]
    for _ in range(cx.n(1500, 40000)):
        n = rng.choice([1, 2, 3, 4, 8, 16, 31, 64])
        keys.append(bytes(rng.randrange(256) if rng.random() < 0.5 else rng.randrange(32, 127) for _ in range(n)))
    keys = [k for k in dict.fromkeys(keys) if b"\x00" not in k or len(k) >= 1]
    lines = ["j%d ctx jenkins %s" % (i, hexs(k)) for i, k in enumerate(keys)]
    cx.differential("ctx", lines, HARNESS, kind=lambda l, r: "jenkins:" + r[0])
    # the law behind hash_depends_on_implemented, on the implementation: flipping one byte changes the value
    ri = cx.run_impl(HARNESS, lines, component="ctx")
    by = {k: ri.get("j%d" % i, ["err"])[-1] for i, k in enumerate(keys)}
    pairs = []
    for k in keys[257:257 + cx.n(300, 3000)]:
        if not k: continue
        p = rng.randrange(len(k))
        k2 = k[:p] + bytes([k[p] ^ (1 << rng.randrange(8))]) + k[p + 1:]
        pairs.append((k, k2))
    l2 = ["k%d ctx jenkins %s" % (i, hexs(k2)) for i, (k, k2) in enumerate(pairs)]
    r2 = cx.run_impl(HARNESS, l2, component="ctx")
    for i, (k, k2) in enumerate(pairs):
        cx.count(None, False, "law:one-byte-change")
        if r2.get("k%d" % i, ["err"])[-1] == by[k]:
            cx.fail("ctx", "one changed byte, same lyht_hash", {"kind": "jenkins", "a": k.hex(), "b": k2.hex()})


def run(cx):
    from checks import fncomp; fncomp.run_fn(cx, ['hash'])
    cx.rule("ctx (C19): one case = (API call, snapshot incl. 32-bit hash and counter) or (history, context rebuilt from its yang-library data); "
            "histories over unchanged sources: witnesses, all feature assignments of a 3-module set in every load order, random module sets "
            "(alternative revisions in the sources included); jenkins: all 1-byte keys + random keys; real modules: %d sets x 3 feature modes" % len(REAL_SETS))
    hashes = {}
    ws = cc.witnesses()
    hs = []
    for name in ("F23", "F133", "F135", "F132", "F137", "order"):
        h = ws[name][1]
        if name == "F137":
            h = h.without_call(1)       # the state right after the successful call that leaves `maa` implemented and not compiled
        h.meta = {"kinds": ["witness:" + name]}; hs.append(h)
    run_hist(cx, hs, "w", hashes)
    # every feature assignment x load order of a small set: equal sets from different histories -> equal hashes
    a = Mod("maa", None, feats=[Feat("f1"), Feat("f2", "f1")])
    b = Mod("mbb", "2020-02-02", imports=[("maa", None)], augments=["maa"], feats=[Feat("g1")], subs=[Sub("mbbsub", [Feat("s1")])])
    c = Mod("mcc", None, feats=[Feat("h1")], subs=[Sub("mccsub", [Feat("t1")]), Sub("mccsub2", [Feat("t2")])])
    fa = {"maa": [None, ["f1"], ["f1", "f2"]], "mbb": [None, ["g1"], ["s1"], ["g1", "s1"]], "mcc": [None, ["h1", "t2"], ["t1"]]}
    grid = []
    for order in itertools.permutations([a, b, c]):
        for fs in itertools.product(*[fa[m.name] for m in order]):
            for late in (0, 1):
                if cx.tier != "thorough" and (len(grid) % 4) != (cx.seed % 4) and late:
                    continue
                h = History()
                for m in (a, b, c): h.add(m)
                for m, f in zip(order, fs):
                    if late:
                        h.parse(m, None)
                    else:
                        h.parse(m, f)
                if late:
                    for m, f in zip(order, fs):
                        h.impl(m.name, m.rev, f if f is not None else [])
                h.meta = {"kinds": ["grid"]}
                grid.append(h)
    run_hist(cx, grid, "g", hashes)
    rng = cx.sub_rng("yl")
    run_hist(cx, [cc.gen_yl_history(rng) for _ in range(cx.n(700, 15000))], "r", hashes)
    rng = cx.sub_rng("yldev")
    run_hist(cx, [cc.gen_yl_dev_history(rng) for _ in range(cx.n(250, 6000))], "d", hashes)
    jenkins(cx)
    real_modules(cx)
    cx.sample(hs[0].spec()[:300])
