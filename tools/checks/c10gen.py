"""Module generator for C10: valid YANG 1.1 modules that use every statement kind the schema printers handle, with
argument strings drawn from a pool (quotes, backslashes, tabs, multi-line text, comment starters inside strings,
`+` concatenations, long lines, multi-byte characters) and spelled in the source in random ways.

A module is generated for one *class*:
  safe   - only strings and constructs for which the printers are expected to be faithful: every law must hold;
  <Fnn>  - safe plus one kind of construct that the listed finding Fnn is about (so that a second, unknown defect is
           not hidden behind a known one).
Every random choice comes from the rng passed in."""
from checks.yangstrcomp import source_arg, dq_source

SAFE_TEXT = [b"a", b"a b", b"it's", b"say \"hi\"", b"back\\slash", b"tab\there", b"a\nb", b"a\n\nb", b"a;b", b"a{b}c", b"// not comment", b"/* c */",
             b"x+y", b"both ' and \"", b"\xc3\xbc\xe2\x82\xac", b"a\\nb", b"$", b"long " * 30, b"a\n\tb", b"end\n", b"\nstart", b"'q'", b"q\"", b"",
             b"'", b"''", b"a\n\n\nb", b"\\", b"\\\\n", b"a + b", b"\" + \"", b"\xf0\x90\x80\x80", b"*/ /*", b"x //", b"{", b"}", b";", b"a\n\n", b"\n",
             b"line one\nline two\nline three", b"\ttab first", b"tab last\t", b"  two leading blanks", b"trailing blanks  ", b"a\n\\", b"<&>", b"]]>"]
RISK_TEXT = {
    "F5": [b"trail \nnext", b"a \n\nb", b" \n", b"x  \n  ", b"para one. \npara two."],
    "F35": [b"a\n  indented", b"a\n b", b"first\n    second\n  third"],
    "F82": [b"a\rb", b"a\r\nb", b"\r"],
    "F83": [b"a\nb", b"a\n\nb", b"end\n", b"\nstart"],      # spelled single-quoted where the quoting style is kept
}
XPATHS = [b"../l = 'x y'", b". != \"a\"", b"../l\n= 'a'", b"count(../ll) > 0 or ../l = \"it's\"", b"/g:c/g:l = 'a\"b'", b"../l = 'tab\there'",
          b"contains(., '//') and not(contains(., '/*'))", b"string-length(.) +  1 > 0", b"../l", b"true()"]
WHEN_XPATHS = [b"../l = 'x y'", b"../l\n= 'a'", b"count(../ll) > 0 or ../l = \"it's\"", b"/g:c/g:l = 'a\"b'", b"../l = 'tab\there'", b"../l", b"true()"]
XPATHS_F35 = [b"../l\n   = 'a'", b"../l = 'x' or\n  ../l = 'y'"]
PATTERNS = [b"[a-z]*", b"\\d+", b"a b", b"[\"']", b"\\\\", b"a|b", b"x{1,3}", b".*\\.txt", b"[^/]+//.*", b"/\\*.*\\*/", b"\\p{L}+", b"[\\s]*"]
ENUMS = [b"e one", b"two", b"it's", b"a\"b", b"a;b", b"x+y", b"//c", b"\xc3\xbc", b"a\\b", b"{", b"e.f-g_h"]
IFFS = [b"f1", b"f1 or f2", b"not f2 or f1", b"(f1 and f2)", b"f1 and f1"]
PLAIN_ARGS = [b"a", b"x+y", b"$", b"a:b", b"1..10", b"a/b", b"\xc3\xbc"]       # arguments that need no quoting
CLASSES = ["safe", "F5", "F35", "F82", "F83", "F20", "F36", "F84", "F86", "F87", "F88", "F89", "F90", "F91", "F92", "F93"]


class Gen:
    def __init__(self, rng, name, cls, with_dep=False, with_sub=False):
        self.rng, self.name, self.cls, self.with_dep, self.with_sub = rng, name, cls, with_dep, with_sub
        self.risk_used = False
        self.cnt = 0
        self.owners = [{"site": None}]

    def nm(self, pfx=b"n"):
        self.cnt += 1
        return pfx + b"%d" % self.cnt

    # The extension instances of a statement and of its simple substatements (units, default, config, status, ...) are kept in
    # one array of the statement that owns them; `own` opens the scope of such an owner.  The compiled printer is faithful
    # only if all instances of one owner sit at one site (F89), so outside class F89 an owner gets at most one site.
    def own(self, fn):
        self.owners.append({"site": None})
        try:
            return fn()
        finally:
            self.owners.pop()

    def maybe(self, p, fn):
        return [fn()] if self.rng.random() < p else []

    # ---- argument strings -----------------------------------------------------------------
    def text(self, nonempty=False, block=False):
        """free text; `block`: the statement is printed in block style (description, reference, ...), where leading
        blanks of continuation lines survive"""
        rng = self.rng
        if self.cls in ("F5", "F82") and rng.random() < 0.25:
            self.risk_used = True
            return rng.choice(RISK_TEXT[self.cls])
        if self.cls == "F35" and not block and rng.random() < 0.5:
            self.risk_used = True
            return rng.choice(RISK_TEXT["F35"])
        while True:
            s = rng.choice(SAFE_TEXT)
            if nonempty and not s:
                continue
            return s

    def spell(self, s, keeps_quote=False, free=True):
        """source spelling of argument s; `keeps_quote`: the printer reproduces single quotes for this statement;
        `free`: any text is valid here"""
        rng = self.rng
        if b"\r" in s:
            # CR can only be written inside single quotes
            return b" + \"'\" + ".join(b"'" + p + b"'" for p in s.split(b"'"))
        if self.cls == "F83" and keeps_quote and free and rng.random() < 0.5:
            self.risk_used = True
            return b"'" + rng.choice(RISK_TEXT["F83"]) + b"'"
        if b"\n" in s:
            # multi-line text is never single-quoted in the source (where the quoting style is kept that is F83)
            if rng.random() < 0.5:
                return dq_source(rng, s, 4)
            return b"\"" + s.replace(b"\\", b"\\\\").replace(b"\"", b"\\\"").replace(b"\n", b"\\n").replace(b"\t", b"\\t") + b"\""
        return source_arg(rng, s, 4)

    def T(self, kw, nonempty=False, block=False, keeps_quote=False, p_ext=0.12, yin=False):
        """simple substatement with a free-text argument (and extension instances at the site `kw` of the current owner)"""
        return (kw, self.spell(self.text(nonempty, block), keeps_quote=keeps_quote), self.exts(p_ext, site=kw, yin=yin))

    def S(self, kw, arg, p_ext=0.1):
        return (kw, arg, self.exts(p_ext, site=kw))

    def xpath(self, pool=XPATHS):
        if self.cls == "F35" and self.rng.random() < 0.5:
            self.risk_used = True
            return self.rng.choice(XPATHS_F35)
        return self.rng.choice(pool)

    # ---- extension instances --------------------------------------------------------------
    def exts(self, p=0.2, site="self", yin=False, nested=False):
        """extension instances (e0 no argument, e1 attribute argument, e2 yin-element argument) at `site` of the current owner;
        `yin`: the site is a statement whose argument is a YIN element (description, reference, ...; F88)"""
        rng, own = self.rng, self.owners[-1]
        if yin and self.cls != "F88":
            return []
        if own["site"] not in (None, site) and self.cls != "F89":
            return []
        if rng.random() >= p:
            return []
        if yin or own["site"] not in (None, site):
            self.risk_used = True
        own["site"] = site
        out = []
        for _ in range(rng.choice([1, 1, 1, 2, 3])):
            r = rng.random()
            if r < 0.2:
                out.append((b"g:e0", None, []))
                continue
            kids = []
            if rng.random() < 0.4:
                # substatements of an extension instance are stored and printed as generic statements
                def sub_arg():
                    # statements of an extension instance that come back from YIN have lost their quoting (F93)
                    if self.cls == "F93":
                        self.risk_used = True
                        return self.spell(self.text(True), keeps_quote=True)
                    if rng.random() < 0.15:
                        return b'""'          # the empty argument: an attribute with the empty value in YIN, not a missing attribute
                    return self.spell(rng.choice(PLAIN_ARGS))
                pool = [lambda: (b"type", b"string", []), lambda: (b"units", sub_arg(), []),
                        lambda: (b"default", sub_arg(), []), lambda: (b"status", b"current", []),
                        lambda: (b"if-feature", b"f1", []), lambda: (b"config", b"false", []),
                        lambda: (b"leaf", b"x", [(b"type", b"int8", [(b"range", b"\"1..2\"", [])])])]
                for _ in range(rng.randrange(1, 3)):
                    kids.append(rng.choice(pool)())
                if self.cls == "F20" and rng.random() < 0.7:
                    self.risk_used = True
                    kids.append((rng.choice([b"description", b"reference", b"contact", b"error-message"]), self.spell(self.text(True)), []))
                if self.cls == "F86" and not nested and rng.random() < 0.7:
                    self.risk_used = True
                    kids.append((b"g:e1", self.spell(self.text()), []))
            if r < 0.6:
                out.append((b"g:e1", self.spell(self.text()), kids))
            else:
                t = self.text(nonempty=True)
                while not t.strip():
                    t = self.text(nonempty=True)
                if self.cls == "F36" and rng.random() < 0.6:
                    # a yin-element argument that is empty or only XML white space
                    self.risk_used = True
                    t = rng.choice([b"", b"\n", b" "])
                out.append((b"g:e2", self.spell(t), kids))
        return out

    # ---- common substatements -------------------------------------------------------------
    def descr(self, p=0.5):
        out = []
        if self.rng.random() < p:
            out.append(self.T(b"description", block=True, yin=True))
        if self.rng.random() < p / 2:
            out.append(self.T(b"reference", block=True, yin=True))
        return out

    def status(self, any_status=False):
        """data nodes only `current` (a child must not be more current than its parent, a current definition must not
        reference a deprecated one); unreferenced definitions any status"""
        return self.maybe(0.2, lambda: self.S(b"status", self.rng.choice([b"current", b"deprecated", b"obsolete"]) if any_status else b"current"))

    def iffeature(self, p=0.3):
        def mk():
            kids = []
            if self.cls == "F87" and self.rng.random() < 0.7 and self.owners[-1]["site"] in (None, b"if-feature"):
                self.risk_used = True
                self.owners[-1]["site"] = b"if-feature"
                kids = [(b"g:e1", self.spell(self.text()), [])]
            if self.cls == "F83" and self.rng.random() < 0.4:
                self.risk_used = True
                return (b"if-feature", b"'f1 or\nf2'", kids)
            if self.cls == "F35" and self.rng.random() < 0.4:
                self.risk_used = True
                return (b"if-feature", b"\"f1 or\n          f2\"", kids)
            return (b"if-feature", self.spell(self.rng.choice(IFFS), keeps_quote=True, free=False), kids)
        return self.maybe(p, mk)

    def restr_kids(self):
        """substatements of a restriction / must: error-message, error-app-tag, description, reference"""
        out = []
        out += self.maybe(0.4, lambda: self.T(b"error-message", block=True, yin=True))
        out += self.maybe(0.4, lambda: self.T(b"error-app-tag"))
        out += self.descr(0.4)
        out += self.exts(0.15)
        return out

    def restr(self, kw, arg, modifier=False):
        def mk():
            k = self.restr_kids()
            if modifier:
                k.insert(0, (b"modifier", b"invert-match", []))
            return (kw, arg, k)
        return self.own(mk)

    def string_type(self):
        def mk():
            kids = []
            if self.rng.random() < 0.5:
                kids.append(self.restr(b"length", self.rng.choice([b"\"1..100\"", b"\"0..10 | 20..max\"", b"min..5"])))
            for _ in range(self.rng.randrange(0, 3)):
                p = self.rng.choice(PATTERNS)
                sp = (b"'" + p + b"'") if (b"'" not in p and self.rng.random() < 0.6) else dq_source(self.rng, p, 8)
                if self.cls == "F83" and self.rng.random() < 0.5:
                    self.risk_used = True
                    sp = b"'a\nb'"
                kids.append(self.restr(b"pattern", sp, modifier=self.rng.random() < 0.3))
            return (b"type", b"string", kids + self.exts(0.1))
        return self.own(mk)

    def some_type(self):
        rng = self.rng

        def mk():
            r = rng.randrange(11) if not (self.cls == "F91" and rng.random() < 0.5) else 2
            if r == 0:
                return (b"type", rng.choice([b"int8", b"int16", b"int32", b"int64", b"uint8", b"uint16", b"uint32", b"uint64"]),
                        self.maybe(0.6, lambda: self.restr(b"range", rng.choice([b"\"1..10 | 20..30\"", b"\"min..5\"", b"1..max", b"\"1 .. 10\""]))))
            if r == 1:
                ens, names = [], rng.sample(ENUMS, rng.randrange(1, 5))
                for i, n in enumerate(names):
                    ens.append(self.own(lambda: (b"enum", self.spell(n, free=False),
                                                 self.maybe(0.3, lambda: self.S(b"value", str(i * 3 - 2).encode())) + self.descr(0.3) + self.status() +
                                                 self.iffeature(0.15) + self.exts(0.1))))
                return (b"type", b"enumeration", ens)
            if r == 2:
                def bit_exts():
                    # extension instances directly under `bit` are not printed (F91)
                    if self.cls != "F91":
                        return []
                    e = self.exts(0.7)
                    if e:
                        self.risk_used = True
                    return e
                return (b"type", b"bits", [self.own(lambda: (b"bit", b"b%d" % i, self.maybe(0.4, lambda: self.S(b"position", str(i * 2).encode())) +
                                                             self.descr(0.3) + bit_exts())) for i in range(rng.randrange(1, 4))])
            if r == 3:
                return (b"type", b"decimal64", [self.S(b"fraction-digits", b"2")] + self.maybe(0.5, lambda: self.restr(b"range", b"\"1.5..10 | 20.25\"")))
            if r == 4:
                return (b"type", b"union", [(b"type", b"int8", []), self.string_type()])
            if r == 5:
                return (b"type", b"leafref", [self.S(b"path", rng.choice([b"\"/g:c/g:l\"", b"'/g:c/g:l'"]))] +
                        self.maybe(0.4, lambda: self.S(b"require-instance", b"false")))
            if r == 6:
                return (b"type", b"identityref", [self.S(b"base", b"i1")])
            if r == 7:
                return (b"type", b"instance-identifier", self.maybe(0.5, lambda: self.S(b"require-instance", b"false")))
            if r == 8:
                return (b"type", rng.choice([b"boolean", b"empty", b"binary"]), [])
            if r == 9:
                return (b"type", rng.choice([b"t1", b"t2", b"t3"]), [])
            return (b"type", b"string", self.exts(0.2))
        if rng.random() < 0.1:
            return self.string_type()
        return self.own(mk)

    def must(self):
        return self.own(lambda: (b"must", dq_source(self.rng, self.xpath(), 6), self.restr_kids()))

    def when(self):
        return self.own(lambda: (b"when", dq_source(self.rng, self.xpath(WHEN_XPATHS), 6), self.descr(0.3) + self.exts(0.1)))

    def common(self, config=None, when=True):
        """config: None = no config statement, True = the parent is config true (either value is valid),
        False = the parent is config false (only `config false`)"""
        out = []
        if when:
            out += self.maybe(0.2, self.when)
        out += self.iffeature(0.2)
        if config is not None:
            out += self.maybe(0.25, lambda: self.S(b"config", (self.rng.choice([b"true", b"false"]) if config else b"false")))
        out += self.status() + self.descr() + self.exts(0.2)
        return out

    # ---- data nodes -----------------------------------------------------------------------
    def leaf(self, name, cfg=None, key=False):
        def mk():
            kids = [self.string_type() if key else self.some_type()]
            plain = kids[0][1] == b"string" and not kids[0][2]
            if not key:
                kids += self.maybe(0.3, lambda: self.T(b"units", nonempty=True))
                kids += self.maybe(0.3, self.must)
                if plain and self.rng.random() < 0.5:
                    kids.append(self.T(b"default", keeps_quote=True))
                else:
                    kids += self.maybe(0.15, lambda: self.S(b"mandatory", b"true"))
                kids += self.common(cfg)
            return (b"leaf", name, kids)
        return self.own(mk)

    def leaflist(self, name, cfg=None):
        def mk():
            kids = [(b"type", b"string", [])]
            kids += self.maybe(0.3, lambda: self.T(b"units", nonempty=True))
            seen = set()
            for _ in range(self.rng.randrange(0, 3) if self.cls != "F92" else 3):
                t = self.text()
                if t in seen:
                    continue
                e = []
                if not seen:
                    e = self.exts(0.05, site=b"default")
                elif self.cls == "F92":
                    # the YIN parser files extension instances of the n-th default under the first one
                    e = self.exts(0.8, site=b"default")
                    if e:
                        self.risk_used = True
                seen.add(t)
                kids.append((b"default", self.spell(t, keeps_quote=True, free=False), e))
            kids += self.maybe(0.3, lambda: self.S(b"max-elements", self.rng.choice([b"5", b"unbounded"])))
            kids += self.maybe(0.3, lambda: self.S(b"ordered-by", self.rng.choice([b"user", b"system"])))
            return (b"leaf-list", name, kids + self.common(cfg))
        return self.own(mk)

    def container(self, nm, depth, cfg):
        rng = self.rng

        def mk():
            down = cfg
            kids = self.maybe(0.3, lambda: self.T(b"presence", nonempty=True)) + self.maybe(0.3, self.must) + self.common()
            if cfg and rng.random() < 0.2:
                kids.append(self.S(b"config", b"false"))
                down = False
            kids += self.inner(depth + 1, down)
            if rng.random() < 0.2:
                kids.append(self.own(lambda: (b"action", self.nm(b"act"), self.descr(0.3) + self.exts(0.1) + [
                    self.own(lambda: (b"input", None, [self.leaf(b"x")] + self.maybe(0.3, self.must) + self.exts(0.1))),
                    self.own(lambda: (b"output", None, [self.leaf(b"y")]))])))
            if rng.random() < 0.2:
                kids.append(self.own(lambda: (b"notification", self.nm(b"nn"), self.descr(0.3) + [self.leaf(b"z")])))
            return (b"container", nm, kids)
        return self.own(mk)

    def lst(self, nm, depth, cfg):
        rng = self.rng

        def mk():
            kids = [self.S(b"key", rng.choice([b"k1", b"\"k1 k2\"", b"'k1  k2'"]))]
            kids += self.maybe(0.4, lambda: (b"unique", self.spell(rng.choice([b"u1", b"u1 u2"]), keeps_quote=True, free=False), self.exts(0.1, site=b"unique")))
            kids += self.maybe(0.3, lambda: self.S(b"min-elements", b"1"))
            kids += self.maybe(0.3, lambda: self.S(b"max-elements", b"10"))
            kids += self.maybe(0.3, lambda: self.S(b"ordered-by", b"user"))
            kids += self.common()
            kids += [self.leaf(b"k1", key=True), self.leaf(b"k2", key=True), (b"leaf", b"u1", [(b"type", b"string", [])]),
                     (b"leaf", b"u2", [(b"type", b"int8", [])])]
            kids += self.inner(depth + 1, cfg)
            return (b"list", nm, kids)
        return self.own(mk)

    def choice(self, nm, depth, cfg):
        def mk():
            dflt = self.rng.random() < (0.9 if self.cls == "F90" else 0.4)
            kids = ([self.S(b"default", b"ca")] if dflt else []) + self.common()
            ca_extra = []
            if self.cls == "F90" and dflt:
                self.risk_used = True
                ca_extra = [(b"if-feature", b"\"not f1\"", [])]
            kids.append(self.own(lambda: (b"case", b"ca", ca_extra + self.status() + self.descr() + self.exts(0.2) +
                                          [(b"leaf", self.nm(b"ca"), [(b"type", b"string", [])])])))
            kids.append(self.own(lambda: (b"case", b"cb", [(b"leaf", self.nm(b"cb"), [(b"type", b"string", [])])] +
                                          self.inner(depth + 2, cfg, allow_uses=False)[:1])))
            kids.append((b"leaf", self.nm(b"sh"), [(b"type", b"empty", [])]))
            return (b"choice", nm, kids)
        return self.own(mk)

    def uses(self):
        def mk():
            uk = self.common()
            uk += self.maybe(0.5, lambda: self.own(lambda: (b"refine", b"gl", self.maybe(0.5, lambda: self.T(b"default", keeps_quote=True)) + self.descr(0.5) +
                                                            self.maybe(0.3, self.must) + self.exts(0.1))))
            # every refine substatement is optional on its own, so that each of them is the first one printed in some module
            uk += self.maybe(0.5, lambda: self.own(lambda: (b"refine", b"gll", self.iffeature(0.15) + self.maybe(0.2, self.must) +
                                                            self.maybe(0.3, lambda: self.S(b"min-elements", self.rng.choice([b"1", b"0"]))) +
                                                            self.maybe(0.5, lambda: self.S(b"max-elements", self.rng.choice([b"3", b"unbounded", b"unbounded"]))) +
                                                            self.descr(0.3) + self.exts(0.05))))
            uk += self.maybe(0.3, lambda: self.own(lambda: (b"refine", b"gc", self.maybe(0.5, lambda: self.T(b"presence", nonempty=True)) + self.descr(0.3))))
            uk += self.maybe(0.4, lambda: self.own(lambda: (b"augment", b"gc", self.descr(0.3) + [(b"leaf", self.nm(b"ua"), [(b"type", b"string", [])])])))
            return (b"uses", b"gr", uk)
        return self.own(mk)

    def inner(self, depth, cfg=True, allow_uses=True):
        """child nodes of a container/list/case; `cfg`: None = config statements not allowed here (rpc, notification),
        True/False = the effective config of the parent"""
        rng, out = self.rng, []
        for i in range(rng.randrange(1, 5)):
            r = rng.random()
            nm = self.nm()
            if r < 0.35:
                out.append(self.leaf(nm, cfg))
            elif r < 0.45:
                out.append(self.leaflist(nm, cfg))
            elif r < 0.6 and depth < 3:
                out.append(self.container(nm, depth, cfg))
            elif r < 0.72 and depth < 3:
                out.append(self.lst(nm, depth, cfg))
            elif r < 0.82 and depth < 3:
                out.append(self.choice(nm, depth, cfg))
            elif r < 0.88:
                out.append(self.own(lambda: (rng.choice([b"anydata", b"anyxml"]), nm, self.maybe(0.3, self.must) + self.common(cfg))))
            elif allow_uses and not any(x[0] == b"uses" for x in out):
                out.append(self.uses())
        return out

    # ---- module ---------------------------------------------------------------------------
    def module(self):
        rng, nm = self.rng, self.name
        top = self.cls == "F84"     # extension instances owned by the module itself crash the tree printer
        kids = [(b"yang-version", b"1.1", []), (b"namespace", b"\"urn:" + nm + b"\"", self.exts(0.3, site=b"namespace") if top else []), (b"prefix", b"g", [])]
        kids += self.maybe(0.5, lambda: self.own(lambda: (b"import", b"ietf-yang-types", [self.S(b"prefix", b"yang")] +
                                                          self.maybe(0.5, lambda: self.S(b"revision-date", b"2013-07-15")) + self.descr(0.4) + self.exts(0.1))))
        if self.with_dep:
            kids.append((b"import", nm + b"-dep", [(b"prefix", b"d", [])]))
        if self.with_sub:
            kids.append(self.own(lambda: (b"include", nm + b"-sub", self.descr(0.3) + self.exts(0.1))))
        for kw in (b"organization", b"contact", b"description", b"reference"):
            kids.append((kw, self.spell(self.text(block=True)), []))
        kids += [self.own(lambda: (b"revision", b"2024-01-0%d" % (2 - i), self.descr(0.7) + self.exts(0.1))) for i in range(rng.randrange(0, 3))]
        kids += [self.own(lambda: (b"extension", b"e0", self.status() + self.descr(0.3) + self.exts(0.1))),
                 self.own(lambda: (b"extension", b"e1", [self.own(lambda: (b"argument", b"a", self.maybe(0.3, lambda: self.S(b"yin-element", b"false")) +
                                                                             self.exts(0.1)))] + self.descr(0.3))),
                 self.own(lambda: (b"extension", b"e2", [(b"argument", b"t", [(b"yin-element", b"true", [])])] + self.status() + self.descr(0.3)))]
        kids += [self.own(lambda: (b"feature", b"f1", self.descr(0.4) + self.exts(0.1))),
                 self.own(lambda: (b"feature", b"f2", [(b"if-feature", b"f1", [])] + self.status())),
                 self.own(lambda: (b"feature", b"f3", self.status(True) + self.descr(0.3)))]
        kids += [self.own(lambda: (b"identity", b"i1", self.descr(0.3) + self.exts(0.1))),
                 self.own(lambda: (b"identity", b"i2", [self.S(b"base", b"i1")] + self.iffeature(0.3) + self.status(True) + self.descr(0.3))),
                 self.own(lambda: (b"identity", b"i3", [(b"base", b"i1", []), (b"base", b"i2", [])] + self.status(True)))]
        kids += [self.own(lambda: (b"typedef", b"t1", [self.string_type()] + self.maybe(0.4, lambda: self.T(b"units", nonempty=True)) + self.status() +
                                   self.descr(0.5) + self.exts(0.1))),
                 self.own(lambda: (b"typedef", b"t2", [(b"type", b"int32", [self.restr(b"range", b"\"1..10 | 20..30\"")]),
                                                       self.S(b"default", rng.choice([b"5", b"\"5\"", b"'5'"]))])),
                 (b"typedef", b"t3", [(b"type", b"enumeration", [self.own(lambda: (b"enum", self.spell(n, free=False), self.descr(0.3))) for n in rng.sample(ENUMS, 3)])])]
        kids.append(self.own(lambda: (b"grouping", b"gr", self.descr(0.4) + self.exts(0.1) + [
            self.own(lambda: (b"leaf", b"gl", [(b"type", b"string", [])] + self.descr(0.3))),
            (b"leaf-list", b"gll", [(b"type", b"string", []), (b"max-elements", b"4", [])]),
            self.own(lambda: (b"container", b"gc", self.maybe(0.3, lambda: self.T(b"presence", nonempty=True)) + [(b"leaf", b"gcl", [(b"type", b"string", [])])]))])))
        if top:
            self.risk_used = True
            kids.append((b"g:e1", self.spell(self.text()), []))

        def cont_c():
            ck = self.maybe(0.4, lambda: self.T(b"presence", nonempty=True)) + self.maybe(0.5, self.must) + self.status() + self.descr() + self.exts(0.2)
            ck += [self.own(lambda: (b"leaf", b"l", [(b"type", b"string", [])] + self.maybe(0.6, lambda: self.T(b"default", keeps_quote=True)) +
                                     self.maybe(0.5, lambda: self.T(b"units", nonempty=True)) + self.descr(0.6) + self.exts(0.3))),
                   self.own(lambda: (b"leaf-list", b"ll", [(b"type", b"string", [])] + self.maybe(0.5, lambda: self.T(b"default", nonempty=True, keeps_quote=True))))]
            return (b"container", b"c", ck + self.inner(1))
        kids.append(self.own(cont_c))
        kids += self.maybe(0.5, lambda: self.own(lambda: (b"augment", b"\"/g:c\"", self.maybe(0.4, self.when) + self.descr(0.4) + self.exts(0.1) + [
            self.own(lambda: (b"leaf", b"aug2", [(b"type", b"string", [])] + self.maybe(0.4, lambda: self.T(b"default", keeps_quote=True))))])))
        kids += self.maybe(0.5, lambda: self.own(lambda: (b"rpc", b"r1", self.descr(0.4) + self.iffeature(0.2) + self.exts(0.2) + [
            self.own(lambda: (b"input", None, [self.leaf(b"i")] + self.exts(0.15))), self.own(lambda: (b"output", None, [self.leaf(b"o")]))])))
        kids += self.maybe(0.5, lambda: self.own(lambda: (b"notification", b"n1", self.descr(0.4) + self.maybe(0.3, self.must) + [self.leaf(b"x")])))
        if self.with_dep:
            kids.append(self.own(lambda: (b"deviation", b"\"/d:dc/d:dl\"", self.descr(0.4) + [
                self.own(lambda: (b"deviate", b"add", [self.T(b"units", nonempty=True), self.must(), self.T(b"default", keeps_quote=True)]))])))
            kids.append(self.own(lambda: (b"deviation", b"\"/d:dc/d:dx\"", [self.own(lambda: (b"deviate", b"not-supported", self.exts(0.2)))])))
            kids.append(self.own(lambda: (b"deviation", b"\"/d:dc/d:dr\"", [
                self.own(lambda: (b"deviate", b"replace", [(b"type", b"int8", []), self.T(b"units", nonempty=True)])),
                self.own(lambda: (b"deviate", b"delete", [(b"must", b"\"../dl\"", [])]))])))
            kids.append(self.own(lambda: (b"augment", b"\"/d:dc\"", [self.own(lambda: (b"leaf", b"from-main", [(b"type", b"d:dt", [])] + self.descr(0.4)))])))
        return (b"module", nm, kids)

    def dep(self):
        nm = self.name + b"-dep"
        return nm, render(self.rng, (b"module", nm, [
            (b"yang-version", b"1.1", []), (b"namespace", b"\"urn:" + nm + b"\"", []), (b"prefix", b"d", []),
            (b"typedef", b"dt", [(b"type", b"string", [(b"length", b"\"0..50\"", [])])]),
            (b"container", b"dc", [(b"leaf", b"dl", [(b"type", b"string", [])]), (b"leaf", b"dx", [(b"type", b"string", [])]),
                                   (b"leaf", b"dr", [(b"type", b"string", []), (b"units", b"old", []), (b"must", b"\"../dl\"", [])])])]), 0)

    def sub(self):
        nm = self.name + b"-sub"
        return nm, render(self.rng, (b"submodule", nm, [
            (b"yang-version", b"1.1", []), (b"belongs-to", self.name, [(b"prefix", b"g", [])]),
            (b"organization", self.spell(self.text(block=True)), []), (b"description", self.spell(self.text(block=True)), []),
            self.own(lambda: (b"revision", b"2024-02-02", self.descr(0.6))),
            self.own(lambda: (b"typedef", b"st", [self.string_type()] + self.descr(0.4))),
            self.own(lambda: (b"container", b"sc", self.maybe(0.4, lambda: self.T(b"presence", nonempty=True)) + self.descr(0.5) + [
                self.own(lambda: (b"leaf", b"sl", [(b"type", b"st", [])] + self.maybe(0.5, lambda: self.T(b"units", nonempty=True)) + self.maybe(0.3, self.must)))]))]), 0)


def render(rng, t, level):
    kw, arg, kids = t
    ind = b"  " * level
    out = ind + kw
    if arg is not None:
        out += (b"\n" + ind + b"    " if rng.random() < 0.1 else b" ") + arg
    if kids:
        out += rng.choice([b" {\n", b" {\n", b" { // c\n", b"\n" + ind + b"{\n", b" { /* c\n c */\n"])
        for k in kids:
            out += render(rng, k, level + 1)
        out += ind + b"}\n"
    else:
        out += rng.choice([b";\n", b";\n", b" ;\n", b"; // c\n", b" { }\n"])
    return out


def gen_module(rng, idx, cls):
    """-> dict(name, cls, text, deps=[(name, text)], risk_used)"""
    name = b"gm%d" % idx
    g = Gen(rng, name, cls, with_dep=rng.random() < 0.3, with_sub=rng.random() < 0.25)
    text = render(rng, g.module(), 0)
    deps = []
    if g.with_dep:
        deps.append(g.dep())
    if g.with_sub:
        deps.append(g.sub())
    return {"name": name, "cls": cls, "text": text, "deps": deps, "risk_used": g.risk_used}
