"""C11, metamorphic part (K)+(L): one abstract schema description, rendered
  * structured  — typedef chains, groupings/uses with refine and uses-augment, own and foreign augments, a submodule,
                  a deviation module (not-supported / add / replace / delete), if-feature on nodes, uses, augments, refines —
  * flattened   — every construct expanded by the reference expander below (written from RFC 7950 §7.12-7.20, §9, not
                  from libyang): types resolved to the built-in type with the effective restrictions, uses replaced by the
                  refined/augmented copies, augments merged, the submodule merged, deviations applied, and nodes whose
                  if-feature expressions are false under the enabled features removed —
and both must give the same `lys_print_mem(LYS_OUT_YANG_COMPILED)` text of the base module.  Second law: for the
structured module set, every load order and immediate vs `LY_CTX_EXPLICIT_COMPILE` + `ly_ctx_compile` give the same
effective schema, up to the order of siblings contributed by different augmenting modules."""
import copy, itertools, re
from vlib.proto import hexs, unhex
from checks import c11 as iffref

HARNESS = "api_compile"
INTS = {"int8": (-128, 127), "int16": (-32768, 32767), "int32": (-(1 << 31), (1 << 31) - 1), "uint8": (0, 255), "uint16": (0, 65535), "uint32": (0, (1 << 32) - 1)}


# ======================================================================================================================
# abstract description
# ======================================================================================================================
class Gen:
    def __init__(self, rng):
        self.rng = rng
        self.n = 0
        self.nested_refine = False
        self.typedefs = []      # {"name","parent","restr","default","units","loc"}
        self.groupings = []     # {"name","children","loc"}
        self.features = ["f1", "f2", "f3"]

    def name(self, p):
        self.n += 1
        return "%s%d" % (p, self.n)

    # ---- types -------------------------------------------------------------------------------------------------------
    def narrow(self, parts):
        """a valid narrowing of ascending integer parts (each new part inside one old part)"""
        rng = self.rng
        out = []
        for a, b in parts:
            r = rng.random()
            if r < 0.25 and len(parts) > 1:
                continue
            if b - a >= 4 and r < 0.6:
                m = rng.randrange(a + 1, b - 1)
                out.append((a + rng.randrange(0, 2), m - 1))
                if rng.random() < 0.6:
                    out.append((m + 1, b - rng.randrange(0, 2)))
            elif b > a and r < 0.8:
                out.append((a + 1, b))
            else:
                out.append((a, b))
        out = [(a, b) for a, b in out if a <= b]
        return out or [parts[0]]

    def mk_typedef_chain(self):
        rng = self.rng
        kind = rng.choice(["int", "int", "string", "plain"])
        chain = []
        if kind == "int":
            base = rng.choice(list(INTS))
            lo, hi = INTS[base]
            parts = [(max(lo, -50), min(hi, 100))]
            if rng.random() < 0.5:
                parts = [(max(lo, 0), 40), (60, min(hi, 120))]
            parent = base
            for lvl in range(rng.randrange(1, 4)):
                if lvl:
                    parts = self.narrow(parts)
                td = {"name": self.name("t"), "parent": parent, "restr": {"range": list(parts)}, "default": None, "units": None, "loc": rng.choice(["main", "main", "sub"])}
                inherited = next((x["default"] for x in reversed(chain) if x["default"] is not None), None)
                if rng.random() < 0.4 or (inherited is not None and not any(a <= int(inherited) <= b for a, b in parts)):
                    td["default"] = str(rng.choice(parts)[0])
                if rng.random() < 0.35:
                    td["units"] = rng.choice(["s", "ms", "kB"])
                self.typedefs.append(td)
                chain.append(td)
                parent = td["name"]
        elif kind == "string":
            parts = [(0, 12)]
            pats = []
            parent = "string"
            for lvl in range(rng.randrange(1, 4)):
                if lvl:
                    parts = self.narrow(parts)
                restr = {"length": list(parts)}
                if rng.random() < 0.6:
                    p = rng.choice(["[a-z]*", "[a-c]*", ".*", "a.*|b.*|[c-z]*|", "[a-z0-9]*"])
                    restr["patterns"] = [p]
                td = {"name": self.name("t"), "parent": parent, "restr": restr, "default": None, "units": None, "loc": rng.choice(["main", "main", "sub"])}
                if rng.random() < 0.3:
                    td["units"] = rng.choice(["s", "ms", "kB"])
                self.typedefs.append(td)
                chain.append(td)
                parent = td["name"]
        else:
            base = rng.choice(["boolean", "uint8", "string", "int32"])
            td = {"name": self.name("t"), "parent": base, "restr": {}, "default": None, "units": rng.choice([None, "u"]), "loc": "main"}
            if base == "boolean" and rng.random() < 0.5:
                td["default"] = "true"
            self.typedefs.append(td)
            chain.append(td)
        return chain

    def pick_type(self):
        """a type use: reference to a typedef or a built-in, optionally with a further (valid) restriction"""
        rng = self.rng
        if self.typedefs and rng.random() < 0.7:
            td = rng.choice(self.typedefs)
            t = {"ref": td["name"], "restr": {}}
            eff = resolve_type(self, t)
            if "range" in eff["restr"] and rng.random() < 0.4:
                nr = self.narrow(eff["restr"]["range"])
                if eff["default"] is None or any(a <= int(eff["default"]) <= b for a, b in nr):
                    t["restr"]["range"] = nr
            if "length" in eff["restr"] and rng.random() < 0.4:
                t["restr"]["length"] = self.narrow(eff["restr"]["length"])
            return t
        return {"ref": rng.choice(["string", "int32", "uint8", "boolean"]), "restr": {}}

    def default_for(self, t):
        eff = resolve_type(self, t)
        b = eff["base"]
        if b in INTS:
            parts = eff["restr"].get("range") or [INTS[b]]
            a, c = self.rng.choice(parts)
            return str(self.rng.choice([a, c]))
        if b == "boolean":
            return self.rng.choice(["true", "false"])
        if b == "string":
            parts = eff["restr"].get("length") or [(0, 5)]
            n = self.rng.choice(parts)[0]
            return "a" * n if n <= 12 else None
        return None

    # ---- nodes -------------------------------------------------------------------------------------------------------
    def iff(self, p=0.25):
        """if-feature expressions are always written with fully prefixed names (b:f1, a:af): valid in every module here"""
        if self.rng.random() > p:
            return []
        names = [("b:" + f).encode() for f in self.features]
        e = iffref.gen_expr(self.rng, self.rng.randrange(0, 3), names)
        e = re.sub(rb"[\t\r\n]+", b" ", e)
        if iffcrash(e):
            return []
        return [e.decode()]

    def leaf(self, depth=0, allow_mand=True):
        rng = self.rng
        t = self.pick_type()
        n = {"k": "leaf", "name": self.name("l"), "type": t, "default": None, "mandatory": None, "config": None, "iff": self.iff(), "units": None, "must": []}
        eff = resolve_type(self, t)
        r = rng.random()
        if r < 0.3:
            n["default"] = self.default_for(t)
        elif r < 0.45 and allow_mand and eff["default"] is None:
            n["mandatory"] = True
        elif r < 0.5:
            n["mandatory"] = False
        if rng.random() < 0.1:
            n["units"] = "x"
        return n

    def leaflist(self):
        rng = self.rng
        n = {"k": "leaf-list", "name": self.name("ll"), "type": self.pick_type(), "min": None, "max": None, "config": None, "iff": self.iff(), "ordered": rng.random() < 0.3, "units": None, "must": []}
        if rng.random() < 0.4:
            n["max"] = rng.randrange(2, 6)
        if rng.random() < 0.2:
            n["min"] = 1
        return n

    def container(self, depth, uses_ok=True):
        n = {"k": "container", "name": self.name("c"), "presence": None, "children": self.children(depth + 1, uses_ok), "config": None, "iff": self.iff(), "must": []}
        if self.rng.random() < 0.3:
            n["presence"] = "p"
        if self.rng.random() < 0.12:
            n["config"] = False
        return n

    def list_(self, depth, uses_ok=True):
        key = {"k": "leaf", "name": self.name("k"), "type": {"ref": self.rng.choice(["string", "uint8"]), "restr": {}}, "default": None, "mandatory": None, "config": None, "iff": [], "units": None, "must": [], "iskey": True}
        n = {"k": "list", "name": self.name("li"), "key": key["name"], "children": [key] + self.children(depth + 1, uses_ok), "min": None, "max": None, "config": None, "iff": self.iff(), "ordered": False, "must": []}
        if self.rng.random() < 0.3:
            n["max"] = self.rng.randrange(2, 9)
        return n

    def children(self, depth, uses_ok=True):
        rng = self.rng
        out = []
        for _ in range(rng.randrange(1, 4 if depth else 5)):
            r = rng.random()
            if r < 0.4 or depth >= 3:
                out.append(self.leaf(depth))
            elif r < 0.52:
                out.append(self.leaflist())
            elif r < 0.7:
                out.append(self.container(depth, uses_ok))
            elif r < 0.8:
                out.append(self.list_(depth, uses_ok))
            elif uses_ok and self.groupings:
                out.append(self.uses(depth))
            else:
                out.append(self.leaf(depth))
        return out

    def grouping(self):
        g = {"name": self.name("g"), "children": None, "loc": self.rng.choice(["main", "main", "sub"])}
        g["children"] = self.children(1, uses_ok=bool(self.groupings))
        self.groupings.append(g)
        return g

    def paths(self, children, prefix=""):
        """schema paths (relative, after expansion) of all nodes below `children` with the node itself"""
        res = []
        for c in flatten(self, copy.deepcopy(children)):
            p = prefix + c["name"]
            res.append((p, c))
            if "children" in c:
                res += self.paths_flat(c["children"], p + "/")
        return res

    def paths_flat(self, children, prefix):
        res = []
        for c in children:
            p = prefix + c["name"]
            res.append((p, c))
            if "children" in c:
                res += self.paths_flat(c["children"], p + "/")
        return res

    def uses(self, depth):
        rng = self.rng
        g = rng.choice(self.groupings)
        u = {"k": "uses", "g": g["name"], "refines": [], "augments": [], "iff": self.iff(0.2)}
        targets = self.paths(g["children"])
        rng.shuffle(targets)
        for p, node in targets[:rng.randrange(0, 3)]:
            if node.get("iskey"):
                continue
            s = {}
            k = node["k"]
            if k == "leaf":
                r = rng.random()
                if r < 0.4 and node["mandatory"] is not True:
                    d = self.default_for(node["type"])
                    if d is not None:
                        s["default"] = d
                elif r < 0.7 and node["default"] is None and resolve_type(self, node["type"])["default"] is None:
                    s["mandatory"] = rng.choice([True, False])
                elif node["mandatory"] is True:
                    s["mandatory"] = False
            elif k == "container":
                if rng.random() < 0.5:
                    s["presence"] = "rp"
                elif node.get("config") is None and rng.random() < 0.4:
                    s["config"] = False
            elif k in ("leaf-list", "list"):
                s["max"] = rng.randrange(3, 9)
                if k == "leaf-list" and rng.random() < 0.3:
                    s["min"] = 1
            if rng.random() < 0.25:
                s["iff"] = self.iff(1.0)
            if s:
                u["refines"].append({"path": p, "set": s})
        conts = [(p, n) for p, n in targets if n["k"] in ("container", "list")]
        if conts and rng.random() < 0.5:
            p, _ = rng.choice(conts)
            u["augments"].append({"path": p, "children": [self.leaf(depth, allow_mand=False) for _ in range(rng.randrange(1, 3))], "iff": self.iff(0.2)})
        return u


def iffcrash(e):
    """the reference of finding F13: a `not` applied to a parenthesis whose first token is `not` (kept out of this generator)"""
    t = re.sub(rb"\s+", b" ", e)
    return re.search(rb"not \(+ ?not ", t) is not None


def resolve_type(gen, t):
    """effective built-in type, restrictions, default and units of a type use (RFC 7950 §7.3, §9.2.4, §9.4.4, §9.4.5)"""
    chain = []
    ref = t["ref"]
    tds = {td["name"]: td for td in gen.typedefs}
    while ref in tds:
        chain.append(tds[ref])
        ref = tds[ref]["parent"]
    base = ref
    restr = {}
    pats = []
    default, units = None, None
    for td in reversed(chain):
        for k in ("range", "length"):
            if k in td["restr"]:
                restr[k] = td["restr"][k]
        pats += td["restr"].get("patterns", [])
        if td["default"] is not None:
            default = td["default"]
        if td["units"] is not None:
            units = td["units"]
    for k in ("range", "length"):
        if k in t["restr"]:
            restr[k] = t["restr"][k]
    pats += t["restr"].get("patterns", [])
    if pats:
        restr["patterns"] = pats
    return {"base": base, "restr": restr, "default": default, "units": units}


# ======================================================================================================================
# reference expander
# ======================================================================================================================
def find(children, path):
    cur = None
    for seg in path.split("/"):
        cur = next((c for c in children if c["name"] == seg), None)
        if cur is None:
            return None
        children = cur.get("children", [])
    return cur


COMPAT = {"F79": False, "F80": False}   # reference expander imitating exactly one known deviation of libyang


def flatten(gen, children):
    """uses -> refined and augmented copies of the grouping's nodes (RFC 7950 §7.13)"""
    gs = {g["name"]: g for g in gen.groupings}
    out = []
    for c in children:
        if c["k"] == "uses":
            inst = flatten(gen, copy.deepcopy(gs[c["g"]]["children"]))
            for r in c["refines"]:
                n = find(inst, r["path"])
                for k, v in r["set"].items():
                    if k == "iff":
                        n["iff"] = n["iff"] + v
                    else:
                        done = n.setdefault("_refined", set())
                        if COMPAT["F80"] and k in done:
                            continue        # finding F80: the refine of the inner uses wins
                        if k in done:
                            gen.nested_refine = True
                        n[k] = v
                        done.add(k)
                        if k == "mandatory":
                            n["mand_explicit"] = True
            for a in c["augments"]:
                n = find(inst, a["path"])
                add = flatten(gen, copy.deepcopy(a["children"]))
                for x in add:
                    x["iff"] = x["iff"] + a["iff"]
                    x["_by_uaug"] = True
                at = next((i for i, x in enumerate(n["children"]) if x.get("_by_uaug")), None)
                if at is not None:
                    gen.nested_refine = True
                if COMPAT["F80"] and at is not None:
                    n["children"][at:at] = add      # finding F80: the augment of the outer uses is applied first
                else:
                    n["children"] += add
            for n in inst:
                n["iff"] = n["iff"] + c["iff"]
            out += inst
        else:
            if "children" in c:
                c["children"] = flatten(gen, c["children"])
            out.append(c)
    return out


def apply_deviations(gen, data, devs):
    """RFC 7950 §7.20.3"""
    for d in devs:
        parent_children, node = data, None
        segs = d["path"].split("/")
        for i, seg in enumerate(segs):
            node = next((c for c in parent_children if c["name"] == seg), None)
            if node is None:
                break
            if i < len(segs) - 1:
                parent_children = node["children"]
        if node is None:
            continue
        if d["kind"] == "not-supported":
            parent_children.remove(node)
        elif d["kind"] in ("add", "replace"):
            for k, v in d["set"].items():
                if k == "must":
                    node["must"] = node["must"] + v
                else:
                    node[k] = v
                    if k == "mandatory":
                        node["mand_explicit"] = True
        elif d["kind"] == "delete":
            for k, v in d["set"].items():
                if k == "must":
                    node["must"] = [m for m in node["must"] if m not in v]
                elif k == "default":
                    node["default"] = None
                    node["default_deleted"] = True
                elif k == "units":
                    node["units"] = None
                    node["units_deleted"] = True


def prune(children, enabled):
    """remove nodes whose if-feature expressions are not all true (RFC 7950 §7.20.2)"""
    out = []
    for c in children:
        ok = True
        for e in c["iff"]:
            ast = iffref.iff_parse(e.encode())
            names = iffref.iff_names(ast, [])
            asg = {}
            for nm in names:
                s = nm.decode()
                asg[nm] = (s.split(":")[-1], "aug" if s.startswith("a:") else "base") in enabled
            if not iffref.iff_val(ast, asg):
                ok = False
        if not ok:
            continue
        c = dict(c)
        c["iff"] = []
        if "children" in c:
            c["children"] = prune(c["children"], enabled)
        out.append(c)
    return out


# ======================================================================================================================
# rendering
# ======================================================================================================================
def q(s):
    return '"' + s.replace("\\", "\\\\").replace('"', '\\"') + '"'


def parts_text(parts, lo=None, hi=None, kw=False):
    out = []
    for i, (a, b) in enumerate(parts):
        sa, sb = str(a), str(b)
        if kw and i == 0 and lo is not None and a == lo: sa = "min"
        if kw and i == len(parts) - 1 and hi is not None and b == hi: sb = "max"
        out.append(sa if a == b and sa == str(a) and sb == str(b) else sa + ".." + sb)
    return " | ".join(out)


def restr_text(base, restr, structured_bounds=None):
    s = ""
    lo, hi = structured_bounds if structured_bounds else (None, None)
    if "range" in restr:
        s += " range %s;" % q(parts_text(restr["range"], lo, hi, kw=structured_bounds is not None))
    if "length" in restr:
        s += " length %s;" % q(parts_text(restr["length"], lo, hi, kw=structured_bounds is not None))
    for p in restr.get("patterns", []):
        s += " pattern %s;" % q(p)
    return s


def type_text(gen, t, flat, pfx=""):
    if flat:
        eff = resolve_type(gen, t)
        r = restr_text(eff["base"], eff["restr"])
        return "type %s%s" % (eff["base"], " {%s }" % r if r else ";")
    # structured: keywords min/max where the bound equals the bound of the restricted type
    tds = {td["name"] for td in gen.typedefs}
    ref = (pfx + t["ref"]) if t["ref"] in tds else t["ref"]
    bounds = None
    if t["restr"]:
        eff = resolve_type(gen, {"ref": t["ref"], "restr": {}})
        prev = eff["restr"].get("range") or eff["restr"].get("length")
        if prev:
            bounds = (prev[0][0], prev[-1][1])
        elif eff["base"] in INTS:
            bounds = INTS[eff["base"]]
    r = restr_text(None, t["restr"], bounds)
    return "type %s%s" % (ref, " {%s }" % r if r else ";")


def node_text(gen, n, flat, ind, pfx=""):
    sp = " " * ind
    k = n["k"]
    if k == "uses":
        s = sp + "uses %s%s" % (pfx, n["g"])
        body = ""
        for e in n["iff"]:
            body += sp + "  if-feature %s;\n" % q(e)
        for r in n["refines"]:
            body += sp + "  refine %s {" % q(r["path"])
            for kk, v in r["set"].items():
                if kk == "iff":
                    for e in v: body += " if-feature %s;" % q(e)
                elif kk == "mandatory": body += " mandatory %s;" % ("true" if v else "false")
                elif kk == "config": body += " config %s;" % ("true" if v else "false")
                elif kk == "default": body += " default %s;" % q(v)
                elif kk == "presence": body += " presence %s;" % q(v)
                elif kk == "max": body += " max-elements %d;" % v
                elif kk == "min": body += " min-elements %d;" % v
            body += " }\n"
        for a in n["augments"]:
            body += sp + "  augment %s {\n" % q(a["path"])
            for e in a["iff"]:
                body += sp + "    if-feature %s;\n" % q(e)
            for c in a["children"]:
                body += node_text(gen, c, flat, ind + 4, pfx)
            body += sp + "  }\n"
        return s + (" {\n" + body + sp + "}\n" if body else ";\n")
    s = sp + "%s %s {\n" % (k, n["name"])
    for e in n["iff"]:
        s += sp + "  if-feature %s;\n" % q(e)
    for m in n.get("must", []):
        s += sp + "  must %s;\n" % q(m)
    if k in ("leaf", "leaf-list"):
        s += sp + "  " + type_text(gen, n["type"], flat, pfx) + "\n"
        eff = resolve_type(gen, n["type"])
        units = n["units"] if n["units"] is not None else (eff["units"] if flat and not n.get("units_deleted") else None)
        if units is not None:
            s += sp + "  units %s;\n" % q(units)
    if k == "leaf":
        eff = resolve_type(gen, n["type"])
        d = n["default"]
        if d is None and flat and not n.get("default_deleted") and n["mandatory"] is not True:
            d = eff["default"]
        if d is not None:
            s += sp + "  default %s;\n" % q(d)
        if n["mandatory"] is not None:
            s += sp + "  mandatory %s;\n" % ("true" if n["mandatory"] else "false")
    if k == "leaf-list" and flat and (not n.get("min") or COMPAT["F79"]):
        d = resolve_type(gen, n["type"])["default"]
        if d is not None:
            s += sp + "  default %s;\n" % q(d)   # RFC 7950 §7.7.2: one instance of the type's default value
    if k == "container" and n["presence"] is not None:
        s += sp + "  presence %s;\n" % q(n["presence"])
    if k == "list":
        s += sp + "  key %s;\n" % q(n["key"])
    if k in ("list", "leaf-list"):
        if n["min"] is not None: s += sp + "  min-elements %d;\n" % n["min"]
        if n["max"] is not None: s += sp + "  max-elements %d;\n" % n["max"]
        if n.get("ordered"): s += sp + "  ordered-by user;\n"
    if n.get("config") is not None:
        s += sp + "  config %s;\n" % ("true" if n["config"] else "false")
    for c in n.get("children", []):
        s += node_text(gen, c, flat, ind + 2, pfx)
    return s + sp + "}\n"


def typedef_text(gen, td, pfx_for=lambda name: ""):
    r = restr_text(None, td["restr"])
    s = "  typedef %s { type %s%s" % (td["name"], td["parent"], " {%s }" % r if r else ";")
    if td["units"] is not None: s += " units %s;" % q(td["units"])
    if td["default"] is not None: s += " default %s;" % q(td["default"])
    return s + " }\n"


class Desc:
    """one abstract description and its renderings"""

    def __init__(self, rng):
        g = self.gen = Gen(rng)
        self.rng = rng
        for _ in range(rng.randrange(1, 4)):
            g.mk_typedef_chain()
        for _ in range(rng.randrange(1, 4)):
            g.grouping()
        self.main = [g.container(0) for _ in range(rng.randrange(1, 3))] + g.children(0)
        # every typedef of every chain is used several times without a restriction or default of its own (default and units
        # come from different levels of the chain; the first and the later users of a typedef must inherit the same)
        reuse = []
        for td in g.typedefs:
            for j in range(rng.randrange(1, 4)):
                reuse.append({"k": "leaf", "name": g.name("lr"), "type": {"ref": td["name"], "restr": {}}, "default": None, "mandatory": None, "config": None,
                              "iff": [], "units": ("x" if rng.random() < 0.25 else None), "must": []})
            if rng.random() < 0.4:
                reuse.append({"k": "leaf-list", "name": g.name("llr"), "type": {"ref": td["name"], "restr": {}}, "min": None, "max": None, "config": None, "iff": [],
                              "ordered": False, "units": None, "must": []})
        rng.shuffle(reuse)
        self.main.append({"k": "container", "name": g.name("ctd"), "presence": "p", "children": reuse, "config": None, "iff": [], "must": []})
        self.sub = g.children(0) if rng.random() < 0.7 else []
        flat_all = flatten(g, copy.deepcopy(self.main + self.sub))
        conts = [(p, n) for p, n in g.paths_flat(flat_all, "") if n["k"] in ("container", "list")]
        self.own_aug, self.for_aug, self.devs = [], [], []
        used_targets = set()
        for _ in range(rng.randrange(0, 3)):
            if not conts: break
            p, tgt = rng.choice(conts)
            self.own_aug.append({"path": p, "children": [g.leaf(1, allow_mand=False) for _ in range(rng.randrange(1, 3))] + ([g.container(2)] if rng.random() < 0.3 else []), "iff": g.iff(0.3)})
        for _ in range(rng.randrange(1, 3)):
            if not conts: break
            p, tgt = rng.choice(conts)
            if p in used_targets: continue
            used_targets.add(p)
            ch = []
            for _ in range(rng.randrange(1, 3)):
                l = g.leaf(1, allow_mand=False)
                l["foreign"] = True
                ch.append(l)
            self.for_aug.append({"path": p, "children": ch, "iff": (["a:af"] if rng.random() < 0.4 else [])})
        # deviations against the merged tree
        merged = self.merged(with_dev=False)
        if has_dup(merged) or any(has_dup(flatten(g, copy.deepcopy(gr["children"]))) for gr in g.groupings):
            raise ValueError("duplicate sibling names")
        allp = [(p, n) for p, n in g.paths_flat(merged, "")]
        rng.shuffle(allp)
        chosen = []
        for p, n in allp:
            if len(self.devs) >= 3: break
            if n.get("iskey") or any(p == c or p.startswith(c + "/") or c.startswith(p + "/") for c in chosen):
                continue
            d = None
            r = rng.random()
            k = n["k"]
            if r < 0.25:
                d = {"path": p, "kind": "not-supported"}
            elif k == "leaf":
                eff = resolve_type(g, n["type"])
                has_def = n["default"] is not None or eff["default"] is not None
                if r < 0.45 and not has_def and n["mandatory"] is not True:
                    dv = g.default_for(n["type"])
                    if dv is not None: d = {"path": p, "kind": "add", "set": {"default": dv}}
                elif r < 0.6 and n["default"] is not None:
                    dv = g.default_for(n["type"])
                    if dv is not None: d = {"path": p, "kind": "replace", "set": {"default": dv}}
                elif r < 0.7 and n["default"] is not None and eff["default"] is None:
                    d = {"path": p, "kind": "delete", "set": {"default": n["default"]}}
                elif r < 0.8 and n["mandatory"] is not None and not has_def and not n.get("foreign"):
                    d = {"path": p, "kind": "replace", "set": {"mandatory": not n["mandatory"]}}
                elif r < 0.9:
                    d = {"path": p, "kind": "add", "set": {"must": ["1 = 1"]}}
            elif k in ("leaf-list", "list"):
                if n["max"] is not None and r < 0.7:
                    d = {"path": p, "kind": "replace", "set": {"max": n["max"] + 1}}
                elif n["max"] is None and r < 0.7:
                    d = {"path": p, "kind": "add", "set": {"max": 7}}
            elif k == "container" and r < 0.6:
                d = {"path": p, "kind": "add", "set": {"must": ["true()"]}}
            if d:
                self.devs.append(d)
                chosen.append(p)

    # ---- the effective tree ------------------------------------------------------------------------------------------
    def merged(self, with_dev=True, enabled=None):
        g = self.gen
        data = flatten(g, copy.deepcopy(self.main)) + flatten(g, copy.deepcopy(self.sub))
        for a in self.own_aug:
            n = find(data, a["path"])
            add = flatten(g, copy.deepcopy(a["children"]))
            for x in add: x["iff"] = x["iff"] + a["iff"]
            n["children"] += add
        for a in self.for_aug:
            n = find(data, a["path"])
            add = copy.deepcopy(a["children"])
            for x in add:
                x["iff"] = x["iff"] + a["iff"]
            n["children"] += add
        if with_dev:
            apply_deviations(g, data, self.devs)
        if enabled is not None:
            data = prune(data, enabled)
        return data

    # ---- YANG text ---------------------------------------------------------------------------------------------------
    def structured(self):
        g = self.gen
        base = "module base {\n  yang-version 1.1;\n  namespace \"urn:base\";\n  prefix b;\n" + ("  include bsub;\n" if self.has_sub() else "")
        base += "".join("  feature %s;\n" % f for f in g.features)
        sub = "submodule bsub {\n  yang-version 1.1;\n  belongs-to base { prefix b; }\n"
        for td in g.typedefs:
            (base, sub) = (base + typedef_text(g, td), sub) if td["loc"] == "main" or not self.has_sub() else (base, sub + typedef_text(g, td))
        for gr in g.groupings:
            t = "  grouping %s {\n%s  }\n" % (gr["name"], "".join(node_text(g, c, False, 4) for c in gr["children"]))
            (base, sub) = (base + t, sub) if gr["loc"] == "main" or not self.has_sub() else (base, sub + t)
        base += "".join(node_text(g, c, False, 2) for c in self.main)
        sub += "".join(node_text(g, c, False, 2) for c in self.sub)
        for a in self.own_aug:
            base += "  augment %s {\n%s%s  }\n" % (q("/" + "/".join("b:" + s for s in a["path"].split("/"))),
                                                "".join("    if-feature %s;\n" % q(e) for e in a["iff"]),
                                                "".join(node_text(g, c, False, 4) for c in a["children"]))
        base += "}\n"
        sub += "}\n"
        units = [("m", "base", base)] + ([("s", "bsub", sub)] if self.has_sub() else [])
        units.append(("m", "aug", self.aug_text(False)))
        if self.devs:
            units.append(("m", "dev", self.dev_text()))
        return units

    def has_sub(self):
        return bool(self.sub) or any(td["loc"] == "sub" for td in self.gen.typedefs) or any(gr["loc"] == "sub" for gr in self.gen.groupings)

    def foreign_path(self, p, flatnames):
        """absolute path with the module prefix of every segment (nodes added by the aug module are a:)"""
        segs, out, cur = p.split("/"), [], ""
        for s in segs:
            cur = cur + ("/" if cur else "") + s
            out.append(("a:" if cur in flatnames else "b:") + s)
        return "/" + "/".join(out)

    def foreign_names(self):
        res = set()
        for a in self.for_aug:
            for c in a["children"]:
                res.add(a["path"] + "/" + c["name"])
        return res

    def aug_text(self, flat, enabled=None, pruned=None):
        g = self.gen
        s = "module aug {\n  yang-version 1.1;\n  namespace \"urn:aug\";\n  prefix a;\n  import base { prefix b; }\n  feature af;\n"
        for a in self.for_aug:
            kids = a["children"]
            if flat:
                tgt = find(pruned, a["path"])
                if tgt is None:
                    continue
                names = {c["name"] for c in kids}
                kids = [c for c in tgt["children"] if c["name"] in names and c.get("foreign")]
                if not kids:
                    continue
            s += "  augment %s {\n" % q("/" + "/".join("b:" + x for x in a["path"].split("/")))
            if not flat:
                for e in a["iff"]:
                    s += "    if-feature %s;\n" % q(e)
            for c in kids:
                s += node_text(g, c, flat, 4, "b:")
            s += "  }\n"
        return s + "}\n"

    def dev_text(self):
        fn = self.foreign_names()
        s = "module dev {\n  yang-version 1.1;\n  namespace \"urn:dev\";\n  prefix d;\n  import base { prefix b; }\n  import aug { prefix a; }\n"
        for d in self.devs:
            s += "  deviation %s {\n" % q(self.foreign_path(d["path"], fn))
            if d["kind"] == "not-supported":
                s += "    deviate not-supported;\n"
            else:
                s += "    deviate %s {" % d["kind"]
                for k, v in d["set"].items():
                    if k == "default": s += " default %s;" % q(v)
                    elif k == "mandatory": s += " mandatory %s;" % ("true" if v else "false")
                    elif k == "max": s += " max-elements %d;" % v
                    elif k == "units": s += " units %s;" % q(v)
                    elif k == "must":
                        for m in v: s += " must %s;" % q(m)
                s += " }\n"
            s += "  }\n"
        return s + "}\n"

    def flattened(self, enabled):
        g = self.gen
        data = self.merged(True, enabled)
        base = "module base {\n  yang-version 1.1;\n  namespace \"urn:base\";\n  prefix b;\n" + "".join("  feature %s;\n" % f for f in g.features)
        own = strip_foreign(copy.deepcopy(data))
        base += "".join(node_text(g, c, True, 2) for c in own)
        base += "}\n"
        return [("m", "base", base), ("m", "aug", self.aug_text(True, enabled, data))]


def has_dup(children):
    names = [c["name"] for c in children]
    return len(set(names)) != len(names) or any(has_dup(c["children"]) for c in children if "children" in c)


def strip_foreign(children):
    out = []
    for c in children:
        if c.get("foreign"):
            continue
        if "children" in c:
            c["children"] = strip_foreign(c["children"])
        out.append(c)
    return out


# ======================================================================================================================
# canonical form of the compiled print for the load-order law
# ======================================================================================================================
def parse_blocks(text):
    """YANG text -> nested [stmt, [children]] (statement = text up to '{' or ';')"""
    toks = re.findall(r'"(?:[^"\\]|\\.)*"|[{};]|[^\s{};"]+', text)
    def block(i):
        items, cur = [], []
        while i < len(toks):
            t = toks[i]
            if t == ";":
                items.append([" ".join(cur), []]); cur = []
            elif t == "{":
                ch, i = block(i + 1)
                items.append([" ".join(cur), ch]); cur = []
            elif t == "}":
                return items, i
            else:
                cur.append(t)
            i += 1
        return items, i
    return block(0)[0]


DATA_KW = ("container", "leaf", "leaf-list", "list", "choice", "case", "anydata", "anyxml")


def canon(items, foreign, within=False):
    """sort the runs of data-node siblings that different augmenting modules contributed: nodes named in `foreign`
    (name -> module) are moved behind the others, grouped by module, keeping their relative order inside a module
    (`within`: also sort inside a module — only used to recognise finding F81)"""
    out = []
    own, fr = [], []
    for st, ch in items:
        ch = canon(ch, foreign, within)
        w = st.split(" ")
        if w[0] in DATA_KW and len(w) > 1 and w[1] in foreign:
            fr.append(((foreign[w[1]], w[1] if within else ""), [st, ch]))
        else:
            own.append([st, ch])
    fr.sort(key=lambda x: x[0])
    return own + [x[1] for x in fr]


def drop_f55(items):
    """the compiled text without the `default` statements of leaf-lists that have min-elements >= 1 (finding F79)"""
    out = []
    for st, ch in items:
        ch = drop_f55(ch)
        if st.startswith("leaf-list ") and any(c[0].startswith("min-elements ") and c[0].split()[1] != "0" for c in ch):
            ch = [c for c in ch if not c[0].startswith("default ")]
        out.append([st, ch])
    return out


def explain(cx, d, spec, compiled_structured_hex, compiled_flattened_hex):
    """Is the difference exactly a known deviation?  F79: the two effective schemas are equal once the type defaults that
    leaf-lists with min-elements >= 1 inherited are deleted from the structured one.  F80: they are equal when the
    reference expander imitates "the refine / uses-augment of the inner uses is applied after the outer one"."""
    cs = parse_blocks(unhex(compiled_structured_hex).decode())
    if compiled_flattened_hex and drop_f55(cs) == parse_blocks(unhex(compiled_flattened_hex).decode()):
        return ["F79"]
    if not d.gen.nested_refine:
        return None
    fs = [x for x in spec.split(";")[0].split("=")[1].split(",") if x]
    enabled = {(f, "base") for f in fs} | ({("af", "aug")} if spec.endswith("=af") else set())
    COMPAT["F80"] = True
    try:
        fu = d.flattened(enabled)
    finally:
        COMPAT["F80"] = False
    l = "0 cmp load 0 0,1 base %s %s" % (hexs(spec), " ".join("%s:%s:%s" % (k, nm, hexs(t)) for k, nm, t in fu))
    r = cx.run_impl(HARNESS, [l], component="compile").get("0", ["err"])
    if r[0] == "ok":
        cf = parse_blocks(unhex(r[1]).decode())
        if cf == cs:
            return ["F80"]
        if drop_f55(cs) == cf:
            return ["F79", "F80"]
    return None


# ======================================================================================================================
def run_meta(cx):
    rng = cx.sub_rng("meta")
    cx.rule("metamorphic: generated abstract schema descriptions (typedef chains, groupings/uses with refine and uses-augment, own and "
            "foreign augments, submodule, deviations not-supported/add/replace/delete, if-feature on nodes/uses/augments/refines) rendered "
            "structured and flattened by the RFC reference expander: equal YANG_COMPILED text under several feature sets; all load orders "
            "x immediate/explicit compile of the structured module set give the same effective schema")
    # witness of F78 (a valid typedef chain that crashes lys_compile_type) from the corpus
    import os
    from vlib import paths
    w = open(os.path.join(paths.CORPUS, "iff", "f54-typedef-chain.yang")).read()
    cx.run_impl(HARNESS, ["0 cmp load 0 0 m5 - m:m5:%s" % hexs(w)], component="compile")
    # corpus witnesses of the findings in the compiler proper, as laws on the compiled text
    def corpus(name):
        return open(os.path.join(paths.CORPUS, "iff", name)).read()
    w55, w56 = corpus("f55-leaflist-min-default.yang"), corpus("f56-nested-refine.yang")
    base57 = 'module base { yang-version 1.1; namespace "urn:base"; prefix b; container c { leaf x { type string; } }\n' \
             ' augment "/b:c" { leaf a1 { type string; } } augment "/b:c" { leaf a2 { type string; } } }'
    aug57 = 'module aug { yang-version 1.1; namespace "urn:aug"; prefix a; import base { prefix b; } augment "/b:c" { leaf y { type string; } } }'
    u57 = "m:base:%s m:aug:%s" % (hexs(base57), hexs(aug57))
    wl = ["0 cmp load 0 0 m55 - m:m55:%s" % hexs(w55), "1 cmp load 0 0 r - m:r:%s" % hexs(w56),
          "2 cmp load 0 0,1 base - " + u57, "3 cmp load 0 1,0 base - " + u57]
    wr = cx.run_impl(HARNESS, wl, component="compile")
    txt = lambda k: unhex(wr[k][1]).decode() if wr.get(k, ["err"])[0] == "ok" else ""
    cx.count("witness-f55", True, "meta:witness")
    if drop_f55(parse_blocks(txt("0"))) != parse_blocks(txt("0")):
        cx.fail("compile", "leaf-list with min-elements >= 1 has the default value of its type (RFC 7950 sec. 7.7.2)",
                {"module": w55, "compiled": txt("0"), "finding_class": "F79"})
    cx.count("witness-f56", True, "meta:witness")
    blocks = parse_blocks(txt("1"))
    def get(items, *path):
        for p_ in path:
            items = next((ch for st, ch in items if st == p_), [])
        return [st for st, _ in items]
    if "mandatory true" in get(blocks, "module r", "container top", "container c8", "leaf l3") or \
            "max-elements 7" not in get(blocks, "module r", "container top2", "leaf-list ll"):
        cx.fail("compile", "the refine of an inner uses overrides the refine of the outer uses (RFC 7950 sec. 7.13)",
                {"module": w56, "compiled": txt("1"), "finding_class": "F80"})
    cx.count("witness-f57", True, "meta:witness")
    if txt("2") != txt("3"):
        cx.fail("compile", "effective schema depends on load order / compile mode",
                {"units": [("m", "base", base57), ("m", "aug", aug57)], "order_a": (0, 1), "order_b": (1, 0), "a": [txt("2")], "b": [txt("3")],
                 "finding_class": "F81" if canon(parse_blocks(txt("2")), {"a1": "0", "a2": "0"}, True) == canon(parse_blocks(txt("3")), {"a1": "0", "a2": "0"}, True) else None})
    lines, meta = [], {}
    n = 0
    descs = []
    for _ in range(cx.n(100, 1500)):
        try:
            d = Desc(rng)
        except (IndexError, ValueError, RecursionError, AttributeError, TypeError, KeyError):
            continue
        descs.append(d)
    fsets = [[], ["f1"], ["f2", "f3"], ["f1", "f2", "f3"]]
    for di, d in enumerate(descs):
        su = d.structured()
        for fs in (fsets if di % 3 == 0 else [rng.choice(fsets)]):
            af = rng.random() < 0.5
            enabled = {(f, "base") for f in fs} | ({("af", "aug")} if af else set())
            spec = "base=%s;aug=%s" % (",".join(fs), "af" if af else "")
            fu = d.flattened(enabled)
            order = ",".join(str(i) for i, u in enumerate(su) if u[0] == "m")
            l1 = "%d cmp load 0 %s base %s %s" % (n, order, hexs(spec), " ".join("%s:%s:%s" % (k, nm, hexs(t)) for k, nm, t in su)); n += 1
            l2 = "%d cmp load 0 0,1 base %s %s" % (n, hexs(spec), " ".join("%s:%s:%s" % (k, nm, hexs(t)) for k, nm, t in fu)); n += 1
            lines += [l1, l2]
            meta[l1.split()[0]] = ("S", di, spec, su, fu)
            meta[l2.split()[0]] = ("F", di, spec, su, fu)
    ri = cx.run_impl(HARNESS, lines, component="compile")
    for k in range(0, len(lines), 2):
        i1, i2 = lines[k].split()[0], lines[k + 1].split()[0]
        r1, r2 = ri.get(i1, ["err", "NoReply"]), ri.get(i2, ["err", "NoReply"])
        _, di, spec, su, fu = meta[i1]
        cx.count(("flat", di, spec), True, "meta:flatten:%s/%s" % (r1[0] if r1[0] == "ok" else " ".join(r1[:2]), r2[0] if r2[0] == "ok" else " ".join(r2[:2])))
        if r1[:2] == ["err", "Crash"] or r2[:2] == ["err", "Crash"]:
            continue
        if r1[0] != "ok" or r2[0] != "ok" or r1[1] != r2[1]:
            classes = [None]
            if r1[0] == "ok":
                classes = explain(cx, descs[di], spec, r1[1], r2[1] if r2[0] == "ok" else None) or [None]
            for cls in classes:
                cx.fail("compile", "structured and hand-flattened module set compile to different effective schemas" if r1[0] == r2[0] == "ok"
                        else "generated module set rejected (%s / %s)" % (" ".join(r1[:3]), " ".join(r2[:3])),
                        {"features": spec, "structured": [(k_, nm, t) for k_, nm, t in su], "flattened": [(k_, nm, t) for k_, nm, t in fu],
                         "compiled_structured": unhex(r1[1]).decode() if r1[0] == "ok" else None,
                         "compiled_flattened": unhex(r2[1]).decode() if r2[0] == "ok" else None, "finding_class": cls})

    # ---- load order / compile mode -----------------------------------------------------------------------------------
    lines, meta, n = [], {}, 0
    for di, d in enumerate(descs[:cx.n(12, 200)]):
        su = d.structured()
        # a second augmenting module on the same targets exercises the sibling-order caveat
        extra = None
        if d.for_aug and rng.random() < 0.7:
            a = d.for_aug[0]
            extra = "module aug2 {\n  yang-version 1.1;\n  namespace \"urn:aug2\";\n  prefix a2;\n  import base { prefix b; }\n  augment %s {\n    leaf zz%d { type string; }\n  }\n}\n" % (
                q("/" + "/".join("b:" + x for x in a["path"].split("/"))), di)
            su = su + [("m", "aug2", extra)]
        mods = [i for i, u in enumerate(su) if u[0] == "m"]
        foreign = {}
        for a in d.for_aug:
            for c in a["children"]:
                foreign[c["name"]] = "aug"
        for a in d.own_aug:
            # the base module's own augments are applied when base is compiled, foreign ones when their module is
            # implemented: their relative sibling order is load-order dependent as well (the documented exception)
            for c in flatten(d.gen, copy.deepcopy(a["children"])):
                foreign[c["name"]] = "0base-own-augment"
        if extra:
            foreign["zz%d" % di] = "aug2"
        fs = rng.choice(fsets)
        spec = "base=%s;aug=%s" % (",".join(fs), rng.choice(["af", ""]))
        perms = list(itertools.permutations(mods))
        if len(perms) > cx.n(8, 24):
            perms = [perms[0]] + rng.sample(perms[1:], cx.n(8, 24) - 1)
        for perm in perms:
            for ex in (0, 1):
                l = "%d cmp load %d %s %s %s %s" % (n, ex, ",".join(map(str, perm)), ",".join(su[i][1] for i in mods), hexs(spec),
                                                    " ".join("%s:%s:%s" % (k, nm, hexs(t)) for k, nm, t in su)); n += 1
                lines.append(l)
                meta[l.split()[0]] = (di, perm, ex, foreign, su, spec)
    ri = cx.run_impl(HARNESS, lines, component="compile")
    ref = {}
    for l in lines:
        i = l.split()[0]
        di, perm, ex, foreign, su, spec = meta[i]
        r = ri.get(i, ["err", "NoReply"])
        cx.count(("order", di, perm, ex), True, "meta:order:" + (r[0] if r[0] == "ok" else " ".join(r[:2])))
        if r[:2] == ["err", "Crash"]:
            continue
        c = tuple(repr(canon(parse_blocks(unhex(x).decode()), foreign)) for x in r[1:]) if r[0] == "ok" else ("err",) + tuple(r[1:2])
        if di not in ref:
            ref[di] = (c, perm, ex, r)
        elif ref[di][0] != c:
            cls = None
            if r[0] == "ok" and ref[di][3][0] == "ok" and \
                    [canon(parse_blocks(unhex(x).decode()), foreign, True) for x in r[1:]] == [canon(parse_blocks(unhex(x).decode()), foreign, True) for x in ref[di][3][1:]]:
                cls = "F81"   # only the order of nodes added by several augments of ONE module differs
            cx.fail("compile", "effective schema depends on load order / compile mode",
                    {"features": spec, "units": [(k_, nm, t) for k_, nm, t in su], "order_a": ref[di][1], "explicit_a": ref[di][2],
                     "order_b": perm, "explicit_b": ex,
                     "a": [unhex(x).decode() for x in ref[di][3][1:]] if ref[di][3][0] == "ok" else ref[di][3],
                     "b": [unhex(x).decode() for x in r[1:]] if r[0] == "ok" else r, "finding_class": cls})
