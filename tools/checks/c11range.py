"""C11, range / length restrictions: model vs `lys_compile_type_range` (white-box) and the RFC 7950 laws on the
implementation's own replies.  Reference reader written from RFC 7950 §14 (`range-arg`, `length-arg`) and §9.2.4:
parts ascending and disjoint, `min`/`max` = bounds of the restricted (base) type, a derived restriction must be
equally or more limiting."""
import itertools, re
from vlib.proto import hexs, unhex

I64 = (-(1 << 63), (1 << 63) - 1)
TYPES = {
    "int8": dict(lo=-128, hi=127, fd=0), "int16": dict(lo=-32768, hi=32767, fd=0), "int32": dict(lo=-(1 << 31), hi=(1 << 31) - 1, fd=0),
    "int64": dict(lo=I64[0], hi=I64[1], fd=0), "uint8": dict(lo=0, hi=255, fd=0), "uint16": dict(lo=0, hi=65535, fd=0),
    "uint32": dict(lo=0, hi=(1 << 32) - 1, fd=0), "uint64": dict(lo=0, hi=(1 << 64) - 1, fd=0),
    "string": dict(lo=0, hi=(1 << 64) - 1, fd=0, length=True), "dec64": dict(lo=I64[0], hi=I64[1], fd=1),
}

# ---- reference grammar -----------------------------------------------------------------------------------------------
INT_RE = re.compile(rb"-?(0|[1-9][0-9]*)")
NNINT_RE = re.compile(rb"(0|[1-9][0-9]*)")
DEC_RE = re.compile(rb"-?(0|[1-9][0-9]*)\.[0-9]+")
OPTSEP = rb"(?:[ \t\n]|\r\n)*"


def ref_parse(ty, fd, s):
    """list of (lower, upper) with boundaries 'min' | 'max' | scaled int, or None if `s` is not a range-arg / length-arg"""
    t = TYPES[ty]
    def boundary(b):
        if b in (b"min", b"max"):
            return b.decode()
        if t.get("length"):
            return int(b) if NNINT_RE.fullmatch(b) else None
        if ty == "dec64":
            if DEC_RE.fullmatch(b):
                ip, fp = b.split(b".")
                if len(fp) > fd:
                    # more fraction digits than the type has: not a value of the type
                    return "toolong"
                neg = ip.startswith(b"-")
                v = int(ip.lstrip(b"-")) * 10 ** fd + int(fp.ljust(fd, b"0"))
                return -v if neg else v
            if INT_RE.fullmatch(b):
                return int(b) * 10 ** fd
            return None
        return int(b) if INT_RE.fullmatch(b) else None
    parts = []
    for p in re.split(OPTSEP + rb"\|" + OPTSEP, s):
        bs = re.split(OPTSEP + rb"\.\." + OPTSEP, p)
        if len(bs) > 2:
            return None
        vals = [boundary(b) for b in bs]
        if any(v is None for v in vals):
            return None
        parts.append((vals[0], vals[-1]))
    return parts


def merge(parts):
    out = []
    for lo, hi in parts:
        if out and lo <= out[-1][1] + 1:
            out[-1] = (out[-1][0], max(out[-1][1], hi))
        else:
            out.append((lo, hi))
    return out


def ref_eval(ty, base, ast):
    """resolved parts if the restriction is valid per RFC 7950 §9.2.4 against `base` (list of parts or None), else None"""
    t = TYPES[ty]
    eff = base if base is not None else [(t["lo"], t["hi"])]
    res = []
    for lo, hi in ast:
        r = []
        for b in (lo, hi):
            if b == "toolong": return None
            if b == "min": b = eff[0][0]
            elif b == "max": b = eff[-1][1]
            elif not (t["lo"] <= b <= t["hi"]): return None
            r.append(b)
        if r[0] > r[1]: return None
        if res and r[0] <= res[-1][1]: return None
        res.append((r[0], r[1]))
    # RFC 7950 §9.2.4 lists the allowed changes (raise lower bounds, reduce upper bounds, remove or split parts): every
    # derived part lies within ONE base part (a part spanning two adjacent base parts is not among them)
    m = eff
    for lo, hi in res:
        if not any(a <= lo and hi <= b for a, b in m):
            return None
    return res


def member(parts, v):
    return any(a <= v <= b for a, b in parts)


# ---- generators ------------------------------------------------------------------------------------------------------
def fmt(ty, fd, v, rng=None):
    if ty != "dec64":
        return str(v).encode()
    neg, a = v < 0, abs(v)
    ip, fp = divmod(a, 10 ** fd)
    s = ("-" if neg else "") + str(ip)
    if fp or (rng and rng.random() < 0.5):
        s += "." + str(fp).rjust(fd, "0")
    return s.encode()


TOK = {
    "int8": [b"min", b"max", b"..", b"|", b" ", b"1", b"5", b"10", b"11", b"-128", b"127", b"128", b"-129"],
    "uint8": [b"min", b"max", b"..", b"|", b" ", b"0", b"1", b"5", b"10", b"255", b"256", b"-1", b"+2"],
    "int64": [b"min", b"max", b"..", b"|", b" ", b"0", b"5", b"-9223372036854775808", b"9223372036854775807", b"9223372036854775808", b"-9223372036854775809"],
    "uint64": [b"min", b"max", b"..", b"|", b" ", b"0", b"10", b"18446744073709551615", b"18446744073709551616", b"-0"],
    "dec64": [b"min", b"max", b"..", b"|", b" ", b"1.5", b"10", b"5.5", b"1.55", b"-0.1", b"1.", b"-", b"922337203685477580.7", b"922337203685477580.8"],
    "string": [b"min", b"max", b"..", b"|", b" ", b"0", b"1", b"5", b"10", b"20", b"007", b"-0"],
}
BASES = {
    "int8": [None, b"1..10", b"-128|0..5|127", b"min..-1|1..max"],
    "uint8": [None, b"1..10", b"0|5..20|255"],
    "int64": [None, b"-9223372036854775808..0|5|9223372036854775807"],
    "uint64": [None, b"0..10|18446744073709551615"],
    "dec64": [None, b"1.5..10", b"-922337203685477580.8|0..5.5"],
    "string": [None, b"1..10", b"0|5..20"],
}


def gen_range(rng, ty, fd, eff):
    """random grammatical restriction that is usually valid against the parts `eff`"""
    t = TYPES[ty]
    def ws():
        return b"".join(rng.choice([b" ", b"\t", b"\n"]) for _ in range(rng.choice([0, 0, 0, 1, 2])))
    pool = []
    for a, b in eff:
        pool += [a, b, a + 1, b - 1, (a + b) // 2, a - 1, b + 1]
    pool = sorted(set(v for v in pool if t["lo"] <= v <= t["hi"])) or [0]
    k = rng.randrange(1, 5)
    if rng.random() < 0.8:
        vals = sorted(rng.sample(pool, min(len(pool), 2 * k)))
    else:
        vals = [rng.choice(pool) for _ in range(2 * k)]
    parts = []
    i = 0
    while i < len(vals):
        lo = vals[i]
        if rng.random() < 0.6 and i + 1 < len(vals):
            hi = vals[i + 1]; i += 2
            a = b"min" if (not parts and rng.random() < 0.25) else fmt(ty, fd, lo, rng)
            b = b"max" if (i >= len(vals) and rng.random() < 0.3) else fmt(ty, fd, hi, rng)
            parts.append(a + ws() + b".." + ws() + b)
        else:
            i += 1
            parts.append(fmt(ty, fd, lo, rng))
    return (ws() + b"|" + ws()).join(parts)


def mutate(rng, s):
    junk = [b"|", b"..", b" ", b"min", b"max", b"+", b"-", b"0", b"9", b".", b"|", b"||", b" 1", b"1 ", b"\x0b", b"a", b"00", b"1..2"]
    k = rng.randrange(len(s) + 1)
    r = rng.random()
    if r < 0.55:
        return s[:k] + rng.choice(junk) + s[k:]
    j = min(len(s), k + rng.randrange(1, 3))
    return s[:k] + s[j:]


def run_range(cx, model_first, PRED):
    rng = cx.sub_rng("range")
    cx.rule("range/length: ALL token strings of <= %s tokens over {min,max,..,|,blank,edge numbers} for int8/uint8/int64/uint64/decimal64/length, alone and "
            "derived from base restrictions of <= 3 parts, through lys_compile_type_range; random grammatical restrictions (chains of depth <= 3) and a "
            "mutated stream; accepted restrictions validated end-to-end at all part edges +-1 (lyd_value_validate); non-trivial = distinct request"
            % ("4 (int8, uint8), 3 (others)" if cx.tier == "quick" else "5 (int8), 4 (others)"))
    cases, meta = [], {}
    def add(ty, fd, chain):
        c = "range %s %d %s" % (ty, fd, " ".join(hexs(x) for x in chain))
        if c not in meta:
            meta[c] = (ty, fd, chain)
            cases.append(c)
    for ty in TOK:
        fd = TYPES[ty]["fd"]
        deep = {"int8": cx.n(4, 5), "uint8": cx.n(4, 4)}.get(ty, cx.n(3, 4))
        for bi, base in enumerate(BASES[ty]):
            d = deep if bi <= 1 else deep - 1
            for n in range(1, d + 1):
                for t in itertools.product(TOK[ty], repeat=n):
                    s = b"".join(t)
                    add(ty, fd, ([base] if base else []) + [s])
    # random chains
    for _ in range(cx.n(4000, 80000)):
        ty = rng.choice(list(TOK))
        fd = rng.choice([1, 2, 18]) if ty == "dec64" else 0
        t = TYPES[ty]
        eff = [(t["lo"], t["hi"])]
        if rng.random() < 0.5:
            c0 = rng.choice([-100, 0, 1, 50, t["lo"], t["hi"] - 300, t["hi"] - 3])
            c0 = max(t["lo"], min(t["hi"] - 3, c0))
            eff = [(c0, min(t["hi"], c0 + rng.choice([3, 20, 250])))]
        chain = []
        for lvl in range(rng.randrange(1, 4)):
            s = gen_range(rng, ty, fd, eff)
            if rng.random() < 0.25:
                s = mutate(rng, s)
            chain.append(s)
            a = ref_parse(ty, fd, s) if ty != "dec64" else None
            if a:
                ev = ref_eval(ty, eff if lvl else None, a)
                if ev:
                    eff = ev
        if any(b"\x00" in s for s in chain): continue
        add(ty, fd, chain)
    lines, ri, rm = model_first(cx, cases, cx.n(3, 10))

    accepted = []
    for l in lines:
        i = l.split()[0]
        c = " ".join(l.split()[2:])
        ty, fd, chain = meta[c]
        rep = ri.get(i)
        if rep is None:
            cx.count(c, True, "range:not-sent")
            continue
        if rep[:2] == ["err", "Crash"]:
            cx.count(c, True, "range:Crash")
            continue
        # reference verdict along the chain
        base, want, gram = None, "ok", True
        for k, s in enumerate(chain):
            a = ref_parse(ty, fd, s)
            if a is None:
                want, gram = ("err", k), False
                break
            ev = ref_eval(ty, base, a)
            if ev is None:
                want = ("err", k)
                break
            base = ev
        kind = "ok" if rep[0] == "ok" else rep[2]
        cx.count(c, True, "range:%s:%s:%s" % (ty, "gram" if gram else "ungram", kind))
        if rep[0] == "ok":
            got = [tuple(int(x) for x in p.split(":")) for p in rep[1].split(",")]
            accepted.append((ty, fd, chain, got))
        if want == "ok":
            if rep[0] != "ok":
                cx.fail("iff", "valid range restriction rejected", {"type": ty, "fd": fd, "chain_hex": [hexs(x) for x in chain], "reply": rep,
                                                                     "finding_class": strict_class(ty, fd, chain)})
            elif got != base:
                cx.fail("iff", "range restriction compiled to different parts than RFC 7950 gives it",
                        {"type": ty, "fd": fd, "chain_hex": [hexs(x) for x in chain], "got": got, "want": base})
        else:
            lvl = want[1]
            if rep[0] == "ok" or int(rep[1]) > lvl:
                # accepted (or failed only later) although level `lvl` is invalid
                cls = lenient_class(ty, fd, chain, lvl, base)
                cx.fail("iff", ("ungrammatical" if cls in ("F75", "F77") else "invalid (not ascending / not narrowing / out of type)") + " range restriction accepted",
                        {"type": ty, "fd": fd, "chain_hex": [hexs(x) for x in chain], "level": lvl, "reply": rep, "finding_class": cls})

    # ---- end to end: membership at the part edges, derived ⊆ base on the implementation's own verdicts ---------------
    rng.shuffle(accepted)
    reqs, vmeta = [], {}
    gotparts = {}
    for ty, fd, chain, got in accepted:
        gotparts[(ty, fd, tuple(chain))] = got
    for ty, fd, chain, got in accepted[:cx.n(400, 6000)]:
        if any(ch in s for s in chain for ch in b"\"\\\n\r\x0b\x0c") or any(not s for s in chain):
            continue
        t = TYPES[ty]
        if ty == "string":
            got = [(a, b) for a, b in got if a <= 300]
        vals = set()
        for a, b in got:
            vals.update([a - 1, a, a + 1, b - 1, b, b + 1])
        vals = sorted(v for v in vals if t["lo"] <= v <= t["hi"] and (ty != "string" or v <= 300))[:40]
        if not vals:
            continue
        for depth in range(1, len(chain) + 1):
            c = "rangeval %s %d %s %s" % (ty, fd, ",".join(str(v) for v in vals), " ".join(hexs(x) for x in chain[:depth]))
            if c not in vmeta:
                vmeta[c] = (ty, fd, chain[:depth], vals)
                reqs.append(c)
    vlines, vri, vrm = model_first(cx, reqs, 2)
    byreq = {}
    for l in vlines:
        i = l.split()[0]
        c = " ".join(l.split()[2:])
        rep = vri.get(i)
        cx.count(c, True, "rangeval:" + (rep[0] if rep else "not-sent"))
        byreq[c] = rep
    for c, (ty, fd, chain, vals) in vmeta.items():
        rep = byreq.get(c)
        if not rep or rep[0] != "ok":
            continue
        # law: validation accepts exactly the members of the parts the implementation itself compiled (when ascending)
        gp = gotparts.get((ty, fd, tuple(chain)))
        if gp and all(a <= b for a, b in gp) and all(gp[k][1] < gp[k + 1][0] for k in range(len(gp) - 1)):
            for k, v in enumerate(vals):
                if (rep[1][k] == "1") != member(gp, v):
                    cx.fail("iff", "value validation differs from membership in the compiled parts",
                            {"type": ty, "fd": fd, "chain_hex": [hexs(x) for x in chain], "value": v, "parts": gp, "accepted": rep[1][k]})
                    break
        if len(chain) < 2:
            continue
        pc = "rangeval %s %d %s %s" % (ty, fd, ",".join(str(v) for v in vals), " ".join(hexs(x) for x in chain[:-1]))
        prep = byreq.get(pc)
        if not prep or prep[0] != "ok":
            continue
        for k, v in enumerate(vals):
            if rep[1][k] == "1" and prep[1][k] != "1":
                cls = "F75" if (ref_parse(ty, fd, chain[-1]) is None and juxtaposed(chain[-1])) else None
                cx.fail("iff", "derived type accepts a value its base type rejects",
                        {"type": ty, "fd": fd, "chain_hex": [hexs(x) for x in chain], "value": v, "finding_class": cls})
                break


TOKEN_RE = re.compile(rb"[ \t\n\r\x0b\x0c]+|min|max|\.\.|\||[+-]?[0-9]*(?:\.[0-9]+)?")


def juxtaposed(s):
    """two boundaries (number / min / max) follow each other with only blanks in between: the F75 shape"""
    toks, i = [], 0
    while i < len(s):
        m = TOKEN_RE.match(s, i)
        if not m or m.end() == i:
            return False if not toks else _jux(toks)
        t = m.group(0)
        if t.strip(b" \t\n\r\x0b\x0c"):
            toks.append(t)
        i = m.end()
    return _jux(toks)


def _jux(toks):
    isb = lambda t: t not in (b"..", b"|")
    return any(isb(a) and isb(b) for a, b in zip(toks, toks[1:]))


def strict_class(ty, fd, chain):
    """valid restriction rejected: known (F76) only when `min` is used anywhere but as the very first boundary or `max`
    anywhere but as the very last one (libyang's parser accepts the keywords only there)"""
    for s in chain:
        a = ref_parse(ty, fd, s)
        if a is None:
            return None
        flat = [b for part in a for b in (part if part[0] is not part[1] or True else part)]
        # boundaries in textual order: a single-boundary part contributes one token
        toks = []
        for part_text in re.split(OPTSEP + rb"\|" + OPTSEP, s):
            toks += re.split(OPTSEP + rb"\.\." + OPTSEP, part_text)
        if b"min" in toks[1:] or b"max" in toks[:-1]:
            return "F76"
    return None


def lenient_class(ty, fd, chain, lvl, base):
    """invalid restriction accepted: F75 if the argument is not in the RFC grammar at all; F76 for the one grammatical
    shape `...N|max` with N equal to the maximum (stand-alone `max` part compared non-strictly: duplicate part)"""
    a = ref_parse(ty, fd, chain[lvl])
    if a is None:
        return "F75" if juxtaposed(chain[lvl]) else "F77"
    if len(a) >= 2 and a[-1] == ("max", "max") and ref_eval(ty, base, a[:-1]) is not None:
        return "F76"
    return None
